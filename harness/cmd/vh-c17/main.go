//go:build verif

// vh-c17: correspondence + monitor harness for property C17 (metric log writer / searcher).
//
// Every case runs the REAL DefaultMetricLogWriter and DefaultMetricSearcher on a scratch
// directory under --out (never /tmp), with the process time zone pinned per case.  The monitor
// (monitor.go) keeps its own ledger of accepted items and reads the directory with its own
// parser; the Coq case printer emits the same history plus digests of everything observed.
package main

import (
	"encoding/json"
	"fmt"
	"os"
	"path/filepath"
	"strconv"
	"time"

	"github.com/alibaba/sentinel-golang/core/base"
	"github.com/alibaba/sentinel-golang/core/log/metric"
	"github.com/alibaba/sentinel-golang/util"

	"vh/internal/cli"
	"vh/internal/emit"
	"vh/internal/env"
	"vh/internal/rng"
	"vh/internal/vclock"
)

type itemT struct {
	Res      string `json:"res"`
	Pass     uint64 `json:"pass"`
	Block    uint64 `json:"block"`
	Complete uint64 `json:"complete"`
	Err      uint64 `json:"err"`
	Rt       uint64 `json:"rt"`
	Occ      uint64 `json:"occ"`
	Conc     uint32 `json:"conc"`
	Cls      int32  `json:"cls"`
}

type opT struct {
	Kind     string  `json:"kind"` // write | range | from
	Ts       uint64  `json:"ts,omitempty"`
	Items    []itemT `json:"items,omitempty"`
	Begin    uint64  `json:"begin,omitempty"`
	End      uint64  `json:"end,omitempty"`
	Res      string  `json:"qres,omitempty"`
	MaxLines uint32  `json:"max_lines,omitempty"`
}

type caseT struct {
	ID       int    `json:"id"`
	Class    string `json:"class"`
	MaxSize  uint64 `json:"max_size"`
	MaxFiles uint32 `json:"max_files"`
	Tz       int    `json:"tz_offset_sec"`
	T0       uint64 `json:"t0_ms"`
	WithPid  bool   `json:"with_pid"`
	Ops      []opT  `json:"ops"`
	CutQs    []opT  `json:"cut_queries,omitempty"`
	CutMode  string `json:"cut_mode"` // none | sample | all
}

// rec is one item as written (ledger) or as returned by the searcher.
type rec struct {
	Ts uint64
	itemT
}

func recOf(m *base.MetricItem) rec {
	return rec{m.Timestamp, itemT{m.Resource, m.PassQps, m.BlockQps, m.CompleteQps, m.ErrorQps, m.AvgRt, m.OccupiedPassQps, m.Concurrency, m.Classification}}
}

// ---------------------------------------------------------------------------------- generator

var tzChoices = []int64{0, 0, 0, 8 * 3600, -5 * 3600, 19800, 14 * 3600, -12 * 3600}

func genName(r *rng.R) string {
	switch r.Intn(12) {
	case 0:
		return "资源/é-ü"
	case 1:
		return "GET /api/v1/users list"
	case 2:
		s := ""
		for i := 0; i < 150+r.Intn(120); i++ {
			s += string(rune('a' + (i % 26)))
		}
		return s
	case 3:
		return ""
	case 4:
		return "tab\there\x01\xff\xfe"
	case 5:
		return "1700000000000" // looks like a number
	case 6:
		return "a.b:c;d,e=f"
	default:
		return "res-" + strconv.Itoa(r.Intn(4))
	}
}

// size boundaries of the byte-level contract: the buffer sizes used in core/log/metric (bufio default 4096, the
// readers' 8192) and 64 KiB, each -1 / exact / +1, plus tiny lengths
var sizeEdges = []int{0, 1, 2, 3, 4095, 4096, 4097, 8191, 8192, 8193, 65535, 65536, 65537}

// genSizedName: a resource name of exactly n bytes (no '|', no line break), content varied so that a shifted or
// truncated copy is not equal
func genSizedName(r *rng.R, n int) string {
	b := make([]byte, n)
	k := r.Intn(26)
	for i := range b {
		b[i] = byte('a' + (i+k)%26)
		if i%97 == 96 {
			b[i] = byte('0' + (i/97)%10)
		}
	}
	return string(b)
}

// genSizeBoundaryName: a name whose length, or whose whole log line (timestamp, time string, counters, LF included:
// 60 to 190 bytes around the name), lands on / next to a buffer size
func genSizeBoundaryName(r *rng.R) string {
	e := sizeEdges[r.Intn(len(sizeEdges))]
	if e >= 4095 && r.Chance(1, 2) {
		e -= 40 + r.Intn(160) // the line, not the name, is at the edge
	}
	return genSizedName(r, e)
}

func genBigU64(r *rng.R) uint64 {
	return uint64(r.PickI(0, 1)) + []uint64{999999999999999999, 1000000000000000000, 9999999999999999998, 9223372036854775807, 9223372036854775808,
		10000000000000000000, 18446744073709551614}[r.Intn(7)]
}

// white space the writer accepts in a resource name (everything except '|' and line breaks must round-trip byte
// for byte): ASCII blank / tab / VT / FF, NBSP, NEL, Unicode spaces, also as non-UTF-8 bytes
var blanks = []string{" ", "\t", "  ", " \t ", "\v", "\f", "\u00a0", "\u0085", "\u2003", "\u3000", "\u2028", "\xa0", "\x85"}

// genBlankFamily: names that differ only in surrounding / inner white space (written within one case, often
// within one second, and queried by their exact bytes)
func genBlankFamily(r *rng.R) []string {
	base := []string{"svc", "GET /orders", "job:nightly", "é", "x", ""}[r.Intn(6)]
	b1, b2 := blanks[r.Intn(len(blanks))], blanks[r.Intn(len(blanks))]
	fam := []string{base, b1 + base, base + b2, b1 + base + b2}
	switch r.Intn(4) {
	case 0:
		fam = append(fam, b1) // white space only
	case 1:
		fam = append(fam, base+b1+base) // inner white space
	case 2:
		fam = append(fam, "\xff"+base+b2, base+"\xc3") // not UTF-8
	}
	// keep 2-4 of them, in random order
	for i := len(fam) - 1; i > 0; i-- {
		j := r.Intn(i + 1)
		fam[i], fam[j] = fam[j], fam[i]
	}
	return fam[:2+r.Intn(3)]
}

func genU64(r *rng.R) uint64 {
	switch r.Intn(12) {
	case 0:
		return 0
	case 1:
		return 18446744073709551615
	case 2:
		return 4294967296
	case 3:
		return 9999999999
	case 4:
		return 10000000000000000000
	default:
		return uint64(r.Intn(1200))
	}
}

func genItem(r *rng.R, names []string) itemT {
	it := itemT{Res: names[r.Intn(len(names))], Pass: genU64(r), Block: genU64(r), Complete: genU64(r), Err: genU64(r), Rt: genU64(r), Occ: genU64(r)}
	it.Conc = uint32(r.PickI(0, 1, 9, 10, 4294967295, int64(r.Intn(500))))
	it.Cls = int32(r.PickI(0, 0, 1, 2, 3, -1, 2147483647, -2147483648, int64(r.Intn(100))))
	return it
}

func gen(r *rng.R, id int, cutMode string) caseT {
	c := caseT{ID: id, CutMode: cutMode}
	sized := id >= sizeBase
	c.Tz = int(tzChoices[r.Intn(len(tzChoices))])
	c.WithPid = r.Chance(1, 4)
	day := int64(19675 + r.Intn(3))
	localMidnight := (day*86400 - int64(c.Tz)) * 1000 // ms (UTC instant of a local midnight)
	switch r.Intn(10) {
	case 0, 1, 2:
		c.T0 = uint64(localMidnight - int64(1+r.Intn(4))*1000 + int64(r.Intn(1000)))
	case 3:
		c.T0 = uint64(localMidnight + int64(r.Intn(1000)))
	default:
		c.T0 = uint64(localMidnight + int64(r.Intn(86000))*1000 + int64(r.Intn(1000)))
	}
	nn := 1 + r.Intn(4)
	var names []string
	for i := 0; i < nn; i++ {
		names = append(names, genName(r))
	}
	if r.Chance(1, 6) {
		names = genBlankFamily(r)
	}
	nw := 8 + r.Intn(14)
	maxItems := 3
	minItems := 1
	bigCounters := false
	switch cls := r.Intn(10); {
	case sized:
		// size boundaries: name / line lengths at the buffer sizes, 19-20 digit counters, many items in one second,
		// one item per file; file size limits at the same edges
		c.Class = "sizes"
		c.MaxSize = uint64(r.PickI(1, 4096, 8192, 8193, 65536, 52428800, 52428800))
		c.MaxFiles = uint32(r.PickI(2, 3, 6, 12))
		nw = 4 + r.Intn(5)
		bigCounters = r.Chance(1, 2)
		names = names[:1]
		switch r.Intn(4) {
		case 0: // many short items in one batch
			minItems, maxItems = 40, 200
			c.MaxSize = uint64(r.PickI(4096, 8192, 65536, 52428800))
		case 1: // one item per file, long or tiny names
			c.MaxSize = 1
			names = append(names, genSizeBoundaryName(r), genSizedName(r, r.Intn(4)))
		default:
			names = append(names, genSizeBoundaryName(r))
			if r.Chance(1, 3) {
				names = append(names, genSizeBoundaryName(r))
			}
		}
	case cutMode != "none":
		c.Class = "cut"
		c.MaxSize = uint64(r.PickI(400, 700, 1000, 100000))
		c.MaxFiles = uint32(r.PickI(1, 2, 3, 5))
		nw = 5 + r.Intn(6)
		maxItems = 2
		for i := range names {
			if len(names[i]) > 12 {
				names[i] = names[i][:12]
			}
		}
	case cls < 2:
		c.Class = "manyrolls"
		c.MaxSize = uint64(r.PickI(1, 1, 30, 60))
		c.MaxFiles = uint32(r.PickI(12, 13, 15, 30))
		nw = 13 + r.Intn(8)
		maxItems = 1
	case cls < 4:
		c.Class = "tiny-retention"
		c.MaxSize = uint64(r.PickI(1, 50, 100, 150, 200))
		c.MaxFiles = uint32(r.PickI(1, 1, 2, 2, 3))
	case cls < 8:
		c.Class = "rolls"
		c.MaxSize = uint64(r.PickI(100, 150, 200, 300, 450, 600))
		c.MaxFiles = uint32(r.PickI(2, 3, 4, 6, 8))
	default:
		c.Class = "single-file"
		c.MaxSize = uint64(r.PickI(5000, 100000, 52428800))
		c.MaxFiles = uint32(r.PickI(1, 2, 8))
	}
	cur := int64(c.T0)
	var secs []uint64 // seconds seen (for query generation)
	secs = append(secs, c.T0/1000)
	genQueries := func(n int) {
		// a run of queries on the one searcher, mostly with non-decreasing begin times so that
		// the cached position is exercised, sometimes going back
		b := int64(0)
		for i := 0; i < n; i++ {
			s := int64(secs[r.Intn(len(secs))])
			switch r.Intn(8) {
			case 0:
				b = 0
			case 1:
				b = s*1000 + int64(r.Intn(1000))
			case 2, 3, 4:
				// move forward from the previous begin
				if nb := s * 1000; nb >= b {
					b = nb + int64(r.Intn(1000))
				} else {
					b += int64(r.Intn(3)) * 1000
				}
			case 5:
				b = (s+1)*1000 + int64(r.Intn(1000))
			case 6:
				b = (s - 1) * 1000
			default:
				b = (int64(secs[len(secs)-1]) + int64(r.Intn(3))) * 1000
			}
			if b < 0 {
				b = 0
			}
			if r.Chance(1, 2) {
				e := b + int64(r.PickI(0, 999, 1000, 2000, 5000, 100000000, 400000000))
				if r.Chance(1, 8) {
					e = b - 1000
					if e < 0 {
						e = 0
					}
				}
				res := ""
				if r.Chance(1, 2) {
					res = names[r.Intn(len(names))]
				} else if r.Chance(1, 6) {
					res = "no-such-resource"
				}
				c.Ops = append(c.Ops, opT{Kind: "range", Begin: uint64(b), End: uint64(e), Res: res})
			} else {
				c.Ops = append(c.Ops, opT{Kind: "from", Begin: uint64(b), MaxLines: uint32(r.PickI(0, 1, 1, 2, 3, 5, 8, 100, 4294967295))})
			}
		}
	}
	for w := 0; w < nw; w++ {
		var ts int64
		switch x := r.Intn(100); {
		case x < 30: // same second, any millisecond
			ts = cur/1000*1000 + int64(r.Intn(1000))
		case x < 62:
			ts = cur + 1000
		case x < 78:
			ts = cur + int64(2+r.Intn(5))*1000
		case x < 84: // just before / at the next local midnight
			nextMid := ((cur/1000+int64(c.Tz))/86400+1)*86400 - int64(c.Tz)
			ts = (nextMid-int64(r.Intn(2)))*1000 + int64(r.Intn(1000))
		case x < 88:
			ts = cur + int64(86400+r.Intn(90000))*1000
		case x < 90:
			ts = cur + int64(r.Intn(20000))*1000
		case x < 97: // an older second: must be ignored
			ts = cur - int64(1+r.Intn(3))*1000
		case x < 98:
			ts = 0
		default:
			ts = cur
		}
		if ts < 0 {
			ts = 0
		}
		n := minItems + r.Intn(maxItems-minItems+1)
		if minItems == 1 {
			n = 1 + r.Intn(maxItems)
		}
		if r.Chance(1, 25) {
			n = 0
		}
		var items []itemT
		for i := 0; i < n; i++ {
			it := genItem(r, names)
			if bigCounters && r.Chance(1, 2) {
				it.Pass, it.Rt, it.Occ = genBigU64(r), genBigU64(r), genBigU64(r)
			}
			items = append(items, it)
		}
		c.Ops = append(c.Ops, opT{Kind: "write", Ts: uint64(ts), Items: items})
		if ts/1000 >= cur/1000 && n > 0 && ts > 0 {
			cur = ts
			secs = append(secs, uint64(ts/1000))
		}
		if cutMode == "none" && r.Chance(1, 3) {
			genQueries(1 + r.Intn(4))
		}
	}
	if cutMode == "none" {
		genQueries(2 + r.Intn(4))
	} else {
		genQueries(1)
		first, last := int64(secs[0]), int64(secs[len(secs)-1])
		mid := int64(secs[len(secs)/2])
		c.CutQs = []opT{
			{Kind: "range", Begin: 0, End: uint64(last+10) * 1000, Res: ""},
			{Kind: "from", Begin: uint64(mid) * 1000, MaxLines: uint32(r.PickI(1, 2, 100))},
			{Kind: "range", Begin: uint64(first+int64(r.Intn(3))) * 1000, End: uint64(last) * 1000, Res: names[r.Intn(len(names))]},
			{Kind: "from", Begin: uint64(last) * 1000, MaxLines: 100},
		}
	}
	return c
}

// ---------------------------------------------------------------------------------- execution

type fileInfo struct {
	Day, Seq int64
	Path     string
	Data     []byte
	Idx      []byte
}

type queryObs struct {
	Items []rec
	Err   string
}

type runResult struct {
	Obs      []interface{} // per op: listing digest input ([]fileInfo sizes) or queryObs
	Listings [][]fileInfo  // per write op (nil for queries): directory after the op (sizes only used)
	Queries  []*queryObs   // per query op (nil for writes)
	Final    []fileInfo
	Cuts     []cutObs
}

type cutObs struct {
	Idx     bool
	Off     int
	Results []*queryObs
}

func baseName(c caseT) string { return metric.FormMetricFileName("vh.c17-app", c.WithPid) }

func doQuery(s metric.MetricSearcher, o opT) (q *queryObs) {
	q = &queryObs{}
	defer func() {
		if p := recover(); p != nil {
			q.Err = fmt.Sprintf("panic: %v", p)
		}
	}()
	var items []*base.MetricItem
	var err error
	if o.Kind == "range" {
		items, err = s.FindByTimeAndResource(o.Begin, o.End, o.Res)
	} else {
		items, err = s.FindFromTimeWithMaxLines(o.Begin, o.MaxLines)
	}
	if err != nil {
		q.Err = "error: " + err.Error()
	}
	for _, m := range items {
		q.Items = append(q.Items, recOf(m))
	}
	return
}

func cutOffsets(r *rng.R, mode string, data []byte, isIdx bool) []int {
	n := len(data)
	if mode == "all" || n <= 24 {
		out := make([]int, 0, n)
		for i := 0; i < n; i++ {
			out = append(out, i)
		}
		return out
	}
	seen := map[int]bool{}
	var out []int
	add := func(i int) {
		if i >= 0 && i < n && !seen[i] {
			seen[i] = true
			out = append(out, i)
		}
	}
	if isIdx {
		for i := n - 33; i < n; i++ { // the last two entries, every byte
			add(i)
		}
		for k := 0; k < 8; k++ {
			add(r.Intn(n))
		}
		add(0)
		add(8)
		add(16)
	} else {
		// every offset of the last two lines
		nl := 0
		start := 0
		for i := n - 1; i >= 0; i-- {
			if data[i] == '\n' {
				nl++
				if nl == 3 {
					start = i + 1
					break
				}
			}
		}
		for i := start - 1; i < n; i++ {
			add(i)
		}
		for k := 0; k < 12; k++ {
			add(r.Intn(n))
		}
		add(0)
		add(1)
	}
	return out
}

func runCase(c caseT, workDir string, clk *vclock.Clock, r *rng.R) (*runResult, error) {
	os.RemoveAll(workDir)
	if err := os.MkdirAll(workDir, 0o755); err != nil {
		return nil, err
	}
	time.Local = time.FixedZone("VH", c.Tz)
	clk.SetMs(c.T0)
	bn := baseName(c)
	w, err := metric.NewMetricLogWriterForVerif(workDir, bn, c.MaxSize, c.MaxFiles, int64(c.Tz))
	if err != nil {
		return nil, err
	}
	s, err := metric.NewDefaultMetricSearcher(workDir, bn)
	if err != nil {
		return nil, err
	}
	res := &runResult{}
	for _, o := range c.Ops {
		if o.Kind == "write" {
			var items []*base.MetricItem
			for _, it := range o.Items {
				items = append(items, &base.MetricItem{Resource: it.Res, PassQps: it.Pass, BlockQps: it.Block, CompleteQps: it.Complete,
					ErrorQps: it.Err, AvgRt: it.Rt, OccupiedPassQps: it.Occ, Concurrency: it.Conc, Classification: it.Cls})
			}
			_ = w.Write(o.Ts, items) // ts = 0 is an error by contract
			l, err := listDir(workDir, bn, false)
			if err != nil {
				return nil, err
			}
			res.Listings = append(res.Listings, l)
			res.Queries = append(res.Queries, nil)
		} else {
			res.Listings = append(res.Listings, nil)
			res.Queries = append(res.Queries, doQuery(s, o))
		}
	}
	w.Close()
	res.Final, err = listDir(workDir, bn, true)
	if err != nil {
		return nil, err
	}
	if c.CutMode != "none" && len(res.Final) > 0 {
		last := res.Final[len(res.Final)-1]
		for _, isIdx := range []bool{false, true} {
			full := last.Data
			path := last.Path
			if isIdx {
				full = last.Idx
				path = last.Path + metric.MetricIdxSuffix
			}
			for _, off := range cutOffsets(r, c.CutMode, full, isIdx) {
				if err := os.WriteFile(path, full[:off], 0o644); err != nil {
					return nil, err
				}
				s2, _ := metric.NewDefaultMetricSearcher(workDir, bn)
				co := cutObs{Idx: isIdx, Off: off}
				for _, q := range c.CutQs {
					co.Results = append(co.Results, doQuery(s2, q))
				}
				res.Cuts = append(res.Cuts, co)
			}
			if err := os.WriteFile(path, full, 0o644); err != nil {
				return nil, err
			}
		}
	}
	return res, nil
}

// listDir lists the data files of the directory with (day, seq) parsed from the name, sorted by
// (day, seq); the harness's own reading of the directory, independent of common.go.
func listDir(dir, bn string, withContent bool) ([]fileInfo, error) {
	ents, err := os.ReadDir(dir)
	if err != nil {
		return nil, err
	}
	var out []fileInfo
	for _, e := range ents {
		name := e.Name()
		if len(name) <= len(bn)+1 || name[:len(bn)+1] != bn+"." {
			return nil, fmt.Errorf("unexpected file %q", name)
		}
		rest := name[len(bn)+1:]
		if len(rest) >= 4 && rest[len(rest)-4:] == ".idx" {
			continue
		}
		if len(rest) < 10 {
			return nil, fmt.Errorf("unexpected file %q", name)
		}
		t, err := time.ParseInLocation("2006-01-02", rest[:10], time.UTC)
		if err != nil {
			return nil, fmt.Errorf("unexpected file %q: %v", name, err)
		}
		fi := fileInfo{Day: t.Unix() / 86400, Path: filepath.Join(dir, name)}
		if len(rest) > 10 {
			if rest[10] != '.' {
				return nil, fmt.Errorf("unexpected file %q", name)
			}
			n, err := strconv.ParseInt(rest[11:], 10, 64)
			if err != nil || n < 1 || strconv.FormatInt(n, 10) != rest[11:] {
				return nil, fmt.Errorf("unexpected file %q", name)
			}
			fi.Seq = n
		}
		fi.Data, err = os.ReadFile(fi.Path)
		if err != nil {
			return nil, err
		}
		fi.Idx, err = os.ReadFile(fi.Path + metric.MetricIdxSuffix)
		if err != nil {
			return nil, fmt.Errorf("data file %q without idx file: %v", name, err)
		}
		out = append(out, fi)
	}
	for i := 1; i < len(out); i++ {
		for j := i; j > 0 && (out[j].Day < out[j-1].Day || (out[j].Day == out[j-1].Day && out[j].Seq < out[j-1].Seq)); j-- {
			out[j], out[j-1] = out[j-1], out[j]
		}
	}
	return out, nil
}

// ---------------------------------------------------------------------------------- main

const cutBase = 1000000
const sizeBase = 2000000 // size-boundary cases (class "sizes")

func main() {
	a := cli.Parse()
	env.Init(env.Options{})
	clk := vclock.New(1700000000000)
	clk.Install()
	root := rng.New(a.Seed)
	rep := emit.NewReport("C17", a.Seed, a.Tier)
	rep.Rule = "a case = one writer + ONE searcher on a fresh directory, pinned zone: 5-21 Write calls (same second / next second / gaps / local midnight / day jumps / older seconds / ts 0 / empty batches; 0-3 items with unicode, long, blank, empty, numeric-looking names and boundary field values) interleaved with 3-25 queries (both kinds, begin times around written seconds, mostly non-decreasing so the cached position is used); classes manyrolls (>= 11 files in a day), tiny-retention (MaxFileAmount 1-3), rolls, single-file, blank-families (1 case in 6: 2-4 names that differ only in leading / trailing / inner white space - blank, tab, VT, FF, NBSP, NEL, Unicode spaces, non-UTF-8 bytes - or are white space only), sizes (ids 2000000+: resource-name and whole-line lengths at / next to the buffer sizes 4096, 8192, 65536 and tiny lengths, 19-20 digit counters, 40-200 items in one batch, one item per file), cut (truncation sweep of last data + idx file, fresh searcher per cut, 4 queries). Non-trivial = at least one file roll AND at least one query returning items AND at least one query answered from the cached position (normal cases) / at least one cut strictly inside a line or an index entry (cut cases); distinct by full input."
	nCorr := a.Pick(a.N, 52, 1500)
	nMon := a.Pick(a.Mon, 1000, 25000)
	nCutCorr := a.Pick(a.N/12, 4, 20)
	nCutMon := a.Pick(a.Mon/20, 50, 400)
	nSizeMon := a.Pick(a.Mon/25, 40, 600)
	nSizeCorr := a.Pick(a.N/40, 0, 6)
	cutMode := "sample"
	if a.Tier == "thorough" {
		cutMode = "all"
		rep.Exhaustive = true
	}
	if a.Search {
		nCorr, nCutCorr = 0, 0
		nMon *= 5
		nCutMon *= 5
		nSizeMon *= 5
		nSizeCorr = 0
	}
	var sh *emit.Shards
	if a.Only < 0 && !a.Search {
		var err error
		sh, err = emit.NewShards(a.Out, "Corr.Run_C17", a.Shards, "")
		if err != nil {
			panic(err)
		}
	}
	workDir := filepath.Join(a.Out, "work")
	// the scratch directory of the writer / searcher under test: memory-backed when the platform has one (the
	// quick tier creates and removes some 10^4 small files; on a loaded disk that dominated the run time)
	if st, err := os.Stat("/dev/shm"); err == nil && st.IsDir() {
		if d, err := os.MkdirTemp("/dev/shm", "vh-c17-"); err == nil {
			workDir = filepath.Join(d, "work")
			defer os.RemoveAll(d)
		}
	}
	dist := emit.NewDistinct()
	savedLocal := time.Local
	runOne := func(id int, corr bool) {
		r := root.Fork(uint64(id))
		mode := "none"
		if id >= cutBase && id < sizeBase {
			mode = cutMode
		}
		c := gen(r, id, mode)
		res, err := runCase(c, workDir, clk, r)
		if err != nil {
			fmt.Fprintln(os.Stderr, "harness cannot run case", id, ":", err)
			os.Exit(2)
		}
		rep.Evaluations++
		nt := monitor(c, res, rep)
		stats(c, res, rep)
		if nt {
			b, _ := json.Marshal(c)
			dist.Add(string(b))
		}
		if corr && sh != nil {
			sh.Add(id, coqCase(c, res))
			rep.CorrCases++
			rep.CaseInputs[strconv.Itoa(id)] = c
			if id < 2 || id == cutBase {
				rep.Sample(map[string]interface{}{"input": c, "final_files": sizes(res.Final), "n_cuts": len(res.Cuts)})
			}
		}
		if a.Only >= 0 {
			printCase(c, res)
		}
	}
	if a.Only >= 0 {
		runOne(a.Only, false)
		for _, f := range rep.MonitorFailures {
			fmt.Printf("MONITOR-FAIL clause=%s signature=%s %s\n", f.Clause, f.Signature, f.Detail)
		}
		time.Local = savedLocal
		os.RemoveAll(workDir)
		return
	}
	for id := 0; id < nMon; id++ {
		runOne(id, id < nCorr)
	}
	for j := 0; j < nCutMon; j++ {
		runOne(cutBase+j, j < nCutCorr)
	}
	for j := 0; j < nSizeMon; j++ {
		runOne(sizeBase+j, j < nSizeCorr)
	}
	time.Local = savedLocal
	os.RemoveAll(workDir)
	rep.DistinctNontrivial = dist.N()
	rep.Consts["metric.MetricIdxSuffix"] = metric.MetricIdxSuffix
	rep.Consts["util.TimeFormat"] = util.TimeFormat
	rep.Notes = append(rep.Notes, "cut mode: "+cutMode+" (thorough = every byte offset of the last data file and of its idx file)")
	if sh != nil {
		rep.Shards = sh.Close()
	}
	if err := rep.Write(a.Out); err != nil {
		fmt.Fprintln(os.Stderr, err)
		os.Exit(2)
	}
}

func sizes(fs []fileInfo) [][4]int64 {
	var out [][4]int64
	for _, f := range fs {
		out = append(out, [4]int64{f.Day, f.Seq, int64(len(f.Data)), int64(len(f.Idx))})
	}
	return out
}

func printCase(c caseT, res *runResult) {
	type qo struct {
		Op    opT    `json:"op"`
		Err   string `json:"err,omitempty"`
		Items []rec  `json:"items"`
	}
	var qs []qo
	for i, o := range c.Ops {
		if q := res.Queries[i]; q != nil {
			qs = append(qs, qo{o, q.Err, q.Items})
		}
	}
	out, _ := json.MarshalIndent(map[string]interface{}{"input": c, "queries": qs, "final_files": sizes(res.Final), "n_cuts": len(res.Cuts), "coq": coqCase(c, res)}, "", " ")
	fmt.Println(string(out))
}

func stats(c caseT, res *runResult, rep *emit.Report) {
	rep.Count("class_"+c.Class, 1)
	rep.Count("tz_"+strconv.Itoa(c.Tz), 1)
	maxFilesSeen := 0
	for i, o := range c.Ops {
		rep.Count("op_"+o.Kind, 1)
		if o.Kind == "write" {
			rep.Count("items_written", len(o.Items))
			if n := len(res.Listings[i]); n > maxFilesSeen {
				maxFilesSeen = n
			}
		} else {
			q := res.Queries[i]
			if len(q.Items) > 0 {
				rep.Count("query_nonempty", 1)
			} else {
				rep.Count("query_empty", 1)
			}
		}
	}
	if maxFilesSeen >= 11 {
		rep.Count("cases_with_11+_files", 1)
	}
	days := map[int64]bool{}
	for _, f := range res.Final {
		days[f.Day] = true
	}
	if len(days) > 1 {
		rep.Count("cases_spanning_days", 1)
	}
	rep.Count("cut_points", len(res.Cuts))
}
