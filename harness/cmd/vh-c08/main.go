//go:build verif

// vh-c08: correspondence + monitor harness for property C08 (sliding-window statistics equal
// the aligned-bucket reference for any history).
package main

import (
	"encoding/json"
	"fmt"
	"math"
	"os"
	"sort"
	"strconv"
	"strings"

	"github.com/alibaba/sentinel-golang/core/base"
	"github.com/alibaba/sentinel-golang/core/config"
	"github.com/alibaba/sentinel-golang/core/stat"
	sbase "github.com/alibaba/sentinel-golang/core/stat/base"

	"vh/internal/cli"
	"vh/internal/emit"
	"vh/internal/env"
	"vh/internal/rng"
	"vh/internal/vclock"
)

type opT struct {
	K  string `json:"k"`
	T  uint64 `json:"t"`
	V  int    `json:"v,omitempty"`
	Ev int    `json:"ev,omitempty"`
	C  int64  `json:"c,omitempty"`
	Lo uint64 `json:"lo,omitempty"`
	Hi uint64 `json:"hi,omitempty"`
}

type arrCase struct {
	ID    int      `json:"id"`
	N     uint32   `json:"n"`
	Itv   uint32   `json:"itv"`
	T0    uint64   `json:"t0"`
	Views [][2]int `json:"views"`
	Ops   []opT    `json:"ops"`
}

type resT struct {
	Kind  string
	Z     int64
	F     float64
	Items [][]int64
	List  []int64
}

var geoms = [][2]uint32{{20, 10000}, {2, 1000}, {1, 1000}, {10, 1000}, {4, 2000}, {5, 2500}, {3, 300}, {1, 250}, {6, 750}, {2, 20000}, {7, 7}, {4, 4}, {12, 6000}, {8, 8000}}

// candidate views for a geometry: valid tilings plus a few invalid ones
func viewsFor(r *rng.R, n, itv uint32) [][2]int {
	bl := itv / n
	var out [][2]int
	// valid: vitv divides itv, vbl multiple of bl
	for tries := 0; tries < 40 && len(out) < 3; tries++ {
		k := uint32(r.Range(1, int64(n))) // view window = k buckets
		vitv := k * bl
		if itv%vitv != 0 {
			continue
		}
		// sample count: divisor of k
		vn := uint32(r.Range(1, int64(k)))
		if k%vn != 0 {
			vn = 1
		}
		out = append(out, [2]int{int(vn), int(vitv)})
	}
	if len(out) == 0 {
		out = append(out, [2]int{1, int(itv)})
	}
	// invalid candidates (they must be rejected; never read through)
	out = append(out, [2]int{int(r.Range(0, 3)), int(r.Range(0, int64(itv)+3))})
	return out
}

func genArr(r *rng.R, id int) arrCase {
	c := arrCase{ID: id}
	g := geoms[r.Intn(len(geoms))]
	c.N, c.Itv = g[0], g[1]
	bl := uint64(c.Itv / c.N)
	itv := uint64(c.Itv)
	switch r.Intn(10) {
	case 0:
		c.T0 = uint64(r.Range(1, int64(bl)+2)) // near zero
	case 1:
		c.T0 = uint64(r.Range(1, int64(itv)*2))
	case 2:
		c.T0 = 1700000000000 - 1700000000000%bl // aligned
	case 3:
		c.T0 = 1700000000000 - 1700000000000%itv + itv - 1 // last ms of a cycle
	default:
		c.T0 = 1700000000000 + uint64(r.Range(0, int64(itv)*3))
	}
	c.Views = viewsFor(r, c.N, c.Itv)
	t := c.T0
	nops := 10 + r.Intn(50)
	validViews := len(c.Views) - 1
	for i := 0; i < nops; i++ {
		// advance time: mostly small steps, sometimes to a boundary, sometimes a long idle gap
		switch x := r.Intn(20); {
		case x < 6:
		case x < 10:
			t += uint64(r.Range(1, int64(bl)))
		case x < 13:
			t = t - t%bl + bl // exactly on the next bucket boundary
		case x < 14:
			t = t - t%bl + bl - 1 // last ms of the bucket
		case x < 16:
			t = t - t%itv + itv // cycle boundary
		case x < 17:
			t += itv // exactly one interval later
		case x < 18:
			if r.Intn(3) == 0 {
				// idle for a multiple of 2^32 (or 2^31) ms plus less than one interval: an expiry test
				// that narrows the age to 32 bits would see a fresh bucket
				t += uint64(r.PickI(1<<32, 1<<32, 2<<32, 1<<31, 3<<31)) + uint64(r.Range(0, int64(itv)))
			} else {
				t += itv + uint64(r.Range(0, int64(itv)*2)) // idle longer than the array
			}
		default:
			t += uint64(r.Range(0, int64(itv)))
		}
		o := opT{T: t}
		switch x := r.Intn(24); {
		case x < 7:
			o.K, o.Ev, o.C = "add", r.Intn(5), r.PickI(1, 1, 1, 2, 3, 5, 10, 100, 0)
			if o.Ev == 4 {
				o.C = r.PickI(0, 1, 3, 17, 250, 59999, 60000, 70000)
			}
		case x < 8:
			o.K, o.C = "conc", r.Range(-1, 9)
		case x < 10:
			o.K, o.Ev = "count", r.Intn(5)
		case x < 11:
			o.K = []string{"arrmin", "arrmax", "vals"}[r.Intn(3)]
		case x < 14:
			o.K, o.V, o.Ev = "vsum", r.Intn(validViews), r.Intn(5)
		case x < 15:
			o.K, o.V, o.Ev = "vqps", r.Intn(validViews), r.Intn(5)
		case x < 17:
			o.K, o.V, o.Ev = "vprev", r.Intn(validViews), r.Intn(5)
		case x < 18:
			o.K, o.V = "vmin", r.Intn(validViews)
		case x < 19:
			o.K, o.V = "vmaxc", r.Intn(validViews)
		case x < 20:
			o.K, o.V, o.Ev = "vmaxs", r.Intn(validViews), r.Intn(5)
		case x < 21:
			o.K, o.V = "vavg", r.Intn(validViews)
		default:
			o.K = "sec"
			if r.Bool() {
				o.Lo, o.Hi = 0, math.MaxInt64
			} else {
				o.Lo = t - t%1000 - uint64(r.Range(0, 3))*1000
				if o.Lo > t {
					o.Lo = 0
				}
				o.Hi = o.Lo + uint64(r.Range(0, 2000))
			}
		}
		c.Ops = append(c.Ops, o)
	}
	return c
}

func itemsRows(items []*base.MetricItem) [][]int64 {
	var rows [][]int64
	for _, it := range items {
		rows = append(rows, []int64{int64(it.Timestamp), int64(it.PassQps), int64(it.BlockQps), int64(it.CompleteQps), int64(it.ErrorQps), int64(it.AvgRt), int64(it.Concurrency)})
	}
	sort.Slice(rows, func(i, j int) bool { return rows[i][0] < rows[j][0] })
	return rows
}

func runArr(c arrCase, clk *vclock.Clock) (vok []bool, res []resT, slots [][]int64) {
	clk.SetMs(c.T0)
	arr := sbase.NewBucketLeapArrayWithTime(c.N, c.Itv, c.T0)
	views := make([]*sbase.SlidingWindowMetric, len(c.Views))
	for i, v := range c.Views {
		m, err := sbase.NewSlidingWindowMetric(uint32(v[0]), uint32(v[1]), arr)
		vok = append(vok, err == nil)
		views[i] = m
	}
	for _, o := range c.Ops {
		clk.SetMs(o.T)
		ev := base.MetricEvent(o.Ev)
		switch o.K {
		case "add":
			arr.AddCount(ev, o.C)
			res = append(res, resT{Kind: "none"})
		case "conc":
			arr.UpdateConcurrency(int32(o.C))
			res = append(res, resT{Kind: "none"})
		case "count":
			res = append(res, resT{Kind: "z", Z: arr.Count(ev)})
		case "arrmin":
			res = append(res, resT{Kind: "z", Z: arr.MinRt()})
		case "arrmax":
			res = append(res, resT{Kind: "z", Z: int64(arr.MaxConcurrency())})
		case "vals":
			var l []int64
			for _, w := range arr.Values(o.T) {
				l = append(l, int64(w.BucketStart))
			}
			sort.Slice(l, func(i, j int) bool { return l[i] < l[j] })
			res = append(res, resT{Kind: "list", List: l})
		case "vsum":
			res = append(res, resT{Kind: "z", Z: views[o.V].GetSum(ev)})
		case "vqps":
			res = append(res, resT{Kind: "f", F: views[o.V].GetQPS(ev)})
		case "vprev":
			res = append(res, resT{Kind: "f", F: views[o.V].GetPreviousQPS(ev)})
		case "vmin":
			res = append(res, resT{Kind: "f", F: views[o.V].MinRT()})
		case "vmaxc":
			res = append(res, resT{Kind: "z", Z: int64(views[o.V].MaxConcurrency())})
		case "vmaxs":
			res = append(res, resT{Kind: "z", Z: views[o.V].GetMaxOfSingleBucket(ev)})
		case "vavg":
			res = append(res, resT{Kind: "f", F: views[o.V].AvgRT()})
		case "sec":
			lo, hi := o.Lo, o.Hi
			items := views[0].SecondMetricsOnCondition(func(ws uint64) bool { return ws >= lo && ws <= hi })
			res = append(res, resT{Kind: "items", Items: itemsRows(items)})
		}
	}
	slots = arr.VerifSlots()
	return
}

// ---- the monitor: the reference computed directly from the list of recorded events ----

type evRec struct {
	t    uint64
	ev   int
	c    int64
	conc bool
}

func winSum(h []evRec, ev int, lo, hi int64) int64 {
	var s int64
	for _, e := range h {
		if !e.conc && e.ev == ev && int64(e.t) >= lo && int64(e.t) < hi {
			s += e.c
		}
	}
	return s
}
func winMinRt(h []evRec, lo, hi int64) int64 {
	m := int64(60000)
	for _, e := range h {
		if !e.conc && e.ev == 4 && int64(e.t) >= lo && int64(e.t) < hi && e.c < m {
			m = e.c
		}
	}
	return m
}
func winMaxConc(h []evRec, lo, hi int64) int64 {
	m := int64(0)
	for _, e := range h {
		if e.conc && int64(e.t) >= lo && int64(e.t) < hi && e.c > m {
			m = e.c
		}
	}
	return m
}

func monitorArr(c arrCase, vok []bool, res []resT, rep *emit.Report) (crossings int) {
	bl := int64(c.Itv / c.N)
	itv := int64(c.Itv)
	fail := func(clause, sig, detail string) {
		rep.Fail(c.ID, clause, sig, detail, c)
	}
	// a view is constructible only when it tiles
	for i, v := range c.Views {
		vn, vitv := int64(v[0]), int64(v[1])
		tiles := vn > 0 && vitv > 0 && vitv%vn == 0 && itv%vitv == 0 && (vitv/vn)%bl == 0
		if vok[i] != tiles {
			fail("C08_view_tiles", "view-constructible-iff-tiles", fmt.Sprintf("view %v over (%d,%d): constructed=%v tiles=%v", v, c.N, c.Itv, vok[i], tiles))
			return
		}
	}
	var h []evRec
	lastBucket := int64(-1)
	for i, o := range c.Ops {
		now := int64(o.T)
		bsn := now - now%bl
		if lastBucket >= 0 && bsn != lastBucket {
			crossings++
		}
		lastBucket = bsn
		hi := bsn + bl
		var vitv, vbl int64
		if o.V < len(c.Views) {
			vitv = int64(c.Views[o.V][1])
			if c.Views[o.V][0] > 0 {
				vbl = vitv / int64(c.Views[o.V][0])
			}
		}
		chkZ := func(clause string, want int64) {
			if res[i].Z != want {
				sig := "read-differs-from-reference"
				if res[i].Z > want {
					sig = "stale-or-invented-data-counted"
				} else {
					sig = "recorded-data-lost"
				}
				fail(clause, sig, fmt.Sprintf("op %d %+v: got %d, reference %d", i, o, res[i].Z, want))
			}
		}
		chkF := func(clause string, want float64) {
			if math.Float64bits(res[i].F) != math.Float64bits(want) && !(math.IsNaN(res[i].F) && math.IsNaN(want)) {
				fail(clause, "read-differs-from-reference", fmt.Sprintf("op %d %+v: got %v, reference %v", i, o, res[i].F, want))
			}
		}
		switch o.K {
		case "add":
			h = append(h, evRec{t: o.T, ev: o.Ev, c: o.C})
		case "conc":
			h = append(h, evRec{t: o.T, c: o.C, conc: true})
		case "count":
			chkZ("C08_array_read", winSum(h, o.Ev, hi-itv, hi))
		case "arrmin":
			chkZ("C08_array_read", winMinRt(h, hi-itv, hi))
		case "arrmax":
			chkZ("C08_array_read", winMaxConc(h, hi-itv, hi))
		case "vsum":
			chkZ("C08_view_read", winSum(h, o.Ev, hi-vitv, hi))
		case "vqps":
			chkF("C08_view_read", float64(winSum(h, o.Ev, hi-vitv, hi))/(float64(vitv)/1000.0))
		case "vprev":
			// previous-window reads are in the property's domain only for views shorter than the
			// array by at least one view bucket
			if itv-vitv >= vbl && now-vbl > 0 {
				p := now - vbl
				phi := p - p%bl + bl
				chkF("C08_previous", float64(winSum(h, o.Ev, phi-vitv, phi))/(float64(vitv)/1000.0))
			}
		case "vmin":
			m := winMinRt(h, hi-vitv, hi)
			if m < 1 {
				m = 1
			}
			chkF("C08_view_read", float64(m))
		case "vmaxc":
			chkZ("C08_view_read", winMaxConc(h, hi-vitv, hi))
		case "vmaxs":
			var m int64
			for b := hi - vitv; b < hi; b += bl {
				if s := winSum(h, o.Ev, b, b+bl); s > m {
					m = s
				}
			}
			chkZ("C08_view_read", m)
		case "vavg":
			chkF("C08_view_read", float64(winSum(h, 4, hi-vitv, hi))/float64(winSum(h, 2, hi-vitv, hi)))
		case "sec":
			// every returned item: inside the window and equal to the reference sums of its second;
			// every second of the window with recorded events satisfying the predicate is returned
			got := map[int64][]int64{}
			for _, row := range res[i].Items {
				got[row[0]] = row
			}
			want := map[int64][]int64{}
			for b := hi - itv; b < hi; b += bl {
				if b < 0 || uint64(b) < o.Lo || uint64(b) > o.Hi {
					continue
				}
				sec := b - b%1000
				w := want[sec]
				if w == nil {
					w = make([]int64, 8)
					want[sec] = w
				}
				w[1] += winSum(h, 0, b, b+bl)
				w[2] += winSum(h, 1, b, b+bl)
				w[3] += winSum(h, 2, b, b+bl)
				w[4] += winSum(h, 3, b, b+bl)
				w[5] += winSum(h, 4, b, b+bl)
				if m := winMaxConc(h, b, b+bl); m > w[6] {
					w[6] = m
				}
			}
			for sec, row := range got {
				w := want[sec]
				if w == nil {
					fail("C08_nothing_stale", "stale-or-invented-data-counted", fmt.Sprintf("op %d %+v: item for second %d outside the window/predicate: %v", i, o, sec, row))
					continue
				}
				avg := w[5]
				if w[3] > 0 {
					avg = w[5] / w[3]
				}
				if row[1] != w[1] || row[2] != w[2] || row[3] != w[3] || row[4] != w[4] || row[5] != avg || row[6] != w[6] {
					sig := "read-differs-from-reference"
					if row[1] > w[1] || row[2] > w[2] || row[3] > w[3] {
						sig = "stale-or-invented-data-counted"
					}
					fail("C08_second_items", sig, fmt.Sprintf("op %d %+v: second %d got %v reference %v (avg %d)", i, o, sec, row, w, avg))
				}
			}
			for sec, w := range want {
				if _, ok := got[sec]; !ok && (w[1]|w[2]|w[3]|w[4]|w[5]|w[6]) != 0 {
					fail("C08_nothing_lost", "recorded-data-lost", fmt.Sprintf("op %d %+v: second %d has recorded events %v but no item", i, o, sec, w))
				}
			}
		}
	}
	return
}

func coqRes(rs []resT) string {
	var out []string
	for _, r := range rs {
		switch r.Kind {
		case "none":
			out = append(out, "RNone")
		case "z":
			out = append(out, "RZ "+emit.Z(r.Z))
		case "f":
			out = append(out, "RF "+emit.F(r.F))
		case "list":
			out = append(out, "RList "+emit.ListZ(r.List))
		case "items":
			var rows []string
			for _, row := range r.Items {
				rows = append(rows, emit.ListZ(row))
			}
			out = append(out, "RItems "+emit.List(rows))
		}
	}
	return emit.List(out)
}

func coqArr(c arrCase, vok []bool, res []resT, slots [][]int64) string {
	var vs, vb, ops, sl []string
	for i, v := range c.Views {
		vs = append(vs, emit.Tuple(emit.Z(int64(v[0])), emit.Z(int64(v[1]))))
		vb = append(vb, emit.B(vok[i]))
	}
	for _, o := range c.Ops {
		t := emit.U(o.T)
		switch o.K {
		case "add":
			ops = append(ops, fmt.Sprintf("OAdd %s %d %s", t, o.Ev, emit.Z(o.C)))
		case "conc":
			ops = append(ops, fmt.Sprintf("OConc %s %s", t, emit.Z(o.C)))
		case "count":
			ops = append(ops, fmt.Sprintf("OCount %s %d", t, o.Ev))
		case "arrmin":
			ops = append(ops, "OArrMin "+t)
		case "arrmax":
			ops = append(ops, "OArrMax "+t)
		case "vals":
			ops = append(ops, "OVals "+t)
		case "vsum":
			ops = append(ops, fmt.Sprintf("OVSum %d %s %d", o.V, t, o.Ev))
		case "vqps":
			ops = append(ops, fmt.Sprintf("OVQps %d %s %d", o.V, t, o.Ev))
		case "vprev":
			ops = append(ops, fmt.Sprintf("OVPrev %d %s %d", o.V, t, o.Ev))
		case "vmin":
			ops = append(ops, fmt.Sprintf("OVMin %d %s", o.V, t))
		case "vmaxc":
			ops = append(ops, fmt.Sprintf("OVMaxC %d %s", o.V, t))
		case "vmaxs":
			ops = append(ops, fmt.Sprintf("OVMaxS %d %s %d", o.V, t, o.Ev))
		case "vavg":
			ops = append(ops, fmt.Sprintf("OVAvg %d %s", o.V, t))
		case "sec":
			ops = append(ops, fmt.Sprintf("OSec %s %s %s", t, emit.U(o.Lo), emit.U(o.Hi)))
		}
	}
	for _, row := range slots {
		sl = append(sl, emit.ListZ(row))
	}
	return fmt.Sprintf("Arr %d %d %d %s %s %s %s %s %s", c.ID, c.N, c.Itv, emit.U(c.T0), emit.List(vs), emit.List(vb), emit.List(ops), coqRes(res), emit.List(sl))
}

// ---- BaseStatNode (global geometry from the config) ----

type nodeCase struct {
	ID  int    `json:"id"`
	T0  uint64 `json:"t0"`
	Ops []opT  `json:"ops"`
	// views requested from the node with GenerateReadStat(sampleCount, interval): ops gvok / gvsum /
	// gvprev refer to them by index (monitor only; the Coq node has its one default view)
	GViews [][2]int `json:"generated_views,omitempty"`
}

// gviewAlphabet: (sampleCount, interval) pairs asked of a node - among them the default INTERVAL with
// other sample counts (valid and not), and the default pair itself
var gviewAlphabet = [][2]int{{1, 1000}, {2, 1000}, {4, 1000}, {3, 1000}, {1, 500}, {1, 2000}, {2, 2000}, {4, 2000}, {5, 5000}, {10, 5000},
	{20, 10000}, {10, 10000}, {1, 10000}, {3, 10000}, {2, 3000}, {0, 1000}, {2, 0}, {1, 20000}}

func genNode(r *rng.R, id int) nodeCase {
	c := nodeCase{ID: id}
	c.T0 = 1700000000000 + uint64(r.Range(0, 30000))
	t := c.T0
	n := 15 + r.Intn(50)
	for k := 2 + r.Intn(3); k > 0; k-- {
		c.GViews = append(c.GViews, gviewAlphabet[r.Intn(len(gviewAlphabet))])
	}
	for i := 0; i < n; i++ {
		switch x := r.Intn(20); {
		case x < 7:
		case x < 12:
			t += uint64(r.Range(1, 499))
		case x < 15:
			t = t - t%500 + 500
		case x < 17:
			t = t - t%1000 + 1000
		case x < 18:
			t += 10000
		case x < 19:
			t += uint64(r.Range(10000, 40000))
		default:
			t = t - t%500 + 499
		}
		o := opT{T: t}
		switch x := r.Intn(26); {
		case x >= 25:
			o.K, o.V = "gvok", r.Intn(len(c.GViews))
		case x >= 24:
			o.K, o.V, o.Ev = "gvsum", r.Intn(len(c.GViews)), r.Intn(5)
		case x >= 22:
			o.K, o.V, o.Ev = "gvprev", r.Intn(len(c.GViews)), r.Intn(5)
		case x < 7:
			o.K, o.Ev, o.C = "add", r.Intn(5), r.PickI(1, 1, 2, 3, 7, 50)
		case x < 9:
			o.K = "inc"
		case x < 10:
			o.K = "dec"
		case x < 12:
			o.K, o.Ev = "sum", r.Intn(5)
		case x < 13:
			o.K, o.Ev = "qps", r.Intn(5)
		case x < 15:
			o.K, o.Ev = "prev", r.Intn(5)
		case x < 16:
			o.K = "avg"
		case x < 17:
			o.K = "min"
		case x < 18:
			o.K = "maxc"
		case x < 19:
			o.K, o.Ev = "maxavg", r.Intn(5)
		case x < 20:
			o.K = "cur"
		case x < 22:
			o.K = "items"
			if r.Bool() {
				o.Lo, o.Hi = 0, math.MaxInt64
			} else {
				o.Lo = t - t%1000 - uint64(r.Range(0, 12))*1000
				o.Hi = o.Lo + uint64(r.Range(0, 3000))
			}
		}
		c.Ops = append(c.Ops, o)
	}
	return c
}

func runNode(c nodeCase, clk *vclock.Clock) (res []resT) {
	clk.SetMs(c.T0)
	n := stat.NewResourceNode("c08-"+strconv.Itoa(c.ID), base.ResTypeCommon)
	gv := make([]base.ReadStat, len(c.GViews))
	for i, v := range c.GViews {
		if m, err := n.GenerateReadStat(uint32(v[0]), uint32(v[1])); err == nil && m != nil {
			gv[i] = m
		}
	}
	for _, o := range c.Ops {
		clk.SetMs(o.T)
		ev := base.MetricEvent(o.Ev)
		switch o.K {
		case "add":
			n.AddCount(ev, o.C)
			res = append(res, resT{Kind: "none"})
		case "inc":
			n.IncreaseConcurrency()
			res = append(res, resT{Kind: "none"})
		case "dec":
			n.DecreaseConcurrency()
			res = append(res, resT{Kind: "none"})
		case "sum":
			res = append(res, resT{Kind: "z", Z: n.GetSum(ev)})
		case "qps":
			res = append(res, resT{Kind: "f", F: n.GetQPS(ev)})
		case "prev":
			res = append(res, resT{Kind: "f", F: n.GetPreviousQPS(ev)})
		case "avg":
			res = append(res, resT{Kind: "f", F: n.AvgRT()})
		case "min":
			res = append(res, resT{Kind: "f", F: n.MinRT()})
		case "maxc":
			res = append(res, resT{Kind: "z", Z: int64(n.MaxConcurrency())})
		case "maxavg":
			res = append(res, resT{Kind: "f", F: n.GetMaxAvg(ev)})
		case "cur":
			res = append(res, resT{Kind: "z", Z: int64(n.CurrentConcurrency())})
		case "gvok":
			z := int64(0)
			if gv[o.V] != nil {
				z = 1
			}
			res = append(res, resT{Kind: "z", Z: z})
		case "gvsum":
			if gv[o.V] == nil {
				res = append(res, resT{Kind: "none"})
			} else {
				res = append(res, resT{Kind: "z", Z: gv[o.V].GetSum(ev)})
			}
		case "gvprev":
			if gv[o.V] == nil {
				res = append(res, resT{Kind: "none"})
			} else {
				res = append(res, resT{Kind: "f", F: gv[o.V].GetPreviousQPS(ev)})
			}
		case "items":
			lo, hi := o.Lo, o.Hi
			items := n.MetricsOnCondition(func(ws uint64) bool { return ws >= lo && ws <= hi })
			res = append(res, resT{Kind: "items", Items: itemsRows(items)})
		}
	}
	return
}

func monitorNode(c nodeCase, res []resT, gn, gitv, vn, vitv int64, rep *emit.Report) {
	bl := gitv / gn
	var h []evRec
	conc := int64(0)
	for i, o := range c.Ops {
		now := int64(o.T)
		hi := now - now%bl + bl
		fail := func(clause, sig, detail string) { rep.Fail(c.ID, clause, sig, detail, c) }
		chkZ := func(want int64) {
			if res[i].Z != want {
				sig := "recorded-data-lost"
				if res[i].Z > want {
					sig = "stale-or-invented-data-counted"
				}
				fail("C08_node_read", sig, fmt.Sprintf("op %d %+v: got %d, reference %d", i, o, res[i].Z, want))
			}
		}
		chkF := func(want float64) {
			if math.Float64bits(res[i].F) != math.Float64bits(want) {
				fail("C08_node_read", "read-differs-from-reference", fmt.Sprintf("op %d %+v: got %v, reference %v", i, o, res[i].F, want))
			}
		}
		switch o.K {
		case "add":
			h = append(h, evRec{t: o.T, ev: o.Ev, c: o.C})
		case "inc":
			conc++
			h = append(h, evRec{t: o.T, c: conc, conc: true})
		case "dec":
			conc--
		case "sum":
			chkZ(winSum(h, o.Ev, hi-vitv, hi))
		case "qps":
			chkF(float64(winSum(h, o.Ev, hi-vitv, hi)) / (float64(vitv) / 1000.0))
		case "prev":
			p := now - vitv/vn
			phi := p - p%bl + bl
			chkF(float64(winSum(h, o.Ev, phi-vitv, phi)) / (float64(vitv) / 1000.0))
		case "avg":
			cm := winSum(h, 2, hi-vitv, hi)
			if cm <= 0 {
				chkF(0)
			} else {
				chkF(float64(winSum(h, 4, hi-vitv, hi) / cm))
			}
		case "min":
			m := winMinRt(h, hi-vitv, hi)
			if m < 1 {
				m = 1
			}
			chkF(float64(m))
		case "maxc":
			chkZ(winMaxConc(h, hi-vitv, hi))
		case "maxavg":
			var m int64
			for b := hi - vitv; b < hi; b += bl {
				if s := winSum(h, o.Ev, b, b+bl); s > m {
					m = s
				}
			}
			chkF(float64(m) * float64(vn) / float64(vitv) * 1000.0)
		case "cur":
			chkZ(conc)
		case "gvok", "gvsum", "gvprev":
			// a requested view exists iff it tiles the node's array (own statement of the reuse rule)
			v := c.GViews[o.V]
			sc, it := int64(v[0]), int64(v[1])
			valid := sc > 0 && it > 0 && it%sc == 0 && gitv%it == 0 && (it/sc)%bl == 0
			switch {
			case o.K == "gvok":
				want := int64(0)
				if valid {
					want = 1
				}
				if res[i].Z != want {
					fail("C08_view_tiles", "view-validity-verdict-differs", fmt.Sprintf("op %d: GenerateReadStat(%d, %d) on a %dx%d ms array: constructible=%d, tiles=%v", i, sc, it, gn, bl, res[i].Z, valid))
				}
			case !valid:
				if res[i].Kind != "none" {
					fail("C08_view_tiles", "view-validity-verdict-differs", fmt.Sprintf("op %d: a view (%d, %d) that does not tile was constructed and read", i, sc, it))
				}
			case res[i].Kind == "none":
				fail("C08_view_tiles", "view-validity-verdict-differs", fmt.Sprintf("op %d: the tiling view (%d, %d) was refused", i, sc, it))
			case o.K == "gvsum":
				chkZ(winSum(h, o.Ev, hi-it, hi))
			case it+it/sc <= gitv: // previous-window reads: views shorter than the array by one view bucket
				p := now - it/sc
				phi := p - p%bl + bl
				chkF(float64(winSum(h, o.Ev, phi-it, phi)) / (float64(it) / 1000.0))
			}
		case "items":
			got := map[int64][]int64{}
			for _, row := range res[i].Items {
				got[row[0]] = row
			}
			for b := hi - gitv; b < hi; b += bl {
				if b < 0 || uint64(b) < o.Lo || uint64(b) > o.Hi {
					continue
				}
			}
			for sec, row := range got {
				// reference for that second
				var w [7]int64
				inWin := false
				for b := hi - gitv; b < hi; b += bl {
					if b < 0 || uint64(b) < o.Lo || uint64(b) > o.Hi || b-b%1000 != sec {
						continue
					}
					inWin = true
					for e := 0; e < 5; e++ {
						w[1+e] += winSum(h, e, b, b+bl)
					}
					if m := winMaxConc(h, b, b+bl); m > w[6] {
						w[6] = m
					}
				}
				if !inWin {
					fail("C08_nothing_stale", "stale-or-invented-data-counted", fmt.Sprintf("op %d %+v: item for second %d outside the window/predicate: %v", i, o, sec, row))
					continue
				}
				avg := w[5]
				if w[3] > 0 {
					avg = w[5] / w[3]
				}
				if row[1] != w[1] || row[2] != w[2] || row[3] != w[3] || row[4] != w[4] || row[5] != avg || row[6] != w[6] {
					sig := "read-differs-from-reference"
					if row[1] > w[1] || row[2] > w[2] || row[3] > w[3] {
						sig = "stale-or-invented-data-counted"
					}
					fail("C08_second_items", sig, fmt.Sprintf("op %d %+v: second %d got %v reference %v", i, o, sec, row, w))
				}
			}
			for b := hi - gitv; b < hi; b += bl {
				if b < 0 || uint64(b) < o.Lo || uint64(b) > o.Hi {
					continue
				}
				any := int64(0)
				for e := 0; e < 5; e++ {
					any |= winSum(h, e, b, b+bl)
				}
				if _, ok := got[b-b%1000]; !ok && any != 0 {
					fail("C08_nothing_lost", "recorded-data-lost", fmt.Sprintf("op %d %+v: bucket %d has recorded events but its second has no item", i, o, b))
				}
			}
		}
	}
}

func coqNode(c nodeCase, resAll []resT, gn, gitv, vn, vitv int64) string {
	var ops []string
	var res []resT
	for i, o := range c.Ops {
		if strings.HasPrefix(o.K, "gv") {
			continue // generated views: monitor only
		}
		res = append(res, resAll[i])
		t := emit.U(o.T)
		switch o.K {
		case "add":
			ops = append(ops, fmt.Sprintf("NAdd %s %d %s", t, o.Ev, emit.Z(o.C)))
		case "inc":
			ops = append(ops, "NInc "+t)
		case "dec":
			ops = append(ops, "NDec")
		case "sum":
			ops = append(ops, fmt.Sprintf("NSum %s %d", t, o.Ev))
		case "qps":
			ops = append(ops, fmt.Sprintf("NQps %s %d", t, o.Ev))
		case "prev":
			ops = append(ops, fmt.Sprintf("NPrev %s %d", t, o.Ev))
		case "avg":
			ops = append(ops, "NAvg "+t)
		case "min":
			ops = append(ops, "NMin "+t)
		case "maxc":
			ops = append(ops, "NMaxC "+t)
		case "maxavg":
			ops = append(ops, fmt.Sprintf("NMaxAvg %s %d", t, o.Ev))
		case "cur":
			ops = append(ops, "NCur")
		case "items":
			ops = append(ops, fmt.Sprintf("NItems %s %s %s", t, emit.U(o.Lo), emit.U(o.Hi)))
		}
	}
	return fmt.Sprintf("Node %d %d %d %d %d %s %s %s", c.ID, gn, gitv, vn, vitv, emit.U(c.T0), emit.List(ops), coqRes(res))
}

const nodeBase = 100000

func main() {
	a := cli.Parse()
	env.Init(env.Options{})
	clk := vclock.New(1700000000000)
	clk.Install()
	root := rng.New(a.Seed)
	rep := emit.NewReport("C08", a.Seed, a.Tier)
	rep.Rule = "array cases: geometry from a table of 14 (sampleCount, interval) pairs, creation time near zero / aligned / end of cycle / arbitrary, 2-4 views (valid tilings + one arbitrary candidate that must be accepted iff it tiles), 10-59 timed ops (AddCount of 5 event kinds, UpdateConcurrency, Count/MinRt/MaxConcurrency/Values of the array, GetSum/GetQPS/GetPreviousQPS/MinRT/MaxConcurrency/GetMaxOfSingleBucket/AvgRT of a view, SecondMetricsOnCondition) with time steps: same ms, inside bucket, exactly on bucket / cycle boundary, last ms of a bucket, exactly one interval, idle gaps longer than the array; node cases: BaseStatNode with the configured global geometry, plus 2-4 views requested with GenerateReadStat from an alphabet of 18 (sampleCount, interval) pairs (the default interval with other sample counts, non-tiling and zero parameters included): validity verdict, sum and previous-window QPS against the reference (monitor only). Non-trivial = the history crosses at least one bucket boundary between a write and a later read; distinct by full input."
	nArr := a.Pick(a.N, 260, 4000)
	nNode := a.Pick(a.N, 90, 1500)
	nArrMon := a.Pick(a.Mon, 6000, 120000)
	nNodeMon := a.Pick(a.Mon, 1500, 30000)
	if a.Search {
		nArr, nNode = 0, 0
		nArrMon *= 5
		nNodeMon *= 5
	}
	gn, gitv := int64(config.GlobalStatisticSampleCountTotal()), int64(config.GlobalStatisticIntervalMsTotal())
	vn, vitv := int64(config.MetricStatisticSampleCount()), int64(config.MetricStatisticIntervalMs())
	var sh *emit.Shards
	if a.Only < 0 && !a.Search {
		var err error
		sh, err = emit.NewShards(a.Out, "Corr.Run_C08", a.Shards, "Open Scope Z_scope.")
		if err != nil {
			panic(err)
		}
	}
	dist := emit.NewDistinct()
	oneArr := func(id int, corr bool) {
		c := genArr(root.Fork(uint64(id)), id)
		vok, res, slots := runArr(c, clk)
		rep.Evaluations++
		cross := monitorArr(c, vok, res, rep)
		writes, reads := 0, 0
		for _, o := range c.Ops {
			rep.Count("op_"+o.K, 1)
			if o.K == "add" || o.K == "conc" {
				writes++
			} else {
				reads++
			}
		}
		rep.Count("bucket_crossings", cross)
		if c.T0 < uint64(c.Itv) {
			rep.Count("cases_near_zero", 1)
		}
		if cross > 0 && writes > 0 && reads > 0 {
			b, _ := json.Marshal(c)
			dist.Add(string(b))
		}
		if corr && sh != nil {
			sh.Add(id, coqArr(c, vok, res, slots))
			rep.CorrCases++
			rep.CaseInputs[strconv.Itoa(id)] = c
			if id < 2 {
				rep.Sample(map[string]interface{}{"input": c, "view_ok": vok, "observed": fmt.Sprintf("%v", res)})
			}
		}
		if a.Only >= 0 {
			fmt.Println(strings.ReplaceAll(coqArr(c, vok, res, slots), "; ", ";\n  "))
		}
	}
	oneNode := func(id int, corr bool) {
		c := genNode(root.Fork(uint64(id)), id)
		res := runNode(c, clk)
		rep.Evaluations++
		monitorNode(c, res, gn, gitv, vn, vitv, rep)
		for _, o := range c.Ops {
			rep.Count("nop_"+o.K, 1)
		}
		b, _ := json.Marshal(c)
		dist.Add(string(b))
		if corr && sh != nil {
			sh.Add(id, coqNode(c, res, gn, gitv, vn, vitv))
			rep.CorrCases++
			rep.CaseInputs[strconv.Itoa(id)] = c
			if id == nodeBase {
				rep.Sample(map[string]interface{}{"input": c, "observed": fmt.Sprintf("%v", res)})
			}
		}
		if a.Only >= 0 {
			fmt.Println(strings.ReplaceAll(coqNode(c, res, gn, gitv, vn, vitv), "; ", ";\n  "))
		}
	}
	if a.Only >= 0 {
		if a.Only >= nodeBase {
			oneNode(a.Only, false)
		} else {
			oneArr(a.Only, false)
		}
		for _, f := range rep.MonitorFailures {
			fmt.Printf("MONITOR-FAIL clause=%s signature=%s %s\n", f.Clause, f.Signature, f.Detail)
		}
		return
	}
	for id := 0; id < nArrMon; id++ {
		oneArr(id, id < nArr)
	}
	for j := 0; j < nNodeMon; j++ {
		oneNode(nodeBase+j, j < nNode)
	}
	rep.DistinctNontrivial = dist.N()
	rep.Consts["global_geometry"] = []int64{gn, gitv}
	rep.Consts["metric_view"] = []int64{vn, vitv}
	rep.Consts["DefaultStatisticMaxRt"] = base.DefaultStatisticMaxRt
	rep.Consts["MetricEventTotal"] = int(base.MetricEventTotal)
	if base.DefaultStatisticMaxRt != 60000 || base.MetricEventPass != 0 || base.MetricEventBlock != 1 || base.MetricEventComplete != 2 || base.MetricEventError != 3 || base.MetricEventRt != 4 {
		rep.Fail(-1, "C08_constants", "model-constant-differs", "DefaultStatisticMaxRt / MetricEvent numbering differ from the model", nil)
	}
	if sh != nil {
		rep.Shards = sh.Close()
	}
	if err := rep.Write(a.Out); err != nil {
		fmt.Fprintln(os.Stderr, err)
		os.Exit(2)
	}
}
