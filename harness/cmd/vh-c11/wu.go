//go:build verif

package main

import (
	"encoding/json"
	"fmt"
	"math"
	"math/big"
	"strconv"

	sentinel "github.com/alibaba/sentinel-golang/api"
	"github.com/alibaba/sentinel-golang/core/flow"

	"vh/internal/cli"
	"vh/internal/emit"
	"vh/internal/rng"
	"vh/internal/vclock"
)

type wreq struct {
	Ms uint64 `json:"ms"`
	B  uint32 `json:"batch"`
}

type wuCase struct {
	ID     int    `json:"id"`
	Name   string `json:"name,omitempty"`
	T      fl     `json:"threshold"`
	Period uint32 `json:"warm_up_period_sec"`
	CF     uint32 `json:"warm_up_cold_factor"`
	// Throttling: the rule's ControlBehavior is Throttling (pacing at the warm-up rate) instead of Reject
	Throttling bool   `json:"control_behavior_throttling,omitempty"`
	MaxQMs     uint32 `json:"max_queueing_ms,omitempty"`
	Ops        []wreq `json:"ops"`
}

type wuObs struct {
	Warning uint64   `json:"warning_token"`
	Max     uint64   `json:"max_token"`
	Slope   fl       `json:"slope"`
	CF      uint32   `json:"cold_factor_in_force"`
	Allowed []fl     `json:"-"`
	Adm     []bool   `json:"-"`
	Stored  []int64  `json:"-"`
	Wait    []int64  `json:"-"` // ns the flow slot asked to sleep (throttling rules)
	Trace   []string `json:"trace,omitempty"`
	// NaNRejected: the case's threshold is NaN and LoadRules did not put the rule in force (nothing else is observed)
	NaNRejected bool `json:"nan_threshold_rejected,omitempty"`
}

// ---- generator --------------------------------------------------------------------------

// phase helpers: append requests to ops
func steady(ops []wreq, start uint64, seconds, perSec int, b uint32) []wreq {
	for s := 0; s < seconds; s++ {
		for j := 0; j < perSec; j++ {
			ops = append(ops, wreq{Ms: start + uint64(s)*1000 + uint64(j)*uint64(1000/perSec), B: b})
		}
	}
	return ops
}

func witness(id int) (wuCase, bool) {
	t := caseBase(id)
	switch id - wuBase {
	case 0: // D9 (NaN repaired): empty token range, threshold < 1; what remains is that the rule has no cold phase
		c := wuCase{ID: id, Name: "D9-threshold-0.5-period-1-cold-3", T: 0.5, Period: 1, CF: 3}
		for i := 0; i < 100; i++ {
			c.Ops = append(c.Ops, wreq{Ms: t + 100, B: 1})
		}
		return c, true
	case 1: // D9 with a plausible rule: threshold 1, period 1, cold factor 2
		c := wuCase{ID: id, Name: "D9-threshold-1-period-1-cold-2", T: 1, Period: 1, CF: 2}
		for i := 0; i < 40; i++ {
			c.Ops = append(c.Ops, wreq{Ms: t + 100, B: 1})
		}
		c.Ops = steady(c.Ops, t+1000, 4, 3, 1)
		return c, true
	case 2: // D10: threshold 2 < cold factor 3
		c := wuCase{ID: id, Name: "D10-threshold-2-cold-3", T: 2, Period: 10, CF: 3}
		c.Ops = steady(c.Ops, t+10, 90, 1, 1)
		return c, true
	case 3: // D10 at threshold = cold factor: cold allowed = 1 - ulp
		c := wuCase{ID: id, Name: "D10-threshold-5-period-121-cold-5", T: 5, Period: 121, CF: 5}
		c.Ops = steady(c.Ops, t+10, 40, 2, 1)
		return c, true
	case 4: // stored tokens land exactly on the warning line, then the resource is idle for 10 minutes
		c := wuCase{ID: id, Name: "stuck-at-warning-line", T: 5, Period: 1, CF: 3}
		c.Ops = steady(c.Ops, t+10, 3, 1, 1)
		for i := 0; i < 6; i++ {
			c.Ops = append(c.Ops, wreq{Ms: t + 10 + 602000, B: 1})
		}
		return c, true
	case 6: // a NaN threshold no longer passes flow.IsValidRule (/repo 1e1f6ae): the rule must not be in force
		c := wuCase{ID: id, Name: "NaN-threshold-rejected", T: fl(math.NaN()), Period: 10, CF: 3}
		for i := 0; i < 30; i++ {
			c.Ops = append(c.Ops, wreq{Ms: t + 100, B: 1})
		}
		return c, true
	case 9: // +Inf still passes flow.IsValidRule: the effective threshold is MaxFloat64 (finite), a configured "unlimited"
		c := wuCase{ID: id, Name: "Inf-threshold-unlimited", T: fl(math.Inf(1)), Period: 10, CF: 3}
		for i := 0; i < 30; i++ {
			c.Ops = append(c.Ops, wreq{Ms: t + 100, B: 1})
		}
		return c, true
	case 10, 11: // warm resource, then idle for 2^32 ms + 1.5 s (49.7 days; the second-aligned difference is 2^32+704 ms) / 3*2^31 ms + 1.2 s: must be cold again
		gap := uint64(1)<<32 + 1500
		name := "idle-2^32ms-after-warm"
		if id-wuBase == 11 {
			gap, name = 3*(uint64(1)<<31)+1200, "idle-3*2^31ms-after-warm"
		}
		c := wuCase{ID: id, Name: name, T: 12, Period: 3, CF: 3}
		c.Ops = steady(c.Ops, t+10, 12, 14, 1)
		c.Ops = steady(c.Ops, t+10+11000+gap, 2, 14, 1)
		return c, true
	case 7: // threshold 0 with a warm-up rule must block everything (was NaN: everything admitted)
		c := wuCase{ID: id, Name: "threshold-0", T: 0, Period: 5, CF: 3}
		c.Ops = steady(c.Ops, t+10, 5, 4, 1)
		return c, true
	case 8: // warningToken = 0 < maxToken (period*T/(cf-1) < 1 <= 2*period*T/(cf+1)), threshold far below cold factor
		c := wuCase{ID: id, Name: "warning-token-zero", T: 3, Period: 1, CF: 5}
		c.Ops = steady(c.Ops, t+10, 25, 1, 1)
		return c, true
	case 14, 15, 16: // empty token range (maxToken == warningToken) with threshold >= 1 under a steady single-token demand:
		// the rule in force is the plain threshold, the demand must be admitted (these are NOT the recorded starvation
		// findings: F1 needs a non-empty range, F2 threshold == cold factor)
		cfg := [][3]float64{{2, 1, 5}, {1, 1, 2}, {3, 1, 10}}[id-wuBase-14]
		c := wuCase{ID: id, Name: "empty-token-range-steady-demand", T: fl(cfg[0]), Period: uint32(cfg[1]), CF: uint32(cfg[2])}
		c.Ops = steady(c.Ops, t+10, 30, 1, 1)
		return c, true
	case 17: // finding F6: Throttling rule, threshold 10, cold factor 2 (cold rate 5/s), 12 evenly spaced requests per second:
		// the pacing interval of 180-200 ms admits every third request (4 per second < 5), the bucket is refilled every second
		c := wuCase{ID: id, Name: "F6-throttling-grid-below-cold-rate", T: 10, Period: 3, CF: 2, Throttling: true}
		for s := 0; s < 21; s++ {
			for j := 0; j < 12; j++ {
				c.Ops = append(c.Ops, wreq{Ms: t + 10 + uint64(s)*1000 + uint64(j)*83, B: 1})
			}
		}
		return c, true
	case 12: // the same ordinary warm-up carried by a Throttling rule: pacing at the warm-up rate, must warm up as well
		c := wuCase{ID: id, Name: "ordinary-throttling", T: 12, Period: 3, CF: 3, Throttling: true}
		c.Ops = steady(c.Ops, t+10, 20, 14, 1)
		c.Ops = steady(c.Ops, t+10+200000, 3, 14, 1)
		return c, true
	case 5: // ordinary warm-up, threshold 12, period 3, saturating demand then idle then again
		c := wuCase{ID: id, Name: "ordinary", T: 12, Period: 3, CF: 3}
		c.Ops = steady(c.Ops, t+10, 20, 14, 1)
		c.Ops = steady(c.Ops, t+10+200000, 3, 14, 1)
		return c, true
	}
	return wuCase{}, false
}

func genWu(r *rng.R, id int) wuCase {
	if c, ok := witness(id); ok {
		return c
	}
	c := wuCase{ID: id, Throttling: isThrWu(id)}
	if c.Throttling && id%3 == 0 {
		c.MaxQMs = uint32(20 * (1 + id%7)) // a short queue: some requests are asked to wait
	}
	switch x := r.Intn(20); {
	case x < 10:
		c.T = fl(r.PickF(3, 4, 5, 6, 8, 10, 12, 20, 30, 45, 60))
	case x < 13:
		c.T = fl(r.PickF(1, 1, 2, 2, 1.4, 2.5))
	case x < 15:
		c.T = fl(r.PickF(0.5, 0.3, 0.999, 0))
	case x < 18:
		c.T = fl(float64(r.Range(1, 40)) + r.PickF(0, 0.5, 0.25, 1.0/3.0))
	default:
		c.T = fl(r.PickF(7.3, 100, 33.3))
	}
	c.Period = uint32(r.PickI(1, 1, 2, 2, 3, 3, 5, 10, 57, 121))
	c.CF = uint32(r.PickI(0, 3, 3, 3, 2, 2, 4, 5, 10))
	T := float64(c.T)
	now := caseBase(id) + uint64(r.Range(0, 5000))
	phases := 2 + r.Intn(4)
	usedBig := false
	for p := 0; p < phases && len(c.Ops) < 220; p++ {
		switch r.Intn(7) {
		case 0: // burst at one instant
			n := 2 + r.Intn(int(math.Min(T, 30))+3)
			for i := 0; i < n; i++ {
				c.Ops = append(c.Ops, wreq{Ms: now, B: 1})
			}
			now += uint64(r.Range(1, 1500))
		case 1: // steady single token
			secs := 3 + r.Intn(25)
			c.Ops = steady(c.Ops, now, secs, 1+r.Intn(2), 1)
			now += uint64(secs) * 1000
		case 2, 3: // saturating demand (more than the threshold every second)
			per := int(math.Min(T, 24)) + 2
			secs := 2 + r.Intn(4*int(math.Min(float64(c.Period), 3))+6)
			if per*secs > 200 {
				secs = 200 / per
			}
			c.Ops = steady(c.Ops, now, secs, per, 1)
			now += uint64(secs) * 1000
		case 4: // idle gap
			if isBigWu(id) && !usedBig { // one idle gap around a multiple of 2^31 / 2^32 ms (24.9 / 49.7 days)
				usedBig = true
				now += uint64(r.PickI(1<<32, 1<<32+700, 1<<32+3000, 2<<32+1500, 3<<32, 1<<31, 1<<31+700, 3<<31+1500, 1<<32-800))
			} else {
				now += uint64(r.PickI(1500, 3000, 10000, 60000, 600000, 3600000))
			}
		case 5: // moderate demand below the cold rate
			secs := 2 + r.Intn(8)
			c.Ops = steady(c.Ops, now, secs, 1+r.Intn(3), uint32(r.PickI(1, 1, 2)))
			now += uint64(secs) * 1000
		default: // irregular
			n := 3 + r.Intn(15)
			for i := 0; i < n; i++ {
				now += uint64(r.PickI(0, 1, 10, 100, 250, 499, 500, 501, 999, 1000, 1001, 2500))
				c.Ops = append(c.Ops, wreq{Ms: now, B: uint32(r.PickI(1, 1, 1, 2, 3))})
			}
		}
	}
	if len(c.Ops) == 0 {
		c.Ops = steady(c.Ops, now, 3, 2, 1)
	}
	return c
}

// ---- run on the implementation ----------------------------------------------------------

func runWu(c wuCase, clk *vclock.Clock) wuObs {
	res := "c11w-" + strconv.Itoa(c.ID)
	rule := &flow.Rule{Resource: res, TokenCalculateStrategy: flow.WarmUp, ControlBehavior: flow.Reject,
		Threshold: float64(c.T), WarmUpPeriodSec: c.Period, WarmUpColdFactor: c.CF}
	if c.Throttling {
		rule.ControlBehavior, rule.MaxQueueingTimeMs = flow.Throttling, c.MaxQMs
	}
	if c.ID%2 == 0 && c.ID >= wuBase+wuWitN {
		// fields a warm-up rule does not use (every second generated case): the memory-adaptive parameters and, for a
		// Reject rule, the queueing limit.  The model does not know them: nothing may change.
		rule.LowMemUsageThreshold, rule.HighMemUsageThreshold = 3, 1
		rule.MemLowWaterMarkBytes, rule.MemHighWaterMarkBytes = 1024, 2048
		if !c.Throttling {
			rule.MaxQueueingTimeMs = uint32(c.ID % 977)
		}
	}
	if _, err := flow.LoadRules([]*flow.Rule{rule}); err != nil {
		panic(err)
	}
	if n := len(flow.GetRulesOfResource(res)); n == 0 && math.IsNaN(float64(c.T)) {
		return wuObs{NaNRejected: true}
	} else if n != 1 {
		panic(fmt.Sprintf("case %d: warm-up rule not in force", c.ID))
	}
	st, ok := flow.WarmUpStateForVerif(res, 0)
	if !ok {
		panic("no warm-up calculator")
	}
	o := wuObs{Warning: st.WarningToken, Max: st.MaxToken, Slope: fl(st.Slope), CF: st.ColdFactor}
	for _, q := range c.Ops {
		clk.SetMs(q.Ms)
		clk.TakeSleeps()
		a, _ := flow.AllowedTokensForVerif(res, 0) // what PerformChecking is about to compute (idempotent within a second)
		e, b := sentinel.Entry(res, sentinel.WithBatchCount(q.B))
		if b == nil {
			e.Exit()
		}
		var w int64
		for _, d := range clk.TakeSleeps() { // the clock does not advance on Sleep (AdvanceOnSleep = false)
			w += int64(d)
		}
		o.Wait = append(o.Wait, w)
		st, _ := flow.WarmUpStateForVerif(res, 0)
		o.Allowed = append(o.Allowed, fl(a))
		o.Adm = append(o.Adm, b == nil)
		o.Stored = append(o.Stored, st.StoredTokens)
	}
	return o
}

// ---- monitor ------------------------------------------------------------------------------

const (
	sigD9     = "warmup-empty-token-range-nan-threshold-admits-all" // repaired in /repo; not listed any more
	sigNoCold = "warmup-empty-token-range-no-cold-phase"
	sigNaNThr = "nan-threshold-accepted-by-isvalidrule" // repaired in /repo 1e1f6ae; not listed: a regression is a violation
	sigInfThr = "infinite-threshold-not-finite-allowed" // not listed: +Inf gives MaxFloat64 today
	sigD10    = "warmup-threshold-below-coldfactor-starved"
	sigD10eq  = "warmup-threshold-equals-coldfactor-rounding-starved"
	sigStuck  = "warmup-stuck-at-warning-line-never-cools"
	// C11-F6: a Throttling warm-up rule admits on the grid of its pacing interval; when that grid admits fewer
	// requests per second than the cold rate threshold/coldFactor the calculator takes the resource for idle and
	// refills the bucket every second: it drains only by what is admitted and never gets below the warning line
	sigGrid    = "warmup-throttling-pacing-grid-admits-below-cold-rate-never-warms-up"
	starveSecs = 20
)

func monitorWu(c wuCase, o wuObs, rep *emit.Report) (nontrivial bool) {
	T := float64(c.T)
	cf := int64(c.CF)
	if cf <= 1 {
		cf = 3
	}
	reported := map[string]bool{}
	fail := func(i int, clause, sig, format string, a ...interface{}) {
		if reported[sig] {
			return
		}
		reported[sig] = true
		reportFail(rep, c.ID, clause, sig, fmt.Sprintf("op %d (t=%d): ", i, c.Ops[i].Ms)+fmt.Sprintf(format, a...), c)
	}
	if int64(o.CF) != cf {
		reportFail(rep, c.ID, "C11_wu_constants", "cold-factor-default", fmt.Sprintf("cold factor in force %d, expected %d", o.CF, cf), c)
		return
	}
	if math.IsNaN(T) || math.IsInf(T, 0) {
		// the rule is in force (runWu checks it): IsValidRule accepted a non-finite threshold
		for i := range c.Ops {
			if a := float64(o.Allowed[i]); math.IsNaN(a) || math.IsInf(a, 0) {
				sig := sigNaNThr
				if math.IsInf(T, 0) {
					sig = sigInfThr
				}
				fail(i, "C11_wu_finite_nonneg", sig, "threshold=%v passed flow.IsValidRule; allowed=%v admitted=%v", T, a, o.Adm[i])
				break
			}
		}
		return false
	}
	W, M := int64(o.Warning), int64(o.Max)
	degenerate := M == W
	if T > 0 {
		// the token constants encode the warm-up period: W ~ p*T/(cf-1), M-W ~ 2*p*T/(cf+1), each
		// truncated to an integer
		wx := new(big.Rat).Quo(new(big.Rat).Mul(ratI(int64(c.Period)), rat(T)), ratI(cf-1))
		dx := new(big.Rat).Quo(new(big.Rat).Mul(ratI(2*int64(c.Period)), rat(T)), ratI(cf+1))
		lo := func(x *big.Rat) int64 { f, _ := x.Float64(); return int64(math.Floor(f)) }
		if d := W - lo(wx); d < -1 || d > 1 {
			reportFail(rep, c.ID, "C11_wu_constants", "warning-token-off", fmt.Sprintf("warningToken %d, p*T/(cf-1) = %s", W, wx.FloatString(3)), c)
			return
		}
		if d := (M - W) - lo(dx); d < -1 || d > 1 {
			reportFail(rep, c.ID, "C11_wu_constants", "max-token-off", fmt.Sprintf("maxToken-warningToken %d, 2*p*T/(cf+1) = %s", M-W, dx.FloatString(3)), c)
			return
		}
	}
	tol := math.Nextafter(T*(1+math.Pow(2, -50)), math.Inf(1)) // threshold 0: the Nextafter bump gives the least subnormal
	var passT []uint64                                         // admitted (time, batch) ledger
	var passB []uint32
	windowSum := func(now uint64) int64 { // admitted tokens in the sliding window of the reject checker
		cs := now - now%500
		var s int64
		for k := len(passT) - 1; k >= 0 && passT[k]+2000 > now; k-- {
			if passT[k]+500 >= cs {
				s += int64(passB[k])
			}
		}
		return s
	}
	var lastPassNs int64 // Throttling rules: the latest pass time of the monitor's own ledger
	havePass := false
	idleNeed := uint64(0)
	if T > 0 && !degenerate {
		idleNeed = uint64(math.Ceil(float64(M)/T))*1000 + 3000
	}
	// runs of consecutive seconds
	var starveStart, lastSec uint64
	starveLen := 0              // consecutive seconds with a single-token request and nothing admitted
	satLen := 0                 // consecutive saturated seconds (offered >= T+1 and something rejected)
	satRunStart, curIdx := 0, 0 // first request of the current run of saturated seconds; request being looked at
	lastFull := -1              // latest request whose allowed value was the full threshold
	var secOffered int64
	secRejected, secSingle := false, false
	admittedInRun := false
	closeSecond := func() {
		if secSingle && !admittedInRun {
			starveLen++
		} else {
			starveLen = 0
		}
		if float64(secOffered) >= T+1 && secRejected {
			satLen++
		} else {
			satLen = 0
			satRunStart = curIdx
		}
	}
	distinctAllowed := map[uint64]bool{}
	sawAdm, sawRej := false, false
	for i, q := range c.Ops {
		a := float64(o.Allowed[i])
		sec := q.Ms / 1000
		if i == 0 {
			lastSec, starveStart = sec, sec
		} else if sec != lastSec {
			curIdx = i
			closeSecond()
			if sec != lastSec+1 { // a gap: runs are broken
				starveLen, satLen = 0, 0
				satRunStart = i
			}
			if q.Ms-c.Ops[i-1].Ms > 500 {
				// no request for longer than a statistic bucket: the demand is not sustained (the
				// calculator reads the pass count of the previous 1000 ms at bucket granularity)
				satLen = 0
				satRunStart = i
			}
			if starveLen == 0 {
				starveStart = sec
				admittedInRun = false
			}
			lastSec, secOffered, secRejected, secSingle = sec, 0, false, false
		}
		_ = starveStart
		distinctAllowed[math.Float64bits(a)] = true
		// 1. finite, non-negative
		if math.IsNaN(a) || math.IsInf(a, 0) || a < 0 {
			sig := "warmup-allowed-not-finite-nonneg"
			if degenerate {
				sig = sigD9 // repaired; reported as unlisted if it comes back
			}
			fail(i, "C11_wu_finite_nonneg", sig, "allowed=%v warningToken=%d maxToken=%d slope=%v", a, W, M, float64(o.Slope))
		} else {
			// 2. never above the threshold (up to the Nextafter ulp)
			if a > tol {
				fail(i, "C11_wu_le_threshold", "allowed-above-threshold", "allowed=%v threshold=%v", a, T)
			}
		}
		if c.Throttling {
			// a Throttling rule paces at the allowed rate: consecutive pass times (arrival + requested wait)
			// are at least batch/allowed seconds apart and no wait exceeds the queueing limit
			if o.Adm[i] && !math.IsNaN(a) && a > 0 {
				pass := int64(q.Ms)*1000000 + o.Wait[i]
				need := float64(q.B) / a * 1e9
				if o.Wait[i] < 0 || o.Wait[i] > int64(c.MaxQMs)*1000000 {
					fail(i, "C11_wu_le_threshold", "throttled-wait-exceeds-queue-limit", "asked to wait %d ns, limit %d ms", o.Wait[i], c.MaxQMs)
				}
				if havePass && float64(pass-lastPassNs) < need*(1-1e-9)-1 {
					fail(i, "C11_wu_le_threshold", "throttled-admissions-closer-than-allowed-rate", "pass time %d ns after the previous one, batch %d at allowed %v needs %v ns", pass-lastPassNs, q.B, a, need)
				}
				lastPassNs, havePass = pass, true
			}
		} else if o.Adm[i] && float64(windowSum(q.Ms)+int64(q.B)) > tol {
			sig := "admitted-over-threshold"
			if degenerate && math.IsNaN(a) {
				sig = sigD9
			}
			fail(i, "C11_wu_le_threshold", sig, "admitted with %d tokens already in the window, threshold %v, allowed %v", windowSum(q.Ms), T, a)
		}
		// 3. cold start after idle
		if !degenerate && W > 0 && T > 0 && !math.IsNaN(a) {
			idle := i == 0 || (q.Ms-c.Ops[i-1].Ms >= idleNeed && T >= float64(cf))
			if idle && a > T/float64(cf)*(1+1e-9) {
				sig := "cold-start-above-threshold-over-coldfactor"
				if i > 0 && o.Stored[i-1] == W {
					sig = sigStuck
				}
				fail(i, "C11_wu_cold_start", sig, "idle %d ms, allowed=%v, threshold/coldFactor=%v, stored tokens before=%d warningToken=%d", q.Ms-c.Ops[maxi(i-1, 0)].Ms, a, T/float64(cf), o.Stored[maxi(i-1, 0)], W)
			}
		}
		// 3b. empty token range: the rule in force is a plain threshold, it has no cold phase
		if degenerate && T > 0 && !math.IsNaN(a) {
			idle := i == 0 || q.Ms-c.Ops[i-1].Ms >= 5000
			if idle && a > T/float64(cf)*(1+1e-9) {
				fail(i, "C11_wu_cold_start", sigNoCold, "warningToken=maxToken=%d: allowed=%v after idle, threshold/coldFactor=%v", W, a, T/float64(cf))
			}
		}
		// 4. full threshold after sustained saturating demand
		// (the value on the warning line itself is Nextafter(1/(1/T)), one or two ulps from T)
		if a >= T*(1-math.Pow(2, -50)) {
			lastFull = i
		}
		if !degenerate && T >= float64(2*cf) && satLen >= 4*int(c.Period)+5 {
			if !c.Throttling && a < T*(1-math.Pow(2, -50)) {
				fail(i, "C11_wu_reaches_full", "not-warmed-up-after-sustained-demand", "%d saturated seconds, allowed=%v threshold=%v stored=%d", satLen, a, T, o.Stored[i])
			}
			// a Throttling rule admits at the grid of its pacing interval, i.e. somewhat below the allowed rate, so
			// the bucket hovers around the warning line: the full threshold must have been reached in the run
			// (the existential form of C11_wu_reaches_full), it need not hold at every later instant
			if c.Throttling && lastFull < satRunStart {
				// which regime?  (own recomputation on the trace)  the bucket was drained below maxToken at least once
				// in the run - the statistic is alive, admissions are consumed - and in every second of the run fewer
				// tokens were admitted than the cold rate uint32(threshold)/coldFactor, which is the calculator's
				// refill condition: the recorded finding F6.  Anything else (a bucket that never leaves maxToken although
				// requests are admitted, or a pass rate at or above the cold rate that still does not drain it) is not.
				drained, maxPerSec := false, int64(0)
				perSec := map[uint64]int64{}
				for j := satRunStart; j <= i; j++ {
					if o.Stored[j] < M {
						drained = true
					}
					if o.Adm[j] {
						perSec[c.Ops[j].Ms/1000] += int64(c.Ops[j].B)
					}
				}
				for _, n := range perSec {
					if n > maxPerSec {
						maxPerSec = n
					}
				}
				sig := "throttling-rule-never-warmed-up-under-sustained-demand"
				if drained && maxPerSec > 0 && maxPerSec < int64(uint32(T))/cf {
					sig = sigGrid
				}
				fail(i, "C11_wu_reaches_full", sig, "%d saturated seconds since request %d, the allowed value never reached the threshold %v (now %v, stored=%d warningToken=%d maxToken=%d; at most %d tokens admitted per second, cold rate %d)", satLen, satRunStart, T, a, o.Stored[i], W, M, maxPerSec, int64(uint32(T))/cf)
			}
		}
		// 5. a steady single-token demand is not starved
		if starveLen >= starveSecs && T >= 1 && !o.Adm[i] && q.B == 1 {
			sig := "warmup-starved"
			switch {
			case math.IsNaN(a):
			case degenerate:
				// an empty token range has no ramp: the rule is the plain threshold and cannot starve a single token
				sig = "warmup-empty-token-range-starved"
			case T < float64(cf):
				sig = sigD10
			case T == float64(cf) && a < 1:
				sig = sigD10eq
			}
			fail(i, "C11_wu_not_starved", sig, "no admission in %d consecutive seconds of single-token demand; threshold=%v coldFactor=%d allowed=%v", starveLen, T, cf, a)
		}
		if o.Adm[i] {
			passT = append(passT, q.Ms)
			passB = append(passB, q.B)
			admittedInRun = true
			sawAdm = true
		} else {
			secRejected = true
			sawRej = true
		}
		secOffered += int64(q.B)
		if q.B == 1 {
			secSingle = true
		}
	}
	return sawAdm && sawRej && len(distinctAllowed) >= 2
}

func maxi(a, b int) int {
	if a > b {
		return a
	}
	return b
}

func coqWu(c wuCase, o wuObs) string {
	var ops, obs []string
	for i, q := range c.Ops {
		ops = append(ops, emit.Tuple(emit.U(q.Ms), emit.U(uint64(q.B))))
		obs = append(obs, emit.Tuple(emit.F(float64(o.Allowed[i])), emit.B(o.Adm[i]), emit.Z(o.Stored[i])))
	}
	if c.Throttling {
		var ws []string
		for i := range c.Ops {
			ws = append(ws, emit.Z(o.Wait[i]))
		}
		return fmt.Sprintf("WUT %d %s %d %d %d %s %s %s %s %s %s", c.ID, emit.F(float64(c.T)), c.Period, c.CF, c.MaxQMs, emit.List(ops), emit.List(obs),
			emit.List(ws), emit.U(o.Warning), emit.U(o.Max), emit.F(float64(o.Slope)))
	}
	return fmt.Sprintf("WU %d %s %d %d %s %s %s %s %s", c.ID, emit.F(float64(c.T)), c.Period, c.CF, emit.List(ops), emit.List(obs),
		emit.U(o.Warning), emit.U(o.Max), emit.F(float64(o.Slope)))
}

func runWuCase(a cli.Args, root *rng.R, rep *emit.Report, dist *emit.Distinct, sh *emit.Shards, clk *vclock.Clock, id int, corr bool) {
	c := genWu(root.Fork(uint64(id)), id)
	o := runWu(c, clk)
	rep.Evaluations++
	if o.NaNRejected {
		rep.Count("wu_nan_threshold_rejected", 1)
		return
	}
	nt := monitorWu(c, o, rep)
	if nt {
		b, _ := json.Marshal(c)
		dist.Add(string(b))
	}
	rep.Count("wu_cases", 1)
	if c.Throttling {
		rep.Count("wu_cases_control_behavior_throttling", 1)
		for _, w := range o.Wait {
			if w > 0 {
				rep.Count("wu_throttling_requests_asked_to_wait", 1)
			}
		}
	} else {
		rep.Count("wu_cases_control_behavior_reject", 1)
	}
	rep.Count("wu_requests", len(c.Ops))
	if o.Max == o.Warning {
		rep.Count("wu_degenerate_token_range", 1)
	}
	T := float64(c.T)
	cf := float64(o.CF)
	switch {
	case math.IsNaN(T) || math.IsInf(T, 0):
		rep.Count("wu_thr_not_finite", 1)
	case T < 1:
		rep.Count("wu_thr_below_one", 1)
	case T < cf:
		rep.Count("wu_thr_below_coldfactor", 1)
	case T == cf:
		rep.Count("wu_thr_equals_coldfactor", 1)
	default:
		rep.Count("wu_thr_above_coldfactor", 1)
	}
	for i := range c.Ops {
		if o.Adm[i] {
			rep.Count("wu_admitted", 1)
		} else {
			rep.Count("wu_rejected", 1)
		}
		if float64(o.Allowed[i]) == T {
			rep.Count("wu_allowed_is_full_threshold", 1)
		}
	}
	if corr && sh != nil {
		sh.Add(id, coqWu(c, o))
		rep.CorrCases++
		rep.CaseInputs[strconv.Itoa(id)] = c
		if id == wuBase+5 {
			o.Trace = trace(c, o, 40)
			rep.Sample(map[string]interface{}{"input": c, "observed": o})
		}
	}
	if a.Only >= 0 {
		o.Trace = trace(c, o, 400)
		out, _ := json.MarshalIndent(map[string]interface{}{"input": c, "observed": o, "coq": coqWu(c, o)}, "", " ")
		fmt.Println(string(out))
	}
}

func trace(c wuCase, o wuObs, n int) []string {
	var t []string
	for i, q := range c.Ops {
		if i >= n {
			break
		}
		t = append(t, fmt.Sprintf("t=+%dms b=%d allowed=%v admitted=%v stored=%d wait=%dns", q.Ms-caseBase(c.ID), q.B, float64(o.Allowed[i]), o.Adm[i], o.Stored[i], o.Wait[i]))
	}
	return t
}
