//go:build verif

// vh-c11: correspondence + monitor harness for property C11 (adaptive thresholds: warm-up
// calculator and memory-adaptive calculator).
package main

import (
	"encoding/json"
	"fmt"
	"math"
	"math/big"
	"os"
	"sort"
	"strconv"

	sentinel "github.com/alibaba/sentinel-golang/api"
	"github.com/alibaba/sentinel-golang/core/config"
	"github.com/alibaba/sentinel-golang/core/flow"
	"github.com/alibaba/sentinel-golang/core/system_metric"

	"vh/internal/cli"
	"vh/internal/emit"
	"vh/internal/env"
	"vh/internal/rng"
	"vh/internal/vclock"
)

const t0ms = uint64(1700000000000)

type fl float64

func (f fl) MarshalJSON() ([]byte, error) {
	return json.Marshal(map[string]interface{}{"text": strconv.FormatFloat(float64(f), 'g', -1, 64), "bits": fmt.Sprintf("0x%016x", math.Float64bits(float64(f)))})
}

func rat(f float64) *big.Rat { return new(big.Rat).SetFloat64(f) }
func ratI(i int64) *big.Rat  { return new(big.Rat).SetInt64(i) }

// caseBase: every case owns a span of virtual time determined by its id, so that the clock
// never moves backwards between cases and a replayed case sees the same times
// The virtual clock counts nanoseconds in a uint64, so times stay below 1.84e13 ms.  Ordinary warm-up
// cases own 3e7 ms each; every fourth pair of ids (j mod 8 in {2,3}, the first 300 of them) is a
// "big" case that may contain one idle gap of k*2^31 / k*2^32 ms and owns 1.5e10 ms in a region above
// all ordinary cases (main runs the big cases last, so the clock never moves backwards).
func isBigWu(id int) bool {
	j := id - wuBase
	return j >= 0 && (j%8 == 2 || j%8 == 3) && (j/8)*2+(j%8-2) < 300
}

// isThrWu: warm-up cases whose rule carries ControlBehavior = Throttling (the witness 12 and every fourth
// generated case).  The throttling checker converts the clock to int64 nanoseconds, so these cases live in
// a region below 2^63 ns (between the memory-adaptive cases and the ordinary warm-up cases; main runs them
// in between, so the clock stays monotone).
func isThrWu(id int) bool {
	j := id - wuBase
	return j == 12 || (j > 12 && j%4 == 1)
}

func caseBase(id int) uint64 {
	if isThrWu(id) {
		k := uint64(id-wuBase) / 4 // 13 -> 3, 17 -> 4, ...
		if id-wuBase == 12 {
			k = 0
		}
		return t0ms + 6000000000000 + k*30000000
	}
	if id >= wuBase {
		j := uint64(id - wuBase)
		if isBigWu(id) {
			return t0ms + 11900000000000 + ((j/8)*2+(j%8-2))*15000000000
		}
		return t0ms + 10000000000000 + j*30000000
	}
	return t0ms + uint64(id%100000)*100000000 // (memory-adaptive ids above 100000 exist only in the widened search)
}

// closeTo: |f - x| <= scale * 2^-k for exact rationals x, scale
func closeTo(f float64, x, scale *big.Rat, k uint) bool {
	if math.IsNaN(f) || math.IsInf(f, 0) {
		return false
	}
	d := new(big.Rat).Sub(rat(f), x)
	d.Abs(d)
	d.Mul(d, new(big.Rat).SetInt(new(big.Int).Lsh(big.NewInt(1), k)))
	return d.Cmp(scale) <= 0
}

// reportFail: emit.Report keeps the first 200 monitor failures of a run.  The recorded findings fail on many
// generated cases (thousands in the thorough tier), which used to fill that list before the later witnesses ran
// (the big-gap cases, among them the F2 witness 100003, run last), so a listed finding could go unreported in
// one tier.  At most knownCap failures per RECORDED signature are listed individually (the rest is counted);
// failures with any other signature are never held back.
const knownCap = 20

var knownListed = map[string]int{}

func reportFail(rep *emit.Report, id int, clause, sig, detail string, input interface{}) {
	switch sig {
	case sigMemBig, sigNoCold, sigD10, sigD10eq, sigGrid:
		knownListed[sig]++
		if knownListed[sig] > knownCap {
			rep.Count("failures_with_a_recorded_signature_not_listed_individually", 1)
			return
		}
	}
	rep.Fail(id, clause, sig, detail, input)
}

// =========================================================================================
// memory-adaptive

type memCase struct {
	ID    int     `json:"id"`
	LowT  int64   `json:"low_mem_usage_threshold"`
	HighT int64   `json:"high_mem_usage_threshold"`
	LowW  int64   `json:"mem_low_water_mark"`
	HighW int64   `json:"mem_high_water_mark"`
	Mems  []int64 `json:"memory_readings"`
	Count bool    `json:"count_admissions"`
	// fields of flow.Rule that a memory-adaptive rule does not use: whatever they hold, the effective threshold
	// (verif export AND the number of requests a fresh window admits) is the memory envelope
	Threshold  fl     `json:"unrelated_threshold"`
	WuPeriod   uint32 `json:"unrelated_warm_up_period_sec,omitempty"`
	WuCold     uint32 `json:"unrelated_warm_up_cold_factor,omitempty"`
	MaxQueueMs uint32 `json:"unrelated_max_queueing_ms,omitempty"`
}

// unrelatedFields: every second case (by id, so that the other inputs of a case stay what they were) sets the
// fields the strategy does not use: a threshold below, inside and above the envelope, warm-up and queueing values
func (c *memCase) unrelatedFields() {
	if c.ID%2 == 0 {
		return
	}
	switch (c.ID / 2) % 6 {
	case 0:
		c.Threshold = fl(float64(c.HighT) / 2)
	case 1:
		c.Threshold = 1
	case 2:
		c.Threshold = fl(float64(c.LowT) - 1)
	case 3:
		c.Threshold = fl(float64(c.LowT) + 5)
	case 4:
		c.Threshold = 0.5
	default:
		c.Threshold = fl(float64(c.HighT))
	}
	c.WuPeriod = uint32(1 + c.ID%9)
	c.WuCold = uint32(c.ID % 5)
	c.MaxQueueMs = uint32(c.ID * 37 % 5000)
}

type memObs struct {
	Allowed  []fl    `json:"allowed"`
	Admitted []int64 `json:"admitted_in_fresh_window,omitempty"`
}

const sigMemBig = "adaptive-threshold-above-2^53-rounding-outside-envelope"

func genMem(r *rng.R, id int, total int64) memCase {
	c := memCase{ID: id}
	if id == 0 { // witness: thresholds above 2^53, the interpolation in doubles falls below the high-memory threshold
		c.LowT, c.HighT, c.LowW, c.HighW = 9668711669259933, 9668711669259931, 1, 7
		c.Mems = []int64{-1, 0, 1, 2, 3, 4, 5, 6, 7, 8, math.MaxInt64}
		return c
	}
	switch r.Intn(4) {
	case 0:
		c.HighT = r.Range(1, 20)
		c.LowT = c.HighT + r.Range(1, 60)
	case 1:
		c.HighT = r.Range(1, 1000)
		c.LowT = c.HighT + r.Range(1, 2000)
	case 2:
		c.HighT = r.Range(1, 1<<40)
		c.LowT = c.HighT + r.Range(1, 1<<40)
	default:
		c.HighT = r.PickI(1, 1, 100, 1<<52, 1<<52+1, 1<<51)
		c.LowT = c.HighT + r.PickI(1, 2, 1000, 1<<20)
	}
	lim := total
	if lim > 1<<40 {
		lim = 1 << 40
	}
	switch r.Intn(4) {
	case 0: // small mark range: swept completely
		c.LowW = r.Range(1, 1<<20)
		c.HighW = c.LowW + r.Range(1, 12)
	case 1:
		c.LowW = r.Range(1, 1<<20)
		c.HighW = c.LowW + r.Range(1, 1<<20)
	case 2:
		c.LowW = r.Range(1, lim/2)
		c.HighW = c.LowW + r.Range(1, lim/2)
	default:
		c.LowW = r.PickI(1, 1024, 1<<30)
		c.HighW = c.LowW + r.PickI(1, 2, 3, 1024, 1<<30)
	}
	if c.HighW > total {
		c.HighW = total
	}
	if c.LowW >= c.HighW {
		c.LowW = c.HighW - 1
	}
	W := c.HighW - c.LowW
	c.Mems = []int64{-1, 0, 1, c.LowW - 1, c.LowW, c.LowW + 1, c.HighW - 1, c.HighW, c.HighW + 1, c.HighW + r.Range(1, 1<<30), math.MaxInt64}
	if W <= 13 {
		for m := c.LowW; m <= c.HighW; m++ {
			c.Mems = append(c.Mems, m)
		}
	} else {
		for i := 0; i < 6; i++ {
			m := c.LowW + r.Range(1, W-1)
			c.Mems = append(c.Mems, m, m+1)
		}
		c.Mems = append(c.Mems, c.LowW+W/2, c.LowW+2, c.HighW-2)
	}
	c.Count = c.LowT <= 1500
	c.unrelatedFields()
	return c
}

func runMem(c memCase, clk *vclock.Clock) memObs {
	res := "c11m-" + strconv.Itoa(c.ID)
	rule := &flow.Rule{Resource: res, TokenCalculateStrategy: flow.MemoryAdaptive, ControlBehavior: flow.Reject,
		LowMemUsageThreshold: c.LowT, HighMemUsageThreshold: c.HighT, MemLowWaterMarkBytes: c.LowW, MemHighWaterMarkBytes: c.HighW,
		Threshold: float64(c.Threshold), WarmUpPeriodSec: c.WuPeriod, WarmUpColdFactor: c.WuCold, MaxQueueingTimeMs: c.MaxQueueMs}
	// reload prologue: a rule that differs from the case's rule in exactly one adaptive field is
	// loaded first; the calculator in force afterwards must be the one of the case's rule
	pre := *rule
	switch c.ID % 4 {
	case 0:
		if c.HighW-1 > c.LowW {
			pre.MemHighWaterMarkBytes = c.HighW - 1
		} else {
			pre.MemHighWaterMarkBytes = c.HighW + 1 // may exceed the machine's memory: then the prologue rule is simply invalid
		}
	case 1:
		if c.LowW > 1 {
			pre.MemLowWaterMarkBytes = c.LowW - 1
		} else if c.LowW+1 < c.HighW {
			pre.MemLowWaterMarkBytes = c.LowW + 1
		}
	case 2:
		pre.LowMemUsageThreshold = c.LowT + 1
	default:
		if c.HighT > 1 {
			pre.HighMemUsageThreshold = c.HighT - 1
		} else if c.HighT+1 < c.LowT {
			pre.HighMemUsageThreshold = c.HighT + 1
		}
	}
	if pre != *rule {
		if _, err := flow.LoadRules([]*flow.Rule{&pre}); err != nil {
			panic(err)
		}
	}
	if _, err := flow.LoadRules([]*flow.Rule{rule}); err != nil {
		panic(err)
	}
	if n := len(flow.GetRulesOfResource(res)); n != 1 {
		panic(fmt.Sprintf("case %d: memory-adaptive rule not in force", c.ID))
	}
	var o memObs
	clk.SetMs(caseBase(c.ID))
	for _, m := range c.Mems {
		system_metric.SetSystemMemoryUsage(m)
		a, ok := flow.AllowedTokensForVerif(res, 0)
		if !ok {
			panic("no controller")
		}
		o.Allowed = append(o.Allowed, fl(a))
		if c.Count {
			// public API: how many single-token requests does a fresh window admit?
			clk.AddMs(3000)
			n := int64(0)
			for n < 5000 {
				e, b := sentinel.Entry(res)
				if b != nil {
					break
				}
				e.Exit()
				n++
			}
			o.Admitted = append(o.Admitted, n)
		}
	}
	system_metric.SetSystemMemoryUsage(system_metric.NotRetrievedMemoryValue)
	return o
}

func monitorMem(c memCase, o memObs, rep *emit.Report) (nontrivial bool) {
	fail := func(clause, sig, format string, a ...interface{}) {
		reportFail(rep, c.ID, clause, sig, fmt.Sprintf(format, a...), c)
	}
	type rd struct {
		mem int64
		a   float64
	}
	var rds []rd
	between := 0
	for i, m := range c.Mems {
		a := float64(o.Allowed[i])
		if math.IsNaN(a) || math.IsInf(a, 0) || a < 0 {
			fail("C11_mem_finite_nonneg", "adaptive-threshold-not-finite-nonneg", "mem=%d allowed=%v", m, a)
			return
		}
		switch {
		case m <= c.LowW: // includes the not-retrieved value -1
			if a != float64(c.LowT) {
				fail("C11_mem_low", "not-low-threshold-at-or-below-low-mark", "mem=%d allowed=%v want %d", m, a, c.LowT)
				return
			}
		case m >= c.HighW:
			if a != float64(c.HighT) {
				fail("C11_mem_high", "not-high-threshold-at-or-above-high-mark", "mem=%d allowed=%v want %d", m, a, c.HighT)
				return
			}
		default:
			between++
			// exact value: lowT - (lowT-highT)*(mem-lowW)/(highW-lowW)
			x := new(big.Rat).Mul(ratI(c.LowT-c.HighT), ratI(m-c.LowW))
			x.Quo(x, ratI(c.HighW-c.LowW))
			x.Sub(ratI(c.LowT), x)
			if !closeTo(a, x, ratI(c.LowT), 48) {
				fail("C11_mem_between", "interpolation-off", "mem=%d allowed=%v exact=%s", m, a, x.FloatString(6))
				return
			}
			if a > float64(c.LowT) || a < float64(c.HighT) {
				sig := "outside-envelope"
				if c.LowT > 1<<53 {
					sig = sigMemBig
				}
				fail("C11_mem_between", sig, "mem=%d allowed=%v envelope [%d,%d]", m, a, c.HighT, c.LowT)
				return
			}
		}
		if m >= 0 {
			rds = append(rds, rd{m, a})
		}
		if c.Count {
			want := int64(math.Floor(a))
			if want > 5000 {
				want = 5000
			}
			if o.Admitted[i] != want {
				fail("C11_mem_admitted", "admitted-count-differs-from-threshold", "mem=%d allowed=%v admitted=%d", m, a, o.Admitted[i])
				return
			}
		}
	}
	sort.SliceStable(rds, func(i, j int) bool { return rds[i].mem < rds[j].mem })
	for i := 1; i < len(rds); i++ {
		if rds[i].a > rds[i-1].a {
			fail("C11_mem_monotone", "threshold-increases-with-memory", "mem %d -> %v, mem %d -> %v", rds[i-1].mem, rds[i-1].a, rds[i].mem, rds[i].a)
			return
		}
	}
	return between >= 2
}

func coqMem(c memCase, o memObs) string {
	var rs []string
	for i, m := range c.Mems {
		rs = append(rs, emit.Tuple(emit.Z(m), emit.F(float64(o.Allowed[i]))))
	}
	return fmt.Sprintf("Mem %d %s %s %s %s %s", c.ID, emit.Z(c.LowT), emit.Z(c.HighT), emit.Z(c.LowW), emit.Z(c.HighW), emit.List(rs))
}

// =========================================================================================
// main

const (
	wuBase   = 100000
	wuWitN   = 18
	constsID = 999999
)

func main() {
	a := cli.Parse()
	env.Init(env.Options{})
	clk := vclock.New(t0ms)
	clk.AdvanceOnSleep = false
	clk.Install()
	root := rng.New(a.Seed)
	rep := emit.NewReport("C11", a.Seed, a.Tier)
	rep.Rule = "memory-adaptive: valid rules (thresholds 1..2^62, water marks up to the machine's memory; small mark ranges swept completely), readings -1, 0, marks +-1, pairs (m, m+1) inside, beyond; exact float observed through a verif export and, for small thresholds, the number of requests a fresh window admits through sentinel.Entry. Non-trivial = at least two readings strictly between the marks. warm-up: rules over thresholds {fractional, <1, 1..100}, periods 1..121 s, cold factors 0(default),2..10 incl. the degenerate corner; demand histories of phases (cold burst, steady k/s, saturating, idle gaps) over virtual seconds; per request the allowed tokens (exact float), admission and stored tokens. Non-trivial = the history contains an admission, a rejection and at least two different allowed values; distinct by full input."
	total := int64(system_metric.TotalMemorySize)
	if total < 1<<22 {
		fmt.Fprintln(os.Stderr, "machine memory size not available")
		os.Exit(2)
	}
	nMemCorr := a.Pick(a.N, 120, 3000)
	nMemMon := a.Pick(a.Mon, 1500, 40000)
	nWuCorr := a.Pick(a.N, 60, 1500)
	nWuMon := a.Pick(a.Mon, 500, 12000)
	if a.Search {
		nMemCorr, nWuCorr = 0, 0
		nMemMon *= 5
		nWuMon *= 5
	}
	var sh *emit.Shards
	if a.Only < 0 && !a.Search {
		var err error
		sh, err = emit.NewShards(a.Out, "Corr.Run_C11", a.Shards, "Open Scope Z_scope.")
		if err != nil {
			panic(err)
		}
	}
	dist := emit.NewDistinct()
	runOneMem := func(id int, corr bool) {
		c := genMem(root.Fork(uint64(id)), id, total)
		o := runMem(c, clk)
		rep.Evaluations++
		nt := monitorMem(c, o, rep)
		if nt {
			b, _ := json.Marshal(c)
			dist.Add(string(b))
		}
		rep.Count("mem_cases", 1)
		if c.Threshold != 0 {
			rep.Count("mem_cases_with_unrelated_fields_set", 1)
		}
		rep.Count("mem_readings", len(c.Mems))
		if c.HighW-c.LowW <= 13 {
			rep.Count("mem_small_range_swept", 1)
		}
		if c.Count {
			rep.Count("mem_cases_with_public_api_counts", 1)
		}
		if c.LowT > 1<<50 {
			rep.Count("mem_threshold_above_2^50", 1)
		}
		if corr && sh != nil {
			sh.Add(id, coqMem(c, o))
			rep.CorrCases++
			rep.CaseInputs[strconv.Itoa(id)] = c
			if nt && id < 3 {
				rep.Sample(map[string]interface{}{"input": c, "observed": o})
			}
		}
		if a.Only >= 0 {
			out, _ := json.MarshalIndent(map[string]interface{}{"input": c, "observed": o, "coq": coqMem(c, o)}, "", " ")
			fmt.Println(string(out))
		}
	}
	runOneWu := func(id int, corr bool) { runWuCase(a, root, rep, dist, sh, clk, id, corr) }
	if a.Only >= 0 {
		if a.Only >= wuBase {
			runOneWu(a.Only, false)
		} else {
			runOneMem(a.Only, false)
		}
		for _, f := range rep.MonitorFailures {
			fmt.Printf("MONITOR-FAIL clause=%s signature=%s %s\n", f.Clause, f.Signature, f.Detail)
		}
		return
	}
	for id := 0; id < nMemMon; id++ {
		runOneMem(id, id < nMemCorr)
	}
	for pass := -1; pass < 2; pass++ { // throttling cases, then ordinary cases, big-gap cases last (monotone clock)
		for j := 0; j < nWuMon; j++ {
			if isThrWu(wuBase+j) != (pass == -1) {
				continue
			}
			if pass == -1 || isBigWu(wuBase+j) == (pass == 1) {
				runOneWu(wuBase+j, j < nWuCorr)
			}
		}
	}
	rep.DistinctNontrivial = dist.N()
	rep.Consts["config.MetricStatisticIntervalMs"] = config.MetricStatisticIntervalMs()
	rep.Consts["config.MetricStatisticSampleCount"] = config.MetricStatisticSampleCount()
	rep.Consts["config.GlobalStatisticBucketLengthInMs"] = config.GlobalStatisticBucketLengthInMs()
	rep.Consts["config.DefaultWarmUpColdFactor"] = config.DefaultWarmUpColdFactor
	rep.Consts["system_metric.NotRetrievedMemoryValue"] = system_metric.NotRetrievedMemoryValue
	if sh != nil {
		sh.Add(constsID, fmt.Sprintf("Consts %d %d %d %d %s", constsID,
			config.MetricStatisticIntervalMs()/config.MetricStatisticSampleCount(), config.MetricStatisticIntervalMs(),
			config.DefaultWarmUpColdFactor, emit.Z(system_metric.NotRetrievedMemoryValue)))
		rep.Shards = sh.Close()
	}
	if err := rep.Write(a.Out); err != nil {
		fmt.Fprintln(os.Stderr, err)
		os.Exit(2)
	}
}
