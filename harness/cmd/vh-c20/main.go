//go:build verif

// vh-c20: correspondence + monitor harness for property C20 (outlier ejection).
//
// Every case owns one resource with one outlier rule. Requests run through a slot chain that
// holds only the outlier slots (rule check + statistic), report the callee with
// api.TraceCallee and errors with api.TraceError, under a virtual clock. The recycler and
// retryer get intervals far beyond the life of the process (core/outlier verif export), their
// timer callbacks are invoked explicitly as operations, and after every request the harness
// waits (without sleeping) until the two channel consumers have handled what the slot enqueued.
package main

import (
	"encoding/json"
	"errors"
	"fmt"
	"math"
	"math/big"
	"os"
	"sort"
	"strconv"
	"strings"
	"time"

	sentinel "github.com/alibaba/sentinel-golang/api"
	"github.com/alibaba/sentinel-golang/core/base"
	"github.com/alibaba/sentinel-golang/core/circuitbreaker"
	"github.com/alibaba/sentinel-golang/core/outlier"

	"vh/internal/cli"
	"vh/internal/emit"
	"vh/internal/env"
	"vh/internal/rng"
	"vh/internal/vclock"
)

// ---- inputs ----------------------------------------------------------------------------

type ruleT struct {
	Strategy int     `json:"strategy"` // 0 slow ratio, 1 error ratio, 2 error count
	RetryMs  uint32  `json:"retry_ms"`
	MinReq   uint64  `json:"min_req"`
	StatMs   uint32  `json:"stat_ms"`
	MaxRt    uint64  `json:"max_rt"`
	Thr      float64 `json:"threshold"`
	ProbeNum uint64  `json:"probe_num"`
	Active   bool    `json:"active_recovery"`
	Pct      float64 `json:"max_ejection_percent"`
	PctBits  string  `json:"max_ejection_percent_bits"`
}

type opT struct {
	Kind    string  `json:"kind"`          // enter | skip-plain | skip-empty | exit | fire | conn | disc | reload
	Pct     float64 `json:"pct,omitempty"` // reload with Var 4 (LoadRuleOfResource) / 5 (LoadRules): the new MaxEjectionPercent, nothing else changes
	PctBits string  `json:"pct_bits,omitempty"`
	Var     int     `json:"var,omitempty"` // reload: 0 identical rule via LoadRuleOfResource, 1 identical via LoadRules, 2 / 3 the same with changed RecoveryIntervalMs / RecycleIntervalS / MaxRecoveryAttempts
	Dt      uint64  `json:"dt"`            // clock advance (ms) before the operation
	Slot    int     `json:"slot"`          // which of the (at most two) concurrently live requests
	Addr    int     `json:"addr,omitempty"`
	Err     bool    `json:"err,omitempty"`
	Rt      uint64  `json:"rt,omitempty"`
	// reload with Var 6 (LoadRuleOfResource) / 7 (LoadRules): the embedded circuit breaker rule changes to
	// this threshold / minimum request amount (the node breakers are rebuilt), nothing else changes
	Thr    float64 `json:"thr,omitempty"`
	MinReq uint64  `json:"min_req,omitempty"`
}

type caseT struct {
	ID    int    `json:"id"`
	Class string `json:"class"`
	Rule  ruleT  `json:"rule"`
	Nodes int    `json:"nodes"`
	Ops   []opT  `json:"ops"`
}

const (
	startMs    = uint64(1700000000000)
	pairBase   = 200000
	limBase    = 300000
	reloadBase = 400000
	pctBase    = 500000 // reloads that change MaxEjectionPercent only (monitor only: the model's rule is a fixed parameter)
	brkBase    = 600000 // reloads that relax the embedded circuit breaker rule (monitor only)
	raceBase   = 700000 // real-thread search leg: first ejection || first successful completion of fresh resources
)

func third() float64 { return 1.0 / 3 }

func genRule(r *rng.R) ruleT {
	var ru ruleT
	ru.Strategy = int(r.PickI(2, 2, 2, 1, 1, 0))
	ru.RetryMs = uint32(r.PickI(1, 10, 100, 100, 1000, 3000))
	ru.MinReq = uint64(r.PickI(0, 1, 1, 2, 3))
	ru.StatMs = uint32(r.PickI(100, 1000, 1000, 5000, 60000))
	ru.MaxRt = uint64(r.PickI(0, 5, 20))
	switch ru.Strategy {
	case 2:
		ru.Thr = r.PickF(1, 1, 2, 3, 0, 1.5)
	default:
		ru.Thr = r.PickF(0, 0.2, 0.5, 0.5, 1.0/3, 0.75, 1)
	}
	ru.ProbeNum = uint64(r.PickI(0, 0, 1, 1, 2, 3))
	ru.Active = r.Chance(3, 10)
	switch x := r.Intn(10); {
	case x < 4:
		ru.Pct = float64(r.Intn(21)) / 20
	case x < 6:
		ru.Pct = r.PickF(third(), 2.0/3, 0.1, 0.3, 0.6, 0.7, 0.9, 0.99, 1, 0, 1.0/7, 1.0/6, 1.0/9)
	case x < 8:
		ru.Pct = float64(r.U64()>>11) / (1 << 53)
	default:
		d := 1 + r.Intn(12)
		ru.Pct = float64(r.Intn(d+1)) / float64(d)
	}
	ru.PctBits = fmt.Sprintf("%016x", math.Float64bits(ru.Pct))
	return ru
}

func genHist(r *rng.R, id int) caseT {
	c := caseT{ID: id, Class: "history"}
	c.Rule = genRule(r)
	c.Nodes = int(r.PickI(1, 2, 3, 3, 4, 5, 5, 6, 8, 10, 10, 12))
	// per node failure class: 0 healthy, 1 flaky, 2 dead
	cls := make([]int, c.Nodes+1)
	for i := 1; i <= c.Nodes; i++ {
		cls[i] = int(r.PickI(0, 0, 1, 2, 2))
	}
	fails := func(a int) bool {
		switch cls[a] {
		case 0:
			return r.Chance(1, 20)
		case 1:
			return r.Chance(1, 2)
		}
		return !r.Chance(1, 25)
	}
	dt := func() uint64 {
		switch x := r.Intn(12); {
		case x < 4:
			return 0
		case x < 6:
			return uint64(r.Range(1, 30))
		case x < 7:
			return uint64(c.Rule.RetryMs)
		case x < 8:
			return uint64(c.Rule.RetryMs) - 1
		case x < 9:
			return uint64(c.Rule.RetryMs) + 1
		case x < 10:
			return uint64(c.Rule.StatMs)
		case x < 11:
			return uint64(c.Rule.MaxRt) + 1
		}
		return uint64(r.Range(0, int64(c.Rule.RetryMs)*2))
	}
	nops := 16 + r.Intn(44)
	live := [2]string{"", ""} // "", "out", "skip"
	for len(c.Ops) < nops {
		x := r.Intn(100)
		switch {
		case x < 40: // open a request
			s := 0
			if live[0] != "" {
				if live[1] != "" || !r.Chance(1, 4) {
					// close one instead
					s = 0
					if live[1] != "" && r.Bool() {
						s = 1
					}
					c.Ops = append(c.Ops, exitOp(r, c, s, live[s], dt(), fails))
					live[s] = ""
					continue
				}
				s = 1
			}
			if r.Chance(1, 8) {
				k := "skip-plain"
				if r.Bool() {
					k = "skip-empty"
				}
				c.Ops = append(c.Ops, opT{Kind: k, Dt: dt(), Slot: s})
				live[s] = "skip"
			} else {
				c.Ops = append(c.Ops, opT{Kind: "enter", Dt: dt(), Slot: s})
				live[s] = "out"
			}
		case x < 82: // close a request
			s := -1
			if live[0] != "" && live[1] != "" {
				s = r.Intn(2)
			} else if live[0] != "" {
				s = 0
			} else if live[1] != "" {
				s = 1
			}
			if s < 0 {
				continue
			}
			c.Ops = append(c.Ops, exitOp(r, c, s, live[s], dt(), fails))
			live[s] = ""
		case x >= 98:
			c.Ops = append(c.Ops, opT{Kind: "reload", Dt: dt(), Var: r.Intn(4)})
		case x < 90:
			c.Ops = append(c.Ops, opT{Kind: "fire", Dt: dt(), Addr: 1 + r.Intn(c.Nodes)})
		case x < 96:
			if c.Rule.Active {
				c.Ops = append(c.Ops, opT{Kind: "conn", Dt: dt(), Addr: 1 + r.Intn(c.Nodes), Rt: uint64(r.PickI(0, 1, 6, 25))})
			}
		default:
			if c.Rule.Active {
				c.Ops = append(c.Ops, opT{Kind: "disc", Dt: dt(), Addr: 1 + r.Intn(c.Nodes)})
			}
		}
	}
	for s := 0; s < 2; s++ {
		if live[s] != "" {
			c.Ops = append(c.Ops, exitOp(r, c, s, live[s], 0, fails))
		}
	}
	return c
}

func exitOp(r *rng.R, c caseT, slot int, kind string, dt uint64, fails func(int) bool) opT {
	if kind == "skip" {
		return opT{Kind: "exit", Dt: dt, Slot: slot}
	}
	if r.Chance(1, 25) {
		return opT{Kind: "exit", Dt: dt, Slot: slot} // the caller reported no callee
	}
	a := 1 + r.Intn(c.Nodes)
	return opT{Kind: "exit", Dt: dt, Slot: slot, Addr: a, Err: fails(a)}
}

// genPair: n nodes, all ejected (one failing request each), then one measured request.
func genPair(id, n int, pct float64, active bool) caseT {
	c := caseT{ID: id, Class: "pair", Nodes: n}
	c.Rule = ruleT{Strategy: 2, RetryMs: 100000, MinReq: 1, StatMs: 60000, Thr: 1, ProbeNum: 1, Active: active, Pct: pct,
		PctBits: fmt.Sprintf("%016x", math.Float64bits(pct))}
	for i := 1; i <= n; i++ {
		c.Ops = append(c.Ops, opT{Kind: "enter", Dt: 1}, opT{Kind: "exit", Addr: i, Err: true})
	}
	c.Ops = append(c.Ops, opT{Kind: "enter", Dt: 1}, opT{Kind: "exit"})
	return c
}

// genReload: the recycler / retryer bookkeeping across rule reloads.  k of n nodes fail and are
// ejected; a request reports them (they are scheduled for recycling, in active mode also for
// probing); the first of them then completes a request successfully (a passive probe after the
// retry timeout, or the retryer's connect callback); its timer fires: it must keep its breaker,
// while a node that never recovered loses it.  Reloads of the four kinds are placed between the
// scheduling and the success, and between the success and the timer.
func genReload(r *rng.R, id int) caseT {
	c := caseT{ID: id, Class: "reload"}
	c.Rule = ruleT{Strategy: 2, RetryMs: uint32(r.PickI(10, 100, 1000)), MinReq: 1, StatMs: 60000, Thr: 1,
		ProbeNum: uint64(r.PickI(0, 1, 1, 2)), Active: r.Chance(1, 3), Pct: r.PickF(1, 1, 0.5, third(), 0.75)}
	c.Rule.PctBits = fmt.Sprintf("%016x", math.Float64bits(c.Rule.Pct))
	c.Nodes = 2 + r.Intn(4)
	k := 1 + r.Intn(c.Nodes-1) // nodes 1..k fail, k+1..n are healthy
	for i := 1; i <= c.Nodes; i++ {
		c.Ops = append(c.Ops, opT{Kind: "enter", Dt: 1}, opT{Kind: "exit", Addr: i, Err: i <= k})
	}
	reload := func(p int) {
		for n := r.Intn(p); n > 0; n-- {
			c.Ops = append(c.Ops, opT{Kind: "reload", Dt: uint64(r.Intn(3)), Var: r.Intn(4)})
		}
	}
	reload(2)
	c.Ops = append(c.Ops, opT{Kind: "enter", Dt: 1}, opT{Kind: "exit", Addr: c.Nodes}) // schedules 1..k
	reload(3)
	if c.Rule.Active && r.Bool() {
		c.Ops = append(c.Ops, opT{Kind: "conn", Dt: 1, Addr: 1, Rt: 1})
	} else {
		c.Ops = append(c.Ops, opT{Kind: "enter", Dt: uint64(c.Rule.RetryMs)}, opT{Kind: "exit", Addr: 1})
	}
	reload(3)
	c.Ops = append(c.Ops, opT{Kind: "fire", Dt: 1, Addr: 1})
	if k >= 2 {
		c.Ops = append(c.Ops, opT{Kind: "fire", Addr: 2})
	}
	reload(2)
	c.Ops = append(c.Ops, opT{Kind: "enter", Dt: 1}, opT{Kind: "exit", Addr: 1})
	return c
}

// genPct: reloads whose only change is MaxEjectionPercent - by one ulp, by less than 1e-8, across an
// integer boundary of n*p, or by a lot.  All n nodes fail and are ejected; a request is measured under
// the first percentage, the rule is reloaded, a request is measured under the new one (the quota of the
// rule loaded LAST bounds the filter list), optionally once more after a second reload.
func genPct(r *rng.R, id int) caseT {
	c := caseT{ID: id, Class: "pct-reload"}
	n := int(r.PickI(2, 3, 4, 4, 5, 6, 8, 10))
	c.Nodes = n
	p0 := r.PickF(0.5, 0.5, 0.25, 0.75, 1, float64(1+r.Intn(n))/float64(n), 0.6)
	c.Rule = ruleT{Strategy: 2, RetryMs: 100000, MinReq: 1, StatMs: 60000, Thr: 1, ProbeNum: 1, Active: r.Chance(1, 4), Pct: p0,
		PctBits: fmt.Sprintf("%016x", math.Float64bits(p0))}
	for i := 1; i <= n; i++ {
		c.Ops = append(c.Ops, opT{Kind: "enter", Dt: 1}, opT{Kind: "exit", Addr: i, Err: true})
	}
	c.Ops = append(c.Ops, opT{Kind: "enter", Dt: 1}, opT{Kind: "exit"})
	cur := p0
	for k := 1 + r.Intn(2); k > 0; k-- {
		var p float64
		switch r.Intn(7) {
		case 0, 1:
			p = math.Nextafter(cur, 0)
		case 2:
			p = cur - 5e-9
		case 3:
			p = cur - 1e-7
		case 4:
			p = math.Nextafter(cur, 2)
		case 5:
			p = cur / 2
		default:
			p = float64(r.Intn(n+1)) / float64(n)
		}
		if p < 0 {
			p = 0
		}
		if p > 1 {
			p = 1
		}
		c.Ops = append(c.Ops, opT{Kind: "reload", Var: 4 + r.Intn(2), Pct: p, PctBits: fmt.Sprintf("%016x", math.Float64bits(p))},
			opT{Kind: "enter", Dt: 1}, opT{Kind: "exit"})
		cur = p
	}
	return c
}

// genBrk: a reload that changes the EMBEDDED CIRCUIT BREAKER RULE, through LoadRuleOfResource or through
// the global LoadRules, followed by traffic.  k of n nodes fail and are ejected, a request is measured;
// then the rule is reloaded with a threshold / minimum amount no node can reach any more: every node gets
// a breaker of the new rule, so from then on no node rejects - the filter and the half-open list of every
// later request are empty whatever the later completions are (the filter holds only nodes whose CURRENT
// breaker rejects).
func genBrk(r *rng.R, id int) caseT {
	c := caseT{ID: id, Class: "breaker-reload"}
	n := 2 + r.Intn(7)
	c.Nodes = n
	p0 := r.PickF(1, 1, 0.5, 0.75)
	c.Rule = ruleT{Strategy: 2, RetryMs: uint32(r.PickI(100, 100000)), MinReq: 1, StatMs: 60000, Thr: 1, ProbeNum: uint64(r.PickI(0, 1)),
		Active: r.Chance(1, 4), Pct: p0, PctBits: fmt.Sprintf("%016x", math.Float64bits(p0))}
	k := 1 + r.Intn(n)
	for i := 1; i <= n; i++ {
		c.Ops = append(c.Ops, opT{Kind: "enter", Dt: 1}, opT{Kind: "exit", Addr: i, Err: i <= k})
	}
	c.Ops = append(c.Ops, opT{Kind: "enter", Dt: 1}, opT{Kind: "exit"})
	if r.Chance(1, 3) {
		c.Ops = append(c.Ops, opT{Kind: "reload", Var: r.Intn(2)}) // an identical reload first
	}
	o := opT{Kind: "reload", Dt: uint64(r.Intn(3)), Var: 6 + r.Intn(2), Thr: 1, MinReq: 1}
	switch r.Intn(3) {
	case 0:
		o.Thr = 1000
	case 1:
		o.MinReq = 1000
	default:
		o.Thr, o.MinReq = 500, 500
	}
	c.Ops = append(c.Ops, o)
	for j := 2 + r.Intn(4); j > 0; j-- {
		c.Ops = append(c.Ops, opT{Kind: "enter", Dt: uint64(r.PickI(0, 1, int64(c.Rule.RetryMs)))}, opT{Kind: "exit", Addr: 1 + r.Intn(n), Err: r.Chance(2, 3)})
	}
	return c
}

type pairT struct {
	n   int
	pct float64
}

func pairList(tier string) []pairT {
	var ps []pairT
	if tier == "thorough" {
		for n := 0; n <= 12; n++ {
			for k := 0; k <= 20; k++ {
				ps = append(ps, pairT{n, float64(k) / 20})
			}
		}
		ps = append(ps, pairT{3, third()}, pairT{6, 1.0 / 6}, pairT{9, 1.0 / 9}, pairT{7, 1.0 / 7})
		return ps
	}
	return []pairT{{3, third()}, {5, 0.6}, {10, 0.3}, {10, 0.6}, {10, 0.7}, {3, 2.0 / 3}, {4, 0.5}, {4, 0.25}, {7, 1}, {7, 0},
		{1, 0.99}, {1, 1}, {0, 1}, {12, 0.95}, {10, 0.1}, {6, 1.0 / 6}}
}

// ---- running on the implementation ------------------------------------------------------

type obsT struct {
	HasLists bool           `json:"has_lists"`
	Filter   []int          `json:"filter"`
	Half     []int          `json:"half"`
	Obj      int            `json:"obj"`
	Now      uint64         `json:"now"`
	Before   map[int]int32  `json:"-"`
	Nodes    map[int]int32  `json:"nodes"`
	Status   map[int]bool   `json:"status"`
	Counts   map[int]uint32 `json:"counts"`
}

var (
	outChain   *base.SlotChain
	plainChain *base.SlotChain
	objIDs     = map[*base.EntryContext]int{}
)

func addrName(a int) string { return "n" + strconv.Itoa(a) }
func addrOf(s string) int {
	v, err := strconv.Atoi(strings.TrimPrefix(s, "n"))
	if err != nil {
		return -1
	}
	return v
}
func addrsOf(ss []string) []int {
	out := make([]int, 0, len(ss))
	for _, s := range ss {
		out = append(out, addrOf(s))
	}
	return out
}

func resName(id int) string { return "c20-" + strconv.Itoa(id) }

func objOf(ctx *base.EntryContext) int {
	if id, ok := objIDs[ctx]; ok {
		return id
	}
	id := len(objIDs) + 1
	objIDs[ctx] = id
	return id
}

func nodeStates(res string) map[int]int32 {
	m := map[int]int32{}
	for k, v := range outlier.VerifNodeStates(res) {
		m[addrOf(k)] = v
	}
	return m
}

func runCase(c caseT, clk *vclock.Clock) []obsT {
	res := resName(c.ID)
	// a fresh rule object (and a fresh circuit-breaker part) per load; gen > 0 changes only fields that
	// neither the node breakers nor the slot's decisions depend on
	curPct := c.Rule.Pct
	curThr, curMin := c.Rule.Thr, c.Rule.MinReq
	mkRule := func(gen int) *outlier.Rule {
		ru := &outlier.Rule{
			Rule: &circuitbreaker.Rule{Resource: res, Strategy: circuitbreaker.Strategy(c.Rule.Strategy), RetryTimeoutMs: c.Rule.RetryMs,
				MinRequestAmount: curMin, StatIntervalMs: c.Rule.StatMs, MaxAllowedRtMs: c.Rule.MaxRt, Threshold: curThr, ProbeNum: c.Rule.ProbeNum},
			EnableActiveRecovery: c.Rule.Active,
			MaxEjectionPercent:   curPct,
			MaxRecoveryAttempts:  3,
		}
		if c.Rule.Active {
			ru.RecoveryCheckFunc = func(string) bool { return false }
		}
		if gen > 0 {
			ru.MaxRecoveryAttempts = 3 + uint32(gen)
			ru.RecoveryIntervalMs = 1000 * uint32(gen)
			ru.RecycleIntervalS = 600 + uint32(gen)
		}
		return ru
	}
	gen := 0
	// one rule per case; the rule map is replaced, so earlier cases' resources lose theirs
	if _, err := outlier.LoadRules([]*outlier.Rule{mkRule(0)}); err != nil {
		panic(err)
	}
	outlier.VerifInstall(res, 10*365*24*time.Hour)
	// a timer belongs to the recycler / retryer object that armed it: remember, per node, the object
	// whose map gained the node, and fire the callbacks on that object
	recOf := map[int]*outlier.Recycler{}
	retOf := map[int]*outlier.Retryer{}
	track := func() {
		cur := outlier.VerifRecyclerOf(res)
		for k := range outlier.VerifRecyclerStatus(res) {
			a := addrOf(k)
			if h := recOf[a]; h == nil || !h.VerifHasTimer(k) {
				recOf[a] = cur
			}
		}
		curT := outlier.VerifRetryerOf(res)
		for k := range outlier.VerifRetryerCounts(res) {
			a := addrOf(k)
			if h := retOf[a]; h == nil || !h.VerifHasTimer(k) {
				retOf[a] = curT
			}
		}
	}
	retryerFor := func(a int) *outlier.Retryer {
		if h := retOf[a]; h != nil && h.VerifHasTimer(addrName(a)) {
			return h
		}
		return outlier.VerifRetryerOf(res)
	}
	clk.SetMs(startMs)
	var ents [2]*base.SentinelEntry
	var kinds [2]string
	obs := make([]obsT, 0, len(c.Ops))
	for _, o := range c.Ops {
		clk.AddMs(o.Dt)
		ob := obsT{Now: clk.CurrentTimeMillis(), Before: nodeStates(res)}
		switch o.Kind {
		case "enter", "skip-plain", "skip-empty":
			var e *base.SentinelEntry
			var b *base.BlockError
			switch o.Kind {
			case "enter":
				e, b = sentinel.Entry(res, sentinel.WithSlotChain(outChain), sentinel.WithTrafficType(base.Outbound))
			case "skip-plain":
				e, b = sentinel.Entry(res+"-plain", sentinel.WithSlotChain(plainChain))
			default:
				e, b = sentinel.Entry("", sentinel.WithSlotChain(outChain))
			}
			if b != nil || e == nil {
				panic("request blocked on a chain that holds no blocking slot")
			}
			outlier.VerifSync()
			ents[o.Slot], kinds[o.Slot] = e, o.Kind
			ob.HasLists = true
			ob.Filter = addrsOf(e.Context().FilterNodes())
			ob.Half = addrsOf(e.Context().HalfOpenNodes())
			ob.Obj = objOf(e.Context())
		case "exit":
			e := ents[o.Slot]
			if e == nil {
				panic("generator: exit of an empty slot")
			}
			ob.Obj = objOf(e.Context())
			if kinds[o.Slot] == "enter" {
				if o.Addr > 0 {
					sentinel.TraceCallee(e, addrName(o.Addr))
				}
				if o.Err {
					sentinel.TraceError(e, errors.New("callee failed"))
				}
			}
			e.Exit()
			ents[o.Slot] = nil
		case "fire":
			if h := recOf[o.Addr]; h != nil && h.VerifHasTimer(addrName(o.Addr)) {
				h.VerifRecycle(addrName(o.Addr))
			} else {
				outlier.VerifRecyclerOf(res).VerifRecycle(addrName(o.Addr)) // no timer armed: a no-op
			}
			delete(recOf, o.Addr)
		case "conn":
			retryerFor(o.Addr).VerifConnected(addrName(o.Addr), o.Rt)
		case "disc":
			retryerFor(o.Addr).VerifDisconnected(addrName(o.Addr))
		case "reload":
			g := 0
			if o.Var >= 6 {
				curThr, curMin = o.Thr, o.MinReq // only the embedded circuit breaker rule changes
				g = gen
			} else if o.Var >= 4 {
				curPct = o.Pct // only the percentage changes
				g = gen
			} else if o.Var >= 2 {
				gen++
				g = gen
			} else {
				g = gen // identical to the rule in force
			}
			var err error
			if o.Var%2 == 0 {
				_, err = outlier.LoadRuleOfResource(res, mkRule(g))
			} else {
				_, err = outlier.LoadRules([]*outlier.Rule{mkRule(g)})
			}
			if err != nil {
				panic(err)
			}
			outlier.VerifInstall(res, 10*365*24*time.Hour) // objects created from now on: no real timer either
		}
		track()
		ob.Nodes = nodeStates(res)
		ob.Status = map[int]bool{}
		for k, v := range outlier.VerifRecyclerStatus(res) {
			ob.Status[addrOf(k)] = v
		}
		ob.Counts = map[int]uint32{}
		for k, v := range outlier.VerifRetryerCounts(res) {
			ob.Counts[addrOf(k)] = v
		}
		obs = append(obs, ob)
	}
	return obs
}

// runCaseSafe: a panic of the code under test (or of the runner on an impossible observation) is
// reported by the caller as a monitor failure with the case as input, never as a harness crash
func runCaseSafe(c caseT, clk *vclock.Clock) (obs []obsT, panicked string) {
	defer func() {
		if p := recover(); p != nil {
			panicked = fmt.Sprint(p)
		}
	}()
	return runCase(c, clk), ""
}

// ---- monitor: the property stated on the implementation's trace ---------------------------

// exactFloor returns floor(n * pct) computed exactly, and whether the correctly rounded
// float64 product equals the next integer (the rounding lifts the product across it).
func exactFloor(n int, pct float64) (fl int64, roundsUp bool) {
	x := new(big.Float).SetPrec(300).SetFloat64(pct)
	x.Mul(x, new(big.Float).SetPrec(300).SetInt64(int64(n)))
	i, _ := x.Int(nil)
	fl = i.Int64()
	f, _ := x.Float64() // to nearest even
	roundsUp = f == float64(fl+1)
	return
}

const (
	sigRoundUp = "ejection-limit-float-product-rounds-up-to-next-integer"
)

// the recorded finding is reported a few times per run only, so that it cannot crowd other
// failures out of the (bounded) failure list
var roundUpReported int

type monStats struct {
	nonEmptyFilter, cut, half, recycled, keptAfterSuccess, skipReq, knownFinding bool
}

func sortedKeys(m map[int]int32) []int {
	ks := make([]int, 0, len(m))
	for k := range m {
		ks = append(ks, k)
	}
	sort.Ints(ks)
	return ks
}

func monitor(c caseT, obs []obsT, rep *emit.Report) (st monStats) {
	retry := uint64(c.Rule.RetryMs)
	known := map[int]bool{}    // ledger: addresses with a node breaker
	openAt := map[int]uint64{} // clock at which the node was last seen to become Open
	sched := map[int]bool{}    // scheduled for recycling -> completed successfully since
	kinds := [2]string{"", ""}
	curPct, curBits := c.Rule.Pct, c.Rule.PctBits // the percentage of the rule loaded last
	relaxed := false                              // the breaker rule loaded last cannot be reached by any node
	fail := func(clause, sig, detail string) { rep.Fail(c.ID, clause, sig, detail, c) }
	for i, o := range c.Ops {
		ob := obs[i]
		// the ledger of known nodes must agree with the implementation before every op
		if len(ob.Before) != len(known) {
			fail("C20_nodes", "node-set-differs-from-ledger", fmt.Sprintf("op %d: implementation knows %v, ledger %v", i, sortedKeys(ob.Before), known))
			return
		}
		switch o.Kind {
		case "enter":
			kinds[o.Slot] = "enter"
			if relaxed && (len(ob.Filter) > 0 || len(ob.Half) > 0) {
				fail("C20_filter_subset_rejecting", "node-filtered-by-breaker-of-replaced-rule",
					fmt.Sprintf("op %d: the embedded circuit breaker rule was replaced by one no node can trip (every node has a breaker of the rule in force, none rejects), yet the request reported filter=%v half-open=%v", i, ob.Filter, ob.Half))
				return
			}
			rejecting := map[int]bool{}
			probing := map[int]bool{}
			for a, s := range ob.Before {
				switch s {
				case 2: // Open
					if ob.Now < openAt[a]+retry {
						rejecting[a] = true
					} else {
						probing[a] = true // this request turns it half-open and is its probe
					}
				case 1: // HalfOpen
					if c.Rule.ProbeNum == 0 {
						rejecting[a] = true
					} else {
						probing[a] = true
					}
				}
			}
			seen := map[int]bool{}
			for _, a := range ob.Filter {
				if seen[a] {
					fail("C20_filter_subset_rejecting", "duplicate-node-in-filter", fmt.Sprintf("op %d: filter %v", i, ob.Filter))
					return
				}
				seen[a] = true
				if !rejecting[a] {
					fail("C20_filter_subset_rejecting", "filtered-node-does-not-reject", fmt.Sprintf("op %d: node %d filtered, breaker state before the request %d (known=%v), now=%d openAt=%d", i, a, ob.Before[a], ob.Before, ob.Now, openAt[a]))
					return
				}
				if s, ok := ob.Nodes[a]; !ok || !(s == 2 || (s == 1 && c.Rule.ProbeNum == 0)) {
					fail("C20_filter_subset_rejecting", "filtered-node-not-rejecting-after-check", fmt.Sprintf("op %d: node %d filtered, breaker state after the request %d", i, a, s))
					return
				}
			}
			n := len(known)
			fl, up := exactFloor(n, curPct)
			if int64(len(ob.Filter)) > fl {
				if up && int64(len(ob.Filter)) == fl+1 {
					st.knownFinding = true
					roundUpReported++
					if roundUpReported <= 5 {
						fail("C20_filter_bound", sigRoundUp, fmt.Sprintf("op %d: %d nodes filtered of %d known, MaxEjectionPercent=%v (bits %s): floor(n*pct)=%d but float64(n)*pct rounds up to %d", i, len(ob.Filter), n, curPct, curBits, fl, fl+1))
					}
				} else {
					fail("C20_filter_bound", "filter-exceeds-floor-of-share", fmt.Sprintf("op %d: %d nodes filtered of %d known, MaxEjectionPercent=%v (bits %s, the rule loaded last): floor(n*pct)=%d", i, len(ob.Filter), n, curPct, curBits, fl))
					return
				}
			}
			if len(ob.Filter) > n {
				fail("C20_filter_bound", "filter-exceeds-node-count", fmt.Sprintf("op %d: %d filtered of %d", i, len(ob.Filter), n))
				return
			}
			// half-open list: exactly the nodes this request probes, in passive mode
			wantHalf := map[int]bool{}
			if !c.Rule.Active {
				wantHalf = probing
			}
			gotHalf := map[int]bool{}
			for _, a := range ob.Half {
				gotHalf[a] = true
			}
			if len(gotHalf) != len(ob.Half) || len(gotHalf) != len(wantHalf) {
				fail("C20_half_open_exact", "half-open-list-differs-from-probed-nodes", fmt.Sprintf("op %d: reported %v, probed %v", i, ob.Half, wantHalf))
				return
			}
			for a := range wantHalf {
				if !gotHalf[a] || ob.Nodes[a] != 1 {
					fail("C20_half_open_exact", "half-open-list-differs-from-probed-nodes", fmt.Sprintf("op %d: reported %v, probed %v, state of %d after = %d", i, ob.Half, wantHalf, a, ob.Nodes[a]))
					return
				}
			}
			for a := range rejecting {
				if _, ok := sched[a]; !ok {
					sched[a] = false
				}
			}
			if len(ob.Filter) > 0 {
				st.nonEmptyFilter = true
			}
			if len(rejecting) > len(ob.Filter) {
				st.cut = true
			}
			if len(ob.Half) > 0 {
				st.half = true
			}
		case "skip-plain", "skip-empty":
			kinds[o.Slot] = "skip"
			st.skipReq = true
			if len(ob.Filter) != 0 || len(ob.Half) != 0 {
				fail("C20_filter_subset_rejecting", "stale-node-lists-on-request-without-outlier-check", fmt.Sprintf("op %d (%s): filter=%v half=%v", i, o.Kind, ob.Filter, ob.Half))
				return
			}
		case "exit":
			if kinds[o.Slot] == "enter" && o.Addr > 0 {
				known[o.Addr] = true
				if !o.Err {
					if _, ok := sched[o.Addr]; ok {
						sched[o.Addr] = true
					}
				}
			}
			kinds[o.Slot] = ""
		case "reload":
			if o.Var >= 6 {
				relaxed = o.Thr >= 500 || o.MinReq >= 500
			} else if o.Var >= 4 {
				curPct, curBits = o.Pct, o.PctBits
			}
		case "conn":
			if _, ok := sched[o.Addr]; ok {
				sched[o.Addr] = true
			}
		case "fire":
			if succ, ok := sched[o.Addr]; ok {
				if succ {
					if _, still := ob.Nodes[o.Addr]; known[o.Addr] && !still {
						fail("C20_success_not_recycled", "node-recycled-after-successful-completion", fmt.Sprintf("op %d: node %d completed a request successfully after it was scheduled, yet the timer removed its breaker", i, o.Addr))
						return
					}
					st.keptAfterSuccess = true
				} else {
					if known[o.Addr] {
						st.recycled = true
					}
					delete(known, o.Addr)
				}
				delete(sched, o.Addr)
			}
		}
		// track Open transitions from the observed states
		for a, s := range ob.Nodes {
			if s == 2 && ob.Before[a] != 2 {
				openAt[a] = ob.Now
			}
		}
		if len(ob.Nodes) != len(known) {
			fail("C20_nodes", "node-set-differs-from-ledger", fmt.Sprintf("after op %d (%s): implementation knows %v, ledger %v", i, o.Kind, sortedKeys(ob.Nodes), known))
			return
		}
	}
	return
}

// ---- Coq printer ---------------------------------------------------------------------------

func coqRule(r ruleT) string {
	return fmt.Sprintf("(mkOR (mkBR %d %d %d %d %d %s %d) %s %s)", r.Strategy, r.RetryMs, r.MinReq, r.StatMs, r.MaxRt, emit.F(r.Thr), r.ProbeNum, emit.B(r.Active), emit.F(r.Pct))
}

func intsZ(xs []int) string {
	it := make([]string, len(xs))
	for i, x := range xs {
		it[i] = emit.Z(int64(x))
	}
	return emit.List(it)
}

func coqCase(c caseT, obs []obsT) string {
	var ops, os_ []string
	var slotObj [2]int
	for i, o := range c.Ops {
		ob := obs[i]
		switch o.Kind {
		case "enter":
			// an iteration order consistent with the observation: the filtered nodes in the
			// order they were reported, then every other known node
			order := append([]int{}, ob.Filter...)
			inF := map[int]bool{}
			for _, a := range ob.Filter {
				inF[a] = true
			}
			for _, a := range sortedKeys(ob.Before) {
				if !inF[a] {
					order = append(order, a)
				}
			}
			ops = append(ops, fmt.Sprintf("Enter %d true %d %s", ob.Obj, ob.Now, intsZ(order)))
			slotObj[o.Slot] = ob.Obj
		case "skip-plain", "skip-empty":
			ops = append(ops, fmt.Sprintf("Enter %d false %d []", ob.Obj, ob.Now))
			slotObj[o.Slot] = ob.Obj
		case "exit":
			ops = append(ops, fmt.Sprintf("Exit %d %d %d %s", slotObj[o.Slot], ob.Now, o.Addr, emit.B(o.Err)))
		case "fire":
			ops = append(ops, fmt.Sprintf("Fire %d", o.Addr))
		case "conn":
			ops = append(ops, fmt.Sprintf("Connected %d %d %d", ob.Now, o.Addr, o.Rt))
		case "disc":
			ops = append(ops, fmt.Sprintf("Disconnected %d", o.Addr))
		case "reload":
			ops = append(ops, "Reload")
		}
		out := "ONone"
		if ob.HasLists {
			out = fmt.Sprintf("(OLists %s %s)", intsZ(ob.Filter), intsZ(ob.Half))
		}
		var ns, ss, cs []string
		for _, a := range sortedKeys(ob.Nodes) {
			ns = append(ns, emit.Tuple(emit.Z(int64(a)), emit.Z(int64(ob.Nodes[a]))))
		}
		sk := make([]int, 0)
		for a := range ob.Status {
			sk = append(sk, a)
		}
		sort.Ints(sk)
		for _, a := range sk {
			ss = append(ss, emit.Tuple(emit.Z(int64(a)), emit.B(ob.Status[a])))
		}
		ck := make([]int, 0)
		for a := range ob.Counts {
			ck = append(ck, a)
		}
		sort.Ints(ck)
		for _, a := range ck {
			cs = append(cs, emit.Tuple(emit.Z(int64(a)), emit.Z(int64(ob.Counts[a]))))
		}
		os_ = append(os_, fmt.Sprintf("mkO %s %s %s %s", out, emit.List(ns), emit.List(ss), emit.List(cs)))
	}
	return fmt.Sprintf("Hist %d %s\n %s\n %s", c.ID, coqRule(c.Rule), emit.List(ops), emit.List(os_))
}

// ---- main ----------------------------------------------------------------------------------

func main() {
	a := cli.Parse()
	env.Init(env.Options{})
	clk := vclock.New(startMs)
	clk.Install()
	outChain = base.NewSlotChain()
	outChain.AddRuleCheckSlot(outlier.DefaultSlot)
	outChain.AddStatSlot(outlier.DefaultMetricStatSlot)
	plainChain = base.NewSlotChain()

	root := rng.New(a.Seed)
	rep := emit.NewReport("C20", a.Seed, a.Tier)
	rep.Rule = "history cases: one outlier rule (3 breaker strategies, MaxEjectionPercent from k/20, simple fractions, random doubles; active recovery on/off), 1-12 callee addresses with healthy/flaky/dead failure classes, 16-60 operations (requests with up to two live at once, requests whose outlier check does not run, recycler timer firings, retryer outcomes) with clock steps on and around the retry timeout / statistic interval. pair cases: n nodes all ejected, then one measured request, for (n, pct) pairs. reload cases: k of n nodes ejected and scheduled, 0-2 rule reloads (identical rule or changed RecoveryIntervalMs / RecycleIntervalS / MaxRecoveryAttempts, through LoadRuleOfResource or LoadRules) before and after the successful completion (passive probe or retryer callback) of one of them, then the timers fire on the recycler object that armed them; random histories carry such reloads too (2 in 100 operations). pct-reload cases (monitor only): all n nodes ejected, a request measured, then 1-2 reloads whose only change is MaxEjectionPercent (one ulp down / up, 5e-9 or 1e-7 down, halved, another k/n), each followed by a measured request: the quota of the rule loaded last bounds the filter. Non-trivial = some request reported a non-empty filter list AND (a request had more rejecting nodes than it was allowed to filter, or reported a half-open node, or a timer recycled a node, or a node survived its timer because of a successful completion); distinct by full input."
	nCorr := a.Pick(a.N, 220, 3000)
	nMon := a.Pick(a.Mon, 2500, 30000)
	if a.Search {
		nCorr = 0
		nMon *= 5
	}
	var sh *emit.Shards
	if a.Only < 0 && !a.Search {
		var err error
		sh, err = emit.NewShards(a.Out, "Corr.Run_C20", a.Shards, "Open Scope Z_scope.")
		if err != nil {
			panic(err)
		}
	}
	dist := emit.NewDistinct()
	pairs := pairList(a.Tier)

	getCase := func(id int) caseT {
		if id >= brkBase {
			return genBrk(root.Fork(uint64(id)), id)
		}
		if id >= pctBase {
			return genPct(root.Fork(uint64(id)), id)
		}
		if id >= reloadBase {
			return genReload(root.Fork(uint64(id)), id)
		}
		if id >= pairBase && id < limBase {
			j := id - pairBase
			p := pairs[j%len(pairs)]
			return genPair(id, p.n, p.pct, j >= len(pairs))
		}
		return genHist(root.Fork(uint64(id)), id)
	}
	runOne := func(id int, corr bool) {
		c := getCase(id)
		obs, pmsg := runCaseSafe(c, clk)
		rep.Evaluations++
		if pmsg != "" {
			rep.Fail(c.ID, "C20_no_panic", "panic-while-running-the-case", pmsg, c)
			rep.Count("cases_panicked", 1)
			return
		}
		st := monitor(c, obs, rep)
		if st.nonEmptyFilter && (st.cut || st.half || st.recycled || st.keptAfterSuccess) {
			b, _ := json.Marshal(c)
			dist.Add(string(b))
		}
		rep.Count("cases_"+c.Class, 1)
		for i, o := range c.Ops {
			rep.Count("op_"+o.Kind, 1)
			if o.Kind == "enter" {
				rep.Count(fmt.Sprintf("check_filter_size_%02d", len(obs[i].Filter)), 1)
				if len(obs[i].Half) > 0 {
					rep.Count("check_with_half_open_nodes", 1)
				}
			}
		}
		for k, v := range map[string]bool{"case_nonempty_filter": st.nonEmptyFilter, "case_limit_cut": st.cut, "case_half_open": st.half,
			"case_recycled": st.recycled, "case_kept_after_success": st.keptAfterSuccess, "case_skip_request": st.skipReq,
			"case_known_finding_rounding": st.knownFinding, "case_active_recovery": c.Rule.Active} {
			if v {
				rep.Count(k, 1)
			}
		}
		rep.Count(fmt.Sprintf("strategy_%d", c.Rule.Strategy), 1)
		if corr && sh != nil {
			sh.Add(id, coqCase(c, obs))
			rep.CorrCases++
			rep.CaseInputs[strconv.Itoa(id)] = c
			if st.nonEmptyFilter && st.cut {
				rep.Sample(map[string]interface{}{"input": c, "observed": obs})
			}
		}
		if a.Only >= 0 {
			out, _ := json.MarshalIndent(map[string]interface{}{"input": c, "observed": obs, "coq": coqCase(c, obs)}, "", " ")
			fmt.Println(string(out))
		}
	}
	if a.Only >= 0 {
		if a.Only >= raceBase {
			raceLeg(3000, uint64(a.Seed), clk, rep)
		} else if a.Only < limBase || a.Only >= reloadBase {
			runOne(a.Only, false)
		}
		for _, f := range rep.MonitorFailures {
			fmt.Printf("MONITOR-FAIL clause=%s signature=%s %s\n", f.Clause, f.Signature, f.Detail)
		}
		return
	}
	for id := 0; id < nMon; id++ {
		runOne(id, id < nCorr)
	}
	// scripted reload histories (recycler / retryer bookkeeping across rule reloads)
	for j := 0; j < a.Pick(0, 40, 600); j++ {
		runOne(reloadBase+j, !a.Search)
	}
	// reloads that change only MaxEjectionPercent (monitor only)
	for j := 0; j < a.Pick(0, 60, 1500); j++ {
		runOne(pctBase+j, false)
	}
	// reloads that relax the embedded circuit breaker rule, through either load path (monitor only)
	for j := 0; j < a.Pick(0, 60, 1500); j++ {
		runOne(brkBase+j, false)
	}
	// (n, pct) pairs on the implementation, passive and active
	for j := 0; j < 2*len(pairs); j++ {
		runOne(pairBase+j, true)
	}
	// the limit expression itself, Go vs model, on a wide set of (n, pct)
	if sh != nil {
		id := limBase
		addLim := func(n int, p float64) {
			sh.Add(id, fmt.Sprintf("Lim %d %d %s %s", id, n, emit.F(p), emit.Z(int64(int(float64(n)*p)))))
			id++
			rep.CorrCases++
		}
		for n := 0; n <= 12; n++ {
			for k := 0; k <= 20; k++ {
				addLim(n, float64(k)/20)
			}
		}
		lr := root.Fork(987654321)
		nl := a.Pick(0, 300, 5000)
		for i := 0; i < nl; i++ {
			n := int(lr.PickI(1, 3, 7, 10, 100, 1000, 65536, 1<<31, 1<<40, int64(lr.Range(0, 5000))))
			var p float64
			switch lr.Intn(4) {
			case 0:
				d := 1 + lr.Intn(50)
				p = float64(lr.Intn(d+1)) / float64(d)
			case 1:
				p = float64(lr.U64()>>11) / (1 << 53)
			case 2:
				p = lr.PickF(0, 1, math.SmallestNonzeroFloat64, math.Nextafter(1, 0), math.NaN(), 0.5)
			default:
				p = float64(lr.Intn(n+1)) / float64(max(n, 1))
			}
			addLim(n, p)
		}
		rep.Count("limit_expression_pairs", id-limBase)
		sh.Add(id, fmt.Sprintf("Consts %d %d %d %d", id, circuitbreaker.Closed, circuitbreaker.HalfOpen, circuitbreaker.Open))
		rep.CorrCases++
	}
	// real-thread search leg (race.go): first ejection || first successful completion of fresh resources
	nRace := a.Pick(0, 3000, 20000)
	if a.Search {
		nRace *= 3
	}
	raceLeg(nRace, uint64(a.Seed), clk, rep)
	rep.DistinctNontrivial = dist.N()
	rep.Exhaustive = a.Tier == "thorough"
	rep.Consts["outlier.RuleCheckSlotOrder"] = outlier.RuleCheckSlotOrder
	rep.Consts["outlier.StatSlotOrder"] = outlier.StatSlotOrder
	rep.Consts["circuitbreaker.States"] = []int{int(circuitbreaker.Closed), int(circuitbreaker.HalfOpen), int(circuitbreaker.Open)}
	if a.Tier == "thorough" {
		rep.Notes = append(rep.Notes, "thorough: every (n <= 12, pct = k/20) pair run on the implementation with all n nodes ejected, passive and active recovery")
	}
	if sh != nil {
		rep.Shards = sh.Close()
	}
	if err := rep.Write(a.Out); err != nil {
		fmt.Fprintln(os.Stderr, err)
		os.Exit(2)
	}
}
