//go:build verif

package main

import (
	"errors"
	"fmt"
	"strconv"
	"sync"
	"time"

	sentinel "github.com/alibaba/sentinel-golang/api"
	"github.com/alibaba/sentinel-golang/core/base"
	"github.com/alibaba/sentinel-golang/core/circuitbreaker"
	"github.com/alibaba/sentinel-golang/core/outlier"

	"vh/internal/emit"
	"vh/internal/vclock"
)

// raceLeg: real-thread SEARCH leg over many fresh resources.  For each resource the FIRST ejection (a
// request whose outlier check finds node a rejecting; the recycler goroutine schedules a) runs in
// parallel with the FIRST successful completion of the resource (callee b), on two goroutines released
// together.  Then, sequentially: the retry timeout elapses on the virtual clock, a is probed and the
// probe succeeds.  After all resources the real recycle interval (2 s) is waited for once.
//
// Fact asserted (true under every schedule): a node that completed a request successfully after it
// was scheduled for recycling is never recycled - a is still a known node of its resource.  A
// resource whose steps took longer than half the recycle interval of real time (a stalled machine:
// the timer may legitimately have fired before the probe completed) is not judged.  Nothing here
// depends on timing to pass; the leg is bounded (n resources + one wait of 2.3 s).
var spinSink uint64

func raceLeg(n int, seed uint64, clk *vclock.Clock, rep *emit.Report) {
	const intervalS = 2
	const retryMs = 100
	type rec struct {
		res     string
		elapsed time.Duration
		halfOK  bool
	}
	names := make([]string, n)
	rules := make([]*outlier.Rule, n)
	for i := range names {
		names[i] = "c20-race-" + strconv.FormatUint(seed, 10) + "-" + strconv.Itoa(i)
		rules[i] = &outlier.Rule{
			Rule: &circuitbreaker.Rule{Resource: names[i], Strategy: circuitbreaker.ErrorCount, RetryTimeoutMs: retryMs,
				MinRequestAmount: 1, StatIntervalMs: 60000, Threshold: 1, ProbeNum: 1},
			MaxEjectionPercent: 1, MaxRecoveryAttempts: 3, RecycleIntervalS: intervalS,
		}
	}
	if _, err := outlier.LoadRules(rules); err != nil {
		rep.Fail(raceBase, "C20_no_panic", "load-failed-in-race-leg", err.Error(), map[string]interface{}{"resources": n})
		return
	}
	enter := func(res string) *base.SentinelEntry {
		e, b := sentinel.Entry(res, sentinel.WithSlotChain(outChain), sentinel.WithTrafficType(base.Outbound))
		if b != nil {
			return nil
		}
		return e
	}
	done := func(e *base.SentinelEntry, addr string, fail bool) {
		if e == nil {
			return
		}
		sentinel.TraceCallee(e, addr)
		if fail {
			sentinel.TraceError(e, errors.New("callee failed"))
		}
		e.Exit()
	}
	clk.SetMs(startMs)
	recs := make([]rec, 0, n)
	func() {
		defer func() {
			if p := recover(); p != nil {
				rep.Fail(raceBase, "C20_no_panic", "panic-in-race-leg", fmt.Sprint(p), map[string]interface{}{"resources": n, "seed": seed})
			}
		}()
		for _, res := range names {
			t0 := time.Now()
			eB := enter(res)            // will be the first successful completion (callee b)
			done(enter(res), "a", true) // a fails once: its breaker opens
			var wg sync.WaitGroup
			start := make(chan struct{})
			var eX *base.SentinelEntry
			wg.Add(2)
			go func() { defer wg.Done(); <-start; eX = enter(res) }() // first ejection: a is scheduled
			spin := (len(recs) % 97) * 40                             // sweep the alignment of the two first uses of the resource's recycler
			go func() {                                               // first success of the resource
				defer wg.Done()
				<-start
				for k := 0; k < spin; k++ {
					spinSink++
				}
				done(eB, "b", false)
			}()
			close(start)
			wg.Wait()
			outlier.VerifSync()
			clk.AddMs(retryMs)
			eP := enter(res) // probes a
			half := false
			if eP != nil {
				for _, a := range eP.Context().HalfOpenNodes() {
					half = half || a == "a"
				}
			}
			done(eP, "a", false) // the probe succeeds: a completed successfully after it was scheduled
			done(eX, "b", false)
			recs = append(recs, rec{res, time.Since(t0), half})
		}
	}()
	time.Sleep(intervalS*time.Second + 300*time.Millisecond)
	judged := 0
	for i, r := range recs {
		if r.elapsed > intervalS*time.Second/2 || !r.halfOK {
			continue
		}
		judged++
		if _, ok := outlier.VerifNodeStates(r.res)["a"]; !ok {
			rep.Fail(raceBase, "C20_success_not_recycled", "node-recycled-after-successful-completion-first-ejection-parallel-to-first-success",
				fmt.Sprintf("fresh resource %d of %d (%s): node a was ejected while the first successful completion of the resource ran on another goroutine; a was then probed and completed successfully, yet the recycle timer removed its breaker (known nodes now: %v)", i, n, r.res, outlier.VerifNodeStates(r.res)),
				map[string]interface{}{"leg": "first ejection parallel to first successful completion", "resources": n, "seed": seed, "resource_index": i})
			break
		}
	}
	rep.Count("race_leg_resources", len(recs))
	rep.Count("race_leg_resources_judged", judged)
	rep.Evaluations += len(recs)
}
