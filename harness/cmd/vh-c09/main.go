//go:build verif

// vh-c09: correspondence + monitor harness for property C09 (sliding-window counters under
// concurrent writers and rollover). Goroutines run addCountWithTime / CountWithTime of a real
// BucketLeapArray under the deterministic scheduler; every release of a goroutine is one model
// step (yield ids 100-127, 100 being the harness-side yield before the clock read).
package main

import (
	"encoding/json"
	"fmt"
	"os"
	"path/filepath"
	"sort"
	"strconv"
	"strings"
	"time"

	sbase "github.com/alibaba/sentinel-golang/core/base"
	stat "github.com/alibaba/sentinel-golang/core/stat/base"
	"github.com/alibaba/sentinel-golang/util/vhook"

	"vh/internal/cli"
	"vh/internal/emit"
	"vh/internal/rng"
	"vh/internal/sched"
)

type opT struct {
	Kind string `json:"kind"` // rec | read
	Ev   int    `json:"ev"`
	Amt  int64  `json:"amt,omitempty"`
}

// evT is one schedule event: Tid >= 0 releases that goroutine once; Tid < 0 advances the clock by Dt.
type evT struct {
	Tid int   `json:"tid"`
	Dt  int64 `json:"dt,omitempty"`
}

type caseT struct {
	ID      int     `json:"id"`
	N       int     `json:"n"`
	BL      int64   `json:"bl"`
	T0      int64   `json:"t0"`
	Created int64   `json:"created,omitempty"` // creation time of the array when it differs from T0 (the clock starts at T0): late cases, monitor only
	Progs   [][]opT `json:"progs"`
	// Setup is executed first: Tid >= 0 means "run that goroutine until it is done"; Tid < 0 a tick.
	Setup []evT `json:"setup,omitempty"`
	// Script (if non-nil) is then executed literally; afterwards the chooser takes over.
	Script []evT   `json:"script,omitempty"`
	Ticks  []int64 `json:"ticks,omitempty"` // ticks available to the chooser, in order
	Mode   string  `json:"mode"`            // random | script | enum
	Fine   bool    `json:"fine,omitempty"`  // enum: every yield is a scheduling point (no merging of invisible steps)
	Note   string  `json:"note,omitempty"`
}

// ---------------------------------------------------------------------------------------------
// execution on the implementation

type addL struct { // ledger entry: an executed atomic add
	Tid, Ev   int
	Op        int // index of the record operation in the goroutine's program
	Amt       int64
	Now       int64 // the recorder's timestamp
	At        int   // event index at which the add executed
	SlotStart int64 // BucketStart of the slot the recorder's timestamp selects, at the moment of the add
	Credited  bool  // the selected slot's counter grew by Amt in that step
}

type readL struct {
	Tid, Ev     int
	Now, Ret    int64
	At          int
	DuringReset bool // one of its counter loads happened while another goroutine was inside reset()
}

type traceT struct {
	Sched    []evT
	Labels   []int64
	Rets     [][]int64
	Final    [][]int64
	Adds     []addL
	Reads    []readL
	Stalled  bool   // some operation spanned more than one bucket length of clock
	Overlap  bool   // a recorder was active on a slot while another goroutine was rolling that slot over
	Spin     int    // failed TryLocks
	SpinBad  bool   // a TryLock failed although no goroutine was inside the critical section
	NonTerm  string // why an operation cannot terminate (set together with SpinBad)
	MutexBad bool   // a goroutine entered the critical section while another one was inside it
	Resets   int
	Behind   int
	Clock    int64
	Steps    int
	Timeout  bool
	// SchedTimeout: a released goroutine neither parked nor finished within the scheduler's wall-clock limit
	// (machine overload, or a goroutine blocked on something that is not a yield). The run is abandoned and the
	// case is executed again from scratch; only a repeated timeout is reported.
	SchedTimeout bool
	Post         []int64 // sequential CountWithTime(clock, k) after the schedule, k = 0..4
	intervalObs  int64
	maxActive    int
	// enumeration support: alternatives that were enabled at each position of Sched
	Alts [][]evT
}

type thr struct {
	at          int
	op          int
	now         int64
	active      bool
	zeroed      int // number of 111 yields passed inside the current reset
	inCS        bool
	rolling     bool // decided to roll the slot over (parked at 103 or inside the critical section)
	futile      int
	duringReset bool
}

const (
	lblBegin = 100
)

type runner struct {
	c      caseT
	arr    *stat.BucketLeapArray
	s      *sched.S
	clk    int64
	th     []*thr
	rets   [][]int64
	tr     *traceT
	holder int
	dead   bool // abandoned after a scheduler timeout: no further goroutine is released
}

func (r *runner) idx(now int64) int  { return int((now / r.c.BL) % int64(r.c.N)) }
func (r *runner) bs(now int64) int64 { return now - now%r.c.BL }
func (r *runner) interval() int64    { return int64(r.c.N) * r.c.BL }
func (r *runner) done(i int) bool    { return r.s.IsDone(i) }
func (r *runner) allDone() bool {
	for i := range r.th {
		if !r.done(i) {
			return false
		}
	}
	return true
}

func newRunner(c caseT) *runner {
	r := &runner{c: c, clk: c.T0, tr: &traceT{}, holder: -1}
	created := c.T0
	if c.Created != 0 {
		created = c.Created
	}
	r.arr = stat.NewBucketLeapArrayWithTime(uint32(c.N), uint32(int64(c.N)*c.BL), uint64(created))
	r.s = sched.New(func(id int) bool { return id >= 100 && id <= 127 })
	r.rets = make([][]int64, len(c.Progs))
	for i := range c.Progs {
		i := i
		r.rets[i] = []int64{}
		r.th = append(r.th, &thr{})
		r.s.Spawn(func() {
			for _, o := range c.Progs[i] {
				vhook.Yield(lblBegin)
				now := uint64(r.clk)
				if o.Kind == "rec" {
					r.arr.VerifAddCountWithTime(now, sbase.MetricEvent(o.Ev), o.Amt)
				} else {
					v := r.arr.CountWithTime(now, sbase.MetricEvent(o.Ev))
					r.rets[i] = append(r.rets[i], v)
				}
			}
		})
	}
	// bring every goroutine to its first yield (100) or to completion; no shared access happens here
	for i := range c.Progs {
		l := r.s.Step(i)
		r.th[i].at = l
	}
	return r
}

func (r *runner) close() { r.s.Close() }

func (r *runner) checkStall() {
	na := 0
	for _, t := range r.th {
		if t.active {
			na++
		}
	}
	if na > r.tr.maxActive {
		r.tr.maxActive = na
	}
	for _, t := range r.th {
		if t.active && r.clk-t.now > r.c.BL {
			r.tr.Stalled = true
		}
	}
	// overlap: a goroutine is rolling a slot over while a different goroutine has a record operation in progress on it
	for i, t := range r.th {
		if !t.rolling {
			continue
		}
		for j, u := range r.th {
			if i == j || !u.active || r.c.Progs[j][u.op].Kind != "rec" {
				continue
			}
			if r.idx(u.now) == r.idx(t.now) {
				r.tr.Overlap = true
			}
		}
	}
}

func (r *runner) tick(dt int64) {
	if dt < 0 {
		dt = 0
	}
	r.clk += dt
	r.tr.Sched = append(r.tr.Sched, evT{Tid: -1, Dt: dt})
	r.tr.Alts = append(r.tr.Alts, nil)
	r.checkStall()
}

func inCSLabel(l int) bool { return l == 110 || l == 111 || l == 112 || l == 113 || l == 104 }

// release goroutine i once (one model step)
func (r *runner) run(i int) int {
	t := r.th[i]
	at := t.at
	pos := len(r.tr.Sched)
	var before [][]int64
	if at == 120 {
		before = r.arr.VerifSlots()
	}
	if at == lblBegin {
		t.now = r.clk
		t.active = true
		t.zeroed = 0
	}
	if at == 121 {
		for j, u := range r.th {
			if j != i && (u.at == 111 || u.at == 112 || u.at == 113) {
				_ = j
				t.duringReset = true // remembered on the read that is in progress
			}
		}
	}
	nretsBefore := len(r.rets[i])
	l := r.s.Step(i)
	if l == -2 {
		r.tr.Timeout, r.tr.SchedTimeout, r.dead = true, true, true
		return sched.Done
	}
	r.tr.Sched = append(r.tr.Sched, evT{Tid: i})
	r.tr.Alts = append(r.tr.Alts, nil)
	r.tr.Labels = append(r.tr.Labels, int64(l))
	r.tr.Steps++
	t.at = l
	switch {
	case at == 103 && inCSLabel(l):
		for j, u := range r.th {
			if j != i && u.inCS {
				r.tr.MutexBad = true
			}
		}
		t.inCS, t.rolling = true, true
		t.zeroed = 0
		r.holder = i
		r.tr.Resets++
	case at == 103 && l == 101: // TryLock failed: back to the head of the spin loop
		r.tr.Spin++
		t.futile++
		t.rolling = false
		ok := false
		for j, u := range r.th {
			if j != i && u.inCS {
				ok = true
			}
		}
		if !ok {
			// Nobody is inside the critical section, yet the lock word is set: it will never be released, so
			// this and every further attempt fails the same way (a spin iteration is futile only while the
			// lock holder has a step enabled - C09_termination). The operation cannot terminate; the schedule
			// executed so far is the failing input. Stop here instead of spinning up to the step limit.
			r.tr.SpinBad = true
			r.tr.NonTerm = fmt.Sprintf("goroutine %d (operation %d, timestamp %d): TryLock failed at event %d while no goroutine was inside the critical section", i, t.op, t.now, pos)
			r.dead = true
		}
	case at == 103: // left the rollover path without entering the critical section and without retrying
		t.rolling = false
	case at == 104:
		t.inCS, t.rolling = false, false
		r.holder = -1
	case at == 111:
		t.zeroed++
	}
	if l == 103 {
		t.rolling = true
	}
	if at == 120 {
		o := r.c.Progs[i][t.op]
		after := r.arr.VerifSlots()
		k := r.idx(t.now)
		r.tr.Adds = append(r.tr.Adds, addL{Tid: i, Op: t.op, Ev: o.Ev, Amt: o.Amt, Now: t.now, At: pos,
			SlotStart: before[k][0], Credited: after[k][1+o.Ev]-before[k][1+o.Ev] == o.Amt})
	}
	// operation finished?
	if at != lblBegin || l == lblBegin || l == sched.Done {
		if (l == lblBegin || l == sched.Done) && t.active {
			o := r.c.Progs[i][t.op]
			if o.Kind == "read" {
				if len(r.rets[i]) != nretsBefore+1 {
					panic("read finished without a return value")
				}
				r.tr.Reads = append(r.tr.Reads, readL{Tid: i, Ev: o.Ev, Now: t.now, Ret: r.rets[i][nretsBefore], At: pos, DuringReset: t.duringReset})
			} else if at != 120 && at != 122 && at != 123 {
				r.tr.Behind++ // a record operation that ended without reaching the add
			}
			t.duringReset = false
			t.active = false
			t.op++
		}
	}
	r.checkStall()
	return l
}

func (r *runner) finish() {
	r.tr.Rets = r.rets
	r.tr.Final = r.arr.VerifSlots()
	r.tr.Clock = r.clk
	r.tr.intervalObs = int64(r.arr.IntervalInMs())
	if int64(r.arr.BucketLengthInMs()) != r.c.BL || int(r.arr.SampleCount()) != r.c.N {
		panic("geometry of the Go object differs from the case")
	}
	// the sequential read after the schedule; skipped when a goroutine is still parked (it may hold the
	// try-lock, on which an unmanaged reader would spin forever)
	if !r.dead && r.allDone() {
		r.postReads()
	}
}

// postReads runs CountWithTime(clock, k), k = 0..4, on a managed goroutine that is alone: every operation has
// finished, so nobody can hold the try-lock and every step is useful. The model's variant bounds a read by
// 17 + 3*sampleCount steps (prog cost of one read); a failed TryLock here means the lock was leaked.
func (r *runner) postReads() {
	var post []int64
	idx := r.s.Spawn(func() {
		for k := 0; k < int(sbase.MetricEventTotal); k++ {
			post = append(post, r.arr.CountWithTime(uint64(r.clk), sbase.MetricEvent(k)))
		}
	})
	bound := int(sbase.MetricEventTotal) * (17 + 3*r.c.N + 8)
	at := sched.Start
	for n := 0; !r.s.IsDone(idx); n++ {
		prev := at
		at = r.s.Step(idx)
		if at == -2 {
			r.tr.Timeout, r.tr.SchedTimeout, r.dead = true, true, true
			return
		}
		if (prev == 103 && at == 101) || n > bound {
			r.tr.SpinBad = true
			r.tr.NonTerm = fmt.Sprintf("sequential CountWithTime(%d, event %d) after the schedule: TryLock failed although every goroutine had finished (%d steps)", r.clk, len(post), n)
			r.dead = true
			return
		}
	}
	r.tr.Post = post
}

// visible reports whether parking point l of goroutine i is a scheduling point of the reduced
// enumeration: pointer loads of immutable slots (101, 105), stores to counters no operation of
// the case reads or adds to, and the clock read when no tick is left commute with every step of
// every other goroutine and are merged into the next step.
func (r *runner) visible(i int, ticksLeft int, kinds map[int]bool) bool {
	if r.c.Fine {
		return true
	}
	t := r.th[i]
	switch t.at {
	case lblBegin:
		return ticksLeft > 0
	case 101, 105, 113:
		return false
	case 111:
		return kinds[t.zeroed]
	case 112:
		return kinds[int(sbase.MetricEventRt)]
	}
	return true
}

const maxSteps = 4000

// chooser decides the next event; return (ev, false) to stop.
type chooser func(r *runner, enabled []evT) (evT, bool)

func execute(c caseT, ch chooser) *traceT {
	r := newRunner(c)
	defer r.close()
	kinds := map[int]bool{}
	for _, p := range c.Progs {
		for _, o := range p {
			kinds[o.Ev] = true
		}
	}
	for _, e := range c.Setup {
		if e.Tid < 0 {
			r.tick(e.Dt)
			continue
		}
		for !r.dead && !r.done(e.Tid) && r.tr.Steps < maxSteps {
			r.run(e.Tid)
		}
	}
	for _, e := range c.Script {
		if r.dead {
			break
		}
		if e.Tid < 0 {
			r.tick(e.Dt)
		} else {
			r.run(e.Tid)
		}
	}
	ticks := append([]int64{}, c.Ticks...)
	for !r.dead && !r.allDone() && r.tr.Steps < maxSteps {
		if ch == nil {
			break
		}
		var en []evT
		for i := range r.th {
			if r.done(i) {
				continue
			}
			t := r.th[i]
			if t.at == 103 && r.holder >= 0 && r.holder != i && t.futile >= 1 && c.Mode == "enum" {
				continue // a second futile TryLock leaves the state unchanged: not enumerated
			}
			en = append(en, evT{Tid: i})
		}
		if len(ticks) > 0 {
			en = append(en, evT{Tid: -1, Dt: ticks[0]})
		}
		if len(en) == 0 {
			break
		}
		e, ok := ch(r, en)
		if !ok {
			break
		}
		pos := len(r.tr.Sched)
		if e.Tid < 0 {
			r.tick(e.Dt)
			ticks = ticks[1:]
		} else {
			r.stepMerged(e.Tid, len(ticks), kinds)
		}
		r.tr.Alts[pos] = en
	}
	// anything left (script cases that stop early): drain deterministically
	for i := range r.th {
		for !r.dead && !r.done(i) && r.tr.Steps < maxSteps {
			r.run(i)
		}
	}
	if !r.allDone() {
		r.tr.Timeout = true
	}
	r.finish()
	return r.tr
}

// stepMerged releases goroutine i once and then through its invisible parking points.
func (r *runner) stepMerged(i int, ticksLeft int, kinds map[int]bool) {
	for {
		r.run(i)
		if r.dead || r.done(i) || r.visible(i, ticksLeft, kinds) || r.tr.Steps >= maxSteps {
			return
		}
	}
}

// ---------------------------------------------------------------------------------------------
// monitor: the property stated on the implementation's trace (own ledger, no model)

func monitor(c caseT, tr *traceT, rep *emit.Report) {
	fail := func(clause, sig, detail string) { rep.Fail(c.ID, clause, sig, detail, c) }
	bs := func(now int64) int64 { return now - now%c.BL }
	interval := int64(c.N) * c.BL
	if tr.SpinBad {
		fail("termination", "operation-does-not-terminate-lock-never-released", tr.NonTerm+": the update lock is held by nobody who could release it, so the operation spins forever (schedule up to this event = failing input)")
		return
	}
	if tr.Timeout {
		fail("termination", "schedule-did-not-complete", fmt.Sprintf("%d steps without all goroutines finishing", tr.Steps))
		return
	}
	if tr.MutexBad {
		fail("mutual_exclusion", "two-goroutines-inside-reset", "a goroutine entered ResetBucketTo while another goroutine was inside it (updateLock does not serialise resets)")
	}
	// no invention: every returned total <= sum of the amounts whose add had executed
	for _, rd := range tr.Reads {
		var all, vis int64
		for _, a := range tr.Adds {
			if a.Ev == rd.Ev && a.At < rd.At {
				all += a.Amt
				if bs(a.Now) >= bs(rd.Now)+c.BL-interval {
					vis += a.Amt
				}
			}
		}
		if rd.Ret > all {
			fail("no_invention", "total-exceeds-recorded", fmt.Sprintf("goroutine %d read %d of event %d at %d but only %d had been added", rd.Tid, rd.Ret, rd.Ev, rd.Now, all))
		} else if c.N > 1 && !tr.Stalled && rd.Ret > vis {
			sig := "expired-bucket-visible"
			if rd.DuringReset {
				sig = "expired-visible-reader-between-start-store-and-zeroing"
			}
			fail("expired_invisible", sig, fmt.Sprintf("goroutine %d read %d of event %d at %d; amounts recorded in its window or later: %d (recorded in total: %d)", rd.Tid, rd.Ret, rd.Ev, rd.Now, vis, all))
		}
	}
	// no update duplicated: one record operation executes its atomic add once (the ledger below is built
	// from the executed adds, so a second add of the same operation would otherwise count as "recorded")
	seenAdd := map[[2]int]bool{}
	for _, a := range tr.Adds {
		k := [2]int{a.Tid, a.Op}
		if seenAdd[k] {
			fail("no_invention", "update-duplicated", fmt.Sprintf("goroutine %d: its record operation %d (amount %d of event %d, timestamp %d) executed its atomic add twice", a.Tid, a.Op, a.Amt, a.Ev, a.Now))
			break
		}
		seenAdd[k] = true
	}
	// right bucket: with more than one bucket an amount goes to the slot whose start is the recorder's own bucket start
	for _, a := range tr.Adds {
		if !a.Credited {
			fail("no_invention", "add-not-credited-once", fmt.Sprintf("goroutine %d: add of %d (event %d) did not change the selected counter by exactly that amount", a.Tid, a.Amt, a.Ev))
		}
		if c.N > 1 && !tr.Stalled && a.SlotStart != bs(a.Now) {
			fail("right_bucket", "amount-credited-to-other-bucket", fmt.Sprintf("goroutine %d: amount %d with timestamp %d (bucket %d) was added to a slot whose start was %d", a.Tid, a.Amt, a.Now, bs(a.Now), a.SlotStart))
		}
	}
	// after the schedule: a sequential read at the final clock
	for k, got := range tr.Post {
		var all, win int64
		for _, a := range tr.Adds {
			if a.Ev == k {
				all += a.Amt
				if bs(a.Now) > bs(tr.Clock)-interval && bs(a.Now) <= bs(tr.Clock) {
					win += a.Amt
				}
			}
		}
		if got > all {
			fail("no_invention", "final-total-exceeds-recorded", fmt.Sprintf("event %d: final %d > recorded %d", k, got, all))
		} else if c.N > 1 && !tr.Stalled && got > win {
			fail("expired_invisible", "final-total-exceeds-window", fmt.Sprintf("event %d: final %d > recorded in the window %d", k, got, win))
		} else if c.N > 1 && !tr.Stalled && !tr.Overlap && got != win {
			fail("exact_when_disjoint", "final-total-differs-without-overlap", fmt.Sprintf("event %d: final %d, recorded in the window %d, no recorder overlapped a rollover of its slot", k, got, win))
		}
	}
}

// ---------------------------------------------------------------------------------------------
// Coq printer

func nat(i int) string { return strconv.Itoa(i) + "%nat" }

func coqCase(c caseT, tr *traceT) string {
	var progs []string
	for _, p := range c.Progs {
		var os []string
		for _, o := range p {
			if o.Kind == "rec" {
				os = append(os, fmt.Sprintf("ORecord %s %s", nat(o.Ev), emit.Z(o.Amt)))
			} else {
				os = append(os, fmt.Sprintf("ORead %s", nat(o.Ev)))
			}
		}
		progs = append(progs, emit.List(os))
	}
	var sc []string
	for _, e := range tr.Sched {
		if e.Tid < 0 {
			sc = append(sc, "Tick "+emit.Z(e.Dt))
		} else {
			sc = append(sc, "Run "+nat(e.Tid))
		}
	}
	var rets, fin []string
	for _, r := range tr.Rets {
		rets = append(rets, emit.ListZ(r))
	}
	for _, r := range tr.Final {
		fin = append(fin, emit.ListZ(r))
	}
	return fmt.Sprintf("{| c_id := %d; c_n := %s; c_bl := %d; c_interval := %d; c_t0 := %d; c_progs := %s; c_sched := %s; c_labels := %s; c_rets := %s; c_final := %s; c_consts := [%d; %d; %d] |}",
		c.ID, nat(c.N), c.BL, tr.intervalObs, c.T0, emit.List(progs), emit.List(sc), emit.ListZ(tr.Labels), emit.List(rets), emit.List(fin),
		int(sbase.MetricEventTotal), int(sbase.MetricEventRt), sbase.DefaultStatisticMaxRt)
}

// ---------------------------------------------------------------------------------------------
// generators

const tBase = int64(1700000000000)

func genOp(r *rng.R, evs []int) opT {
	ev := evs[r.Intn(len(evs))]
	if r.Chance(6, 10) {
		amt := r.PickI(1, 1, 2, 3, 5, 7, 0, 10, 100, 59999, 60001)
		return opT{Kind: "rec", Ev: ev, Amt: amt}
	}
	return opT{Kind: "read", Ev: ev}
}

func genRandom(r *rng.R, id int) caseT {
	c := caseT{ID: id, Mode: "random"}
	c.N = int(r.PickI(1, 2, 2, 2, 3, 3, 4))
	c.BL = r.PickI(1, 10, 100, 500, 1000)
	interval := int64(c.N) * c.BL
	// creation time: around a bucket boundary of a bucket index chosen at random
	c.T0 = tBase - tBase%(interval) + int64(r.Intn(c.N))*c.BL + r.PickI(0, 0, 1, c.BL/2, c.BL-1, c.BL-1)
	if c.BL == 1 {
		c.T0 = tBase + int64(r.Intn(7))
	}
	evs := []int{int(r.PickI(0, 0, 1, 2, 3, 4))}
	if r.Chance(3, 10) {
		evs = append(evs, int(r.PickI(0, 1, 4)))
	}
	nth := 2 + r.Intn(2)
	// goroutine 0 may be a setup goroutine that fills the array before the others start
	if r.Chance(7, 10) {
		k := 1 + r.Intn(2)
		var p []opT
		for i := 0; i < k; i++ {
			p = append(p, opT{Kind: "rec", Ev: evs[0], Amt: r.PickI(5, 5, 1, 9)})
		}
		c.Progs = append(c.Progs, p)
		c.Setup = append(c.Setup, evT{Tid: 0})
		c.Setup = append(c.Setup, evT{Tid: -1, Dt: r.PickI(0, 1, c.BL-1, c.BL, c.BL+1, interval-1, interval, interval, interval+1, interval+c.BL, 2*interval)})
	}
	for i := 0; i < nth; i++ {
		var p []opT
		k := 1 + r.Intn(2)
		for j := 0; j < k; j++ {
			p = append(p, genOp(r, evs))
		}
		c.Progs = append(c.Progs, p)
	}
	nt := r.Intn(4)
	for i := 0; i < nt; i++ {
		c.Ticks = append(c.Ticks, r.PickI(1, 1, 1, c.BL-1, c.BL, c.BL, c.BL+1, interval, interval+c.BL, 2*interval+1))
	}
	return c
}

func randomChooser(r *rng.R) chooser {
	last := -2
	return func(rn *runner, en []evT) (evT, bool) {
		// sticky: keep running the same goroutine with probability 1/2
		if last >= 0 && r.Chance(5, 10) {
			for _, e := range en {
				if e.Tid == last {
					return e, true
				}
			}
		}
		var runs []evT
		var tk *evT
		for i := range en {
			if en[i].Tid < 0 {
				tk = &en[i]
			} else {
				runs = append(runs, en[i])
			}
		}
		if tk != nil && (len(runs) == 0 || r.Chance(1, 8)) {
			last = -2
			return *tk, true
		}
		e := runs[r.Intn(len(runs))]
		last = e.Tid
		return e, true
	}
}

// the D7 interleaving: 2x1000 ms array holding 5; clock +2000; the recorder parks inside the reset;
// a concurrent CountWithTime runs to completion.
func d7Case(id int, parkAt int) caseT {
	c := caseT{ID: id, N: 2, BL: 1000, T0: tBase, Mode: "script", Note: "D7"}
	c.Progs = [][]opT{{{Kind: "rec", Ev: 0, Amt: 5}}, {{Kind: "rec", Ev: 0, Amt: 1}}, {{Kind: "read", Ev: 0}}}
	c.Setup = []evT{{Tid: 0}, {Tid: -1, Dt: 2000}}
	// goroutine 1: 100 101 102 103 then parkAt more steps inside the critical section
	for i := 0; i < 4+parkAt; i++ {
		c.Script = append(c.Script, evT{Tid: 1})
	}
	// goroutine 2 (reader): run far enough to finish, or to spin on the lock
	for i := 0; i < 12; i++ {
		c.Script = append(c.Script, evT{Tid: 2})
	}
	return c
}

// window edge: a stalled recorder (timestamp one interval back) publishes its older start after a reader at a
// bucket boundary has refreshed the current bucket and before the reader's valuesWithTime looks at that slot:
// now - BucketStart == interval exactly, which isBucketDeprecated must treat as expired (>=, not >).
// The schedule stalls a goroutine, so the monitor's stall-conditioned clauses do not apply; the case exists for
// the correspondence (the model and the code must agree on the edge of the window).
func edgeCase(id int) caseT {
	c := caseT{ID: id, N: 2, BL: 1000, T0: tBase, Mode: "script", Note: "window-edge"}
	c.Progs = [][]opT{{{Kind: "rec", Ev: 0, Amt: 7}}, {{Kind: "rec", Ev: 0, Amt: 1}}, {{Kind: "read", Ev: 0}}}
	c.Setup = []evT{{Tid: -1, Dt: 2000}}
	add := func(tid, n int) {
		for i := 0; i < n; i++ {
			c.Script = append(c.Script, evT{Tid: tid})
		}
	}
	add(0, 3) // stale recorder: reads the clock, loads the slot, parks before the TryLock
	c.Script = append(c.Script, evT{Tid: -1, Dt: 2000})
	add(1, 14) // recorder at the boundary rolls the slot over and adds
	add(2, 3)  // reader at the boundary: currentBucketOfTime returns; parked before valuesWithTime
	add(0, 11) // the stale recorder now takes the lock, resets, publishes the older start, adds
	return c
}

// long idle gaps: the array is left untouched for k*2^31 / k*2^32 ms (+ less than one interval), then read at a time
// that selects a different slot than the stale one (so currentBucketOfTime does not roll the stale slot over):
// the age now-BucketStart must be compared as a uint64; a narrowed age (uint32/int32) wraps and the 49-day-old
// counts become visible again. Sequential, nobody stalled: the monitor's expired_invisible clause applies.
func wrapTicks() []int64 {
	return []int64{1 << 31, 1 << 32, 1<<32 + 300, 1 << 33, 3 << 32, 1<<32 - 1, 1 << 63 >> 20}
}

func wrapCase(id int, j int) caseT {
	geos := [][2]int64{{2, 1000}, {2, 500}, {3, 100}, {4, 250}}
	ge := geos[j%len(geos)]
	c := caseT{ID: id, N: int(ge[0]), BL: ge[1], T0: tBase, Mode: "script", Note: "idle-gap-wrap"}
	interval := int64(c.N) * c.BL
	base := wrapTicks()[(j/len(geos))%len(wrapTicks())]
	idx := func(t int64) int64 { return (t / c.BL) % int64(c.N) }
	dt := base
	for d := int64(0); d < interval; d += c.BL / 2 { // smallest offset < interval that selects another slot
		if idx(c.T0+base+d) != idx(c.T0) {
			dt = base + d
			break
		}
	}
	c.Progs = [][]opT{{{Kind: "rec", Ev: 0, Amt: 5}}, {{Kind: "read", Ev: 0}}, {{Kind: "rec", Ev: 0, Amt: 1}, {Kind: "read", Ev: 0}}}
	c.Setup = []evT{{Tid: 0}, {Tid: -1, Dt: dt}, {Tid: 1}, {Tid: 2}}
	return c
}

// lateCase: LATE TIMESTAMPS - the clock is behind the creation time of the array (an amount stamped
// before the array existed, a wall clock stepped back): by 1 ms across a bucket boundary, by one bucket,
// by a whole cycle.  The slot such a timestamp selects holds a NEWER start (creation lays future-dated
// buckets out), so the recorder is "behind": with more than one bucket the amount must not be credited
// to that newer bucket and must not surface in a later window (it is dropped); a reader one interval
// later sees only what was stamped into its window.  Monitor only: the Coq machine starts its clock at
// the creation time and never steps it back.
func lateCase(id int, j int) caseT {
	geos := [][2]int64{{2, 1000}, {2, 500}, {3, 100}, {4, 250}, {4, 1}}
	ge := geos[j%len(geos)]
	c := caseT{ID: id, N: int(ge[0]), BL: ge[1], Mode: "script", Note: "late-timestamp"}
	interval := int64(c.N) * c.BL
	created := tBase - tBase%interval + int64(j%c.N)*c.BL // on a bucket boundary
	behind := []int64{1, c.BL, c.BL + 1, interval - 1, interval, interval + c.BL/2 + 1}[(j/len(geos))%6]
	if c.BL == 1 && behind%interval == 0 {
		behind++
	}
	c.Created = created
	c.T0 = created - behind
	c.Progs = [][]opT{{{Kind: "rec", Ev: 0, Amt: 5}}, {{Kind: "read", Ev: 0}}, {{Kind: "rec", Ev: 0, Amt: 1}, {Kind: "read", Ev: 0}}}
	c.Setup = []evT{{Tid: 0}, {Tid: 1}, {Tid: -1, Dt: interval}, {Tid: 1}, {Tid: 2}}
	return c
}

// corpus: regression witnesses kept as files (corpus/C09/*.json, field "case"); ids corpusBase+i in
// file-name order. The directory is looked up from the working directory and from the executable upwards.
func corpusDir() string {
	var starts []string
	if wd, err := os.Getwd(); err == nil {
		starts = append(starts, wd)
	}
	if ex, err := os.Executable(); err == nil {
		starts = append(starts, filepath.Dir(ex))
	}
	for _, d := range starts {
		for i := 0; i < 6; i++ {
			c := filepath.Join(d, "corpus", "C09")
			if st, err := os.Stat(c); err == nil && st.IsDir() {
				return c
			}
			d = filepath.Dir(d)
		}
	}
	return ""
}

func loadCorpus() []caseT {
	dir := corpusDir()
	if dir == "" {
		return nil
	}
	files, _ := filepath.Glob(filepath.Join(dir, "*.json"))
	sort.Strings(files)
	var out []caseT
	for _, f := range files {
		b, err := os.ReadFile(f)
		if err != nil {
			continue
		}
		var w struct {
			Case caseT `json:"case"`
		}
		if json.Unmarshal(b, &w) != nil || len(w.Case.Progs) == 0 || w.Case.N <= 0 || w.Case.BL <= 0 {
			fmt.Fprintln(os.Stderr, "corpus file ignored (malformed):", f)
			continue
		}
		c := w.Case
		c.ID = corpusBase + len(out)
		c.Mode = "script"
		c.Note = "corpus " + filepath.Base(f)
		out = append(out, c)
	}
	return out
}

// small configurations whose interleavings are enumerated completely (thorough tier)
func enumConfigs() []caseT {
	rec := func(ev int, amt int64) opT { return opT{Kind: "rec", Ev: ev, Amt: amt} }
	rd := func(ev int) opT { return opT{Kind: "read", Ev: ev} }
	var cs []caseT
	add := func(c caseT) { c.Mode = "enum"; cs = append(cs, c) }
	fill := []evT{{Tid: 0}}
	// A: two recorders roll the same slot over (array filled one full interval earlier)
	add(caseT{N: 2, BL: 1000, T0: tBase + 999, Progs: [][]opT{{rec(0, 5)}, {rec(0, 1)}, {rec(0, 2)}}, Setup: append(append([]evT{}, fill...), evT{Tid: -1, Dt: 2000}), Note: "A rec/rec both rolling over"})
	// B: recorder rolls over while a reader reads (the D7 shape), all positions
	add(caseT{N: 2, BL: 1000, T0: tBase, Progs: [][]opT{{rec(0, 5)}, {rec(0, 1)}, {rd(0)}}, Setup: append(append([]evT{}, fill...), evT{Tid: -1, Dt: 2000}), Note: "B rec/read, slot one interval old"})
	// C: boundary crossed by a tick at every position: recorder in the old bucket, recorder and reader after
	add(caseT{N: 2, BL: 1000, T0: tBase + 999, Progs: [][]opT{{rec(0, 5)}, {rec(0, 1)}, {rd(0)}}, Setup: fill, Ticks: []int64{1}, Note: "C rec/read with tick +1 across the boundary at every position"})
	// D: three goroutines, no rollover pending for two of them
	add(caseT{N: 2, BL: 1000, T0: tBase, Progs: [][]opT{{rec(0, 5)}, {rec(0, 1)}, {rec(0, 2)}, {rd(0)}}, Setup: fill, Note: "D rec/rec/read in the current bucket"})
	// E: three goroutines, rollover by one recorder while another records and a reader reads
	add(caseT{N: 2, BL: 1000, T0: tBase, Progs: [][]opT{{rec(0, 5)}, {rec(0, 1)}, {rec(0, 2)}, {rd(0)}}, Setup: append(append([]evT{}, fill...), evT{Tid: -1, Dt: 2000}), Note: "E rec/rec/read, slot one interval old"})
	// F: two operations per goroutine with a whole-interval tick in between at every position
	add(caseT{N: 2, BL: 1000, T0: tBase + 500, Progs: [][]opT{{rec(0, 1), rd(0)}, {rec(0, 2), rd(0)}}, Ticks: []int64{2000}, Note: "F 2x(rec;read) with tick +interval at every position"})
	// G: single bucket (n = 1)
	add(caseT{N: 1, BL: 1000, T0: tBase + 999, Progs: [][]opT{{rec(0, 5)}, {rec(0, 1)}, {rd(0)}}, Setup: fill, Ticks: []int64{1}, Note: "G n=1 rec/read with tick +1 across the boundary"})
	// H: RT event (minRt load/store) against a rollover
	add(caseT{N: 2, BL: 1000, T0: tBase, Progs: [][]opT{{rec(4, 7)}, {rec(4, 3)}, {rd(4)}}, Setup: append(append([]evT{}, fill...), evT{Tid: -1, Dt: 2000}), Note: "H rt rec/read, slot one interval old"})
	// I: every yield a scheduling point (no merging), small: recorder in place vs recorder rolling over
	add(caseT{N: 2, BL: 1000, T0: tBase, Fine: true, Progs: [][]opT{{rec(0, 5)}, {rec(0, 1)}, {rec(0, 2)}}, Setup: []evT{{Tid: 0}, {Tid: -1, Dt: 2000}, {Tid: 1}, {Tid: 1}, {Tid: 1}}, Note: "I fine-grained: late recorder vs rollover"})
	return cs
}

// ---------------------------------------------------------------------------------------------

func (t *traceT) fingerprint() string {
	var b strings.Builder
	for _, e := range t.Sched {
		fmt.Fprintf(&b, "%d:%d,", e.Tid, e.Dt)
	}
	return b.String()
}

func main() {
	a := cli.Parse()
	root := rng.New(a.Seed)
	rep := emit.NewReport("C09", a.Seed, a.Tier)
	rep.Rule = "random: n in 1..4 buckets x bl in {1,10,100,500,1000} ms, creation at a bucket boundary -1/0/+1/mid, optional filled array and a jump of up to 2 intervals, 2-3 goroutines x 1-2 record/read operations, up to 3 ticks (1, bl-1, bl, bl+1, interval, ...) placed by the random scheduler; scripted: the D7 interleaving for every parking position inside the reset; 30 late-timestamp cases (the clock 1 ms / one bucket / one cycle behind the creation time of the array: monitor only); thorough: all interleavings of the listed small configurations. Non-trivial = at least two goroutines had operations in progress at the same time and a bucket was rolled over (a TryLock succeeded) during the schedule; distinct by executed schedule. parallel (search only): 4-16 real goroutines recording 500-2000 amounts each with timestamps on both sides of a bucket boundary (n >= 2 buckets; array created at the older bucket, or more than an interval earlier so that the racing recorders roll both slots over); per-bucket counters and the two window reads compared with the per-goroutine ledgers (exactly without rollover, as upper bounds with it); 8-16 goroutines recording one amount each at the same instant into a bucket whose slot is stale, for thousands of consecutive buckets: the bucket never holds more than was recorded for it; termination of the recording primitives: 2-4 scheduled goroutines in UpdateConcurrency on one bucket (a call returns to its write at most once per other recorder), 8-16 real goroutines mixing Add / AddRt / UpdateConcurrency on one bucket under a 10 s watchdog."
	nCorr := a.Pick(a.N, 260, 2500)
	nMon := a.Pick(a.Mon, 3000, 40000)
	if a.Search {
		nCorr = 0
		nMon *= 5
	}
	var sh *emit.Shards
	if a.Only < 0 && !a.Search {
		var err error
		sh, err = emit.NewShards(a.Out, "Corr.Run_C09", a.Shards, "")
		if err != nil {
			panic(err)
		}
	}
	dist := emit.NewDistinct()
	process := func(c caseT, tr *traceT, corr bool) {
		rep.Evaluations++
		monitor(c, tr, rep)
		rep.Count("steps", tr.Steps)
		rep.Count("resets", tr.Resets)
		rep.Count("failed_trylocks", tr.Spin)
		rep.Count("behind_errors", tr.Behind)
		rep.Count("adds", len(tr.Adds))
		rep.Count("reads", len(tr.Reads))
		rep.Count(fmt.Sprintf("n_buckets_%d", c.N), 1)
		if tr.Stalled {
			rep.Count("schedules_with_stall_over_one_bucket", 1)
		}
		if tr.Overlap {
			rep.Count("schedules_with_recorder_overlapping_rollover", 1)
		}
		for _, rd := range tr.Reads {
			if rd.Ret != 0 {
				rep.Count("reads_nonzero", 1)
			}
		}
		if tr.Resets > 0 && tr.maxActive >= 2 {
			dist.Add(tr.fingerprint())
		}
		if corr && sh != nil {
			sh.Add(c.ID, coqCase(c, tr))
			rep.CorrCases++
			rep.CaseInputs[strconv.Itoa(c.ID)] = c
			if tr.Resets > 0 && tr.Spin > 0 {
				rep.Sample(map[string]interface{}{"input": c, "schedule": tr.Sched, "labels": tr.Labels, "returns": tr.Rets, "final_slots": tr.Final})
			}
		}
		if a.Only >= 0 {
			out, _ := json.MarshalIndent(map[string]interface{}{"input": c, "schedule": tr.Sched, "labels": tr.Labels, "returns": tr.Rets,
				"final_slots": tr.Final, "adds": tr.Adds, "reads": tr.Reads, "post": tr.Post, "stalled": tr.Stalled, "overlap": tr.Overlap, "coq": coqCase(c, tr)}, "", " ")
			fmt.Println(string(out))
		}
	}
	corpus := loadCorpus()
	caseByID := func(id int) (caseT, chooser) {
		switch {
		case id >= corpusBase && id < corpusBase+len(corpus):
			return corpus[id-corpusBase], nil
		case id == edgeBase:
			return edgeCase(id), nil
		case id >= wrapBase && id < wrapBase+nWrap:
			return wrapCase(id, id-wrapBase), nil
		case id >= lateBase && id < lateBase+nLate:
			return lateCase(id, id-lateBase), nil
		case id < d7Base:
			c := genRandom(root.Fork(uint64(id)), id)
			return c, randomChooser(root.Fork(uint64(id) + 1<<40))
		default:
			return d7Case(id, id-d7Base), nil
		}
	}
	runID := func(id int, corr bool) {
		c, ch := caseByID(id)
		tr := execute(c, ch)
		for attempt := 0; attempt < 2 && tr.SchedTimeout; attempt++ {
			rep.Count("scheduler_timeouts_retried", 1)
			c, ch = caseByID(id) // fresh chooser: the case is regenerated identically from its id
			tr = execute(c, ch)
		}
		process(c, tr, corr)
	}
	if a.Only >= 0 {
		if a.Only >= parBase && a.Only < corpusBase {
			if a.Only >= ucBase {
				primLegs(root, rep, 0, 0, a.Only)
			} else if a.Only >= raceBase {
				raceLeg(root, rep, 0, a.Pick(0, 8000, 60000), a.Only, 30*time.Second)
			} else {
				parLeg(root, rep, 0, a.Only, 30*time.Second)
			}
			for _, f := range rep.MonitorFailures {
				fmt.Printf("MONITOR-FAIL clause=%s signature=%s %s\n", f.Clause, f.Signature, f.Detail)
			}
			return
		}
		if a.Only >= enumBase {
			fmt.Println("enumerated cases are replayed by their configuration; run --tier thorough")
			return
		}
		runID(a.Only, false)
		for _, f := range rep.MonitorFailures {
			fmt.Printf("MONITOR-FAIL clause=%s signature=%s %s\n", f.Clause, f.Signature, f.Detail)
		}
		return
	}
	// scripted D7 interleavings: park after 0..9 steps inside the critical section
	for p := 0; p <= 9; p++ {
		runID(d7Base+p, !a.Search)
	}
	runID(edgeBase, !a.Search)
	for j := 0; j < nWrap; j++ {
		runID(wrapBase+j, !a.Search)
	}
	for j := 0; j < nLate; j++ {
		runID(lateBase+j, false) // monitor only
	}
	for i := range corpus {
		runID(corpusBase+i, !a.Search)
	}
	rep.Count("corpus_cases", len(corpus))
	for id := 0; id < nMon; id++ {
		runID(id, id < nCorr)
	}
	// termination of the recording primitives under contention on one bucket (prim.go): scheduled
	// UpdateConcurrency cases, then real threads with a watchdog
	primLegs(root, rep, a.Pick(0, 60, 2000), a.Pick(0, 4, 60), -1)
	if !recordersStuck {
		// real-thread search leg around a bucket boundary (par.go): bounded by counts, at most 4 s (quick) / 60 s (thorough)
		parLeg(root, rep, a.Pick(0, 6, 120), -1, time.Duration(a.Pick(0, 4, 60))*time.Second)
		raceLeg(root, rep, a.Pick(0, 4, 40), a.Pick(0, 8000, 60000), -1, time.Duration(a.Pick(0, 5, 120))*time.Second)
	}
	if a.Tier == "thorough" && !a.Search && !recordersStuck {
		total := 0
		complete := true
		for ci, c0 := range enumConfigs() {
			n := enumerate(c0, enumBase+ci*enumStride, func(c caseT, tr *traceT, k int) {
				process(c, tr, k%enumSample(ci) == 0)
			})
			rep.Count("enum_"+strings.Fields(c0.Note)[0]+"_interleavings", n)
			if n >= enumCap {
				complete = false
			}
			total += n
		}
		rep.Exhaustive = complete
		rep.Notes = append(rep.Notes, fmt.Sprintf("thorough: %d interleavings of %d small configurations enumerated completely on the implementation with the monitor (steps that commute with every step of every other goroutine are merged into their successor, except in configuration I); every k-th of them is also evaluated against the Coq model", total, len(enumConfigs())))
		stress(rep)
	}
	rep.DistinctNontrivial = dist.N()
	rep.Consts["MetricEventTotal"] = int(sbase.MetricEventTotal)
	rep.Consts["MetricEventRt"] = int(sbase.MetricEventRt)
	rep.Consts["DefaultStatisticMaxRt"] = sbase.DefaultStatisticMaxRt
	if sh != nil {
		rep.Shards = sh.Close()
	}
	if err := rep.Write(a.Out); err != nil {
		fmt.Fprintln(os.Stderr, err)
		os.Exit(2)
	}
}
