//go:build verif

// prim.go: termination (and exactness without rollover) of every RECORDING PRIMITIVE under contention
// on ONE bucket: MetricBucket.Add (addCount), AddRt (add + minRt), UpdateConcurrency, reached through
// BucketLeapArray.addCountWithTime / updateConcurrencyWithTime.  Monitor only (the Coq machine has no
// UpdateConcurrency operation): "every recorder terminates" is stated here directly.
//
//	uc    scheduled leg (ids 1450000+): 2-4 goroutines call UpdateConcurrency on the same bucket under
//	      the deterministic scheduler, parked only at its two yield points (124 before the load, 125
//	      before the write).  In any terminating implementation a recorder can be sent back to its write
//	      only by another recorder's write in between, so one call passes yield 125 at most G times;
//	      more visits = a retry whose expectation cannot have changed (termination /
//	      recorder-retries-without-progress, the executed schedule is the failing input).  At the end
//	      the bucket's maximum is one of the values offered and at least ... nothing more ("might not be
//	      accurate" in the source: a smaller value may overwrite a larger one).
//	prim  real-thread leg (ids 1460000+): 8-16 goroutines x 500-2000 calls mixing Add(pass), AddRt and
//	      UpdateConcurrency with one timestamp bucket, under the yield-point jitter controller.  A
//	      watchdog reports recorders that have not returned after 10 s (termination /
//	      recording-primitive-does-not-return) instead of hanging; at quiescence pass and rt sums equal
//	      the ledgers exactly (no rollover), minRt and maxConcurrency are values that were offered.
package main

import (
	"fmt"
	"sync"
	"sync/atomic"
	"time"

	sbase "github.com/alibaba/sentinel-golang/core/base"
	stat "github.com/alibaba/sentinel-golang/core/stat/base"
	"github.com/alibaba/sentinel-golang/util/vhook"

	"vh/internal/emit"
	"vh/internal/rng"
	"vh/internal/sched"
)

const (
	ucBase   = 1450000
	primBase = 1460000
)

// set when a leg has left goroutines spinning or parked for good: later real-thread legs are skipped
var recordersStuck bool

type ucCase struct {
	ID    int     `json:"id"`
	Vals  []int32 `json:"values"` // one UpdateConcurrency(value) per goroutine
	Pre   int32   `json:"pre"`    // maximum stored before they start (0 = fresh bucket)
	Sched []int   `json:"schedule,omitempty"`
}

func genUC(r *rng.R, id int) ucCase {
	c := ucCase{ID: id, Pre: int32(r.PickI(0, 0, 1, 3))}
	for g := 2 + r.Intn(3); g > 0; g-- {
		c.Vals = append(c.Vals, int32(r.PickI(1, 2, 3, 4, 5, 7)))
	}
	return c
}

func runUC(c ucCase, r *rng.R) (f *parFail, schedule []int) {
	const ts = uint64(1700000000500)
	arr := stat.NewBucketLeapArrayWithTime(2, 2000, ts)
	if c.Pre > 0 {
		arr.VerifUpdateConcurrencyWithTime(ts, c.Pre)
	}
	s := sched.New(func(id int) bool { return id == 124 || id == 125 })
	defer s.Close()
	G := len(c.Vals)
	for g := 0; g < G; g++ {
		v := c.Vals[g]
		s.Spawn(func() { arr.VerifUpdateConcurrencyWithTime(ts, v) })
	}
	visits := make([]int, G)
	for steps := 0; steps < 40*G; steps++ {
		var live []int
		for g := 0; g < G; g++ {
			if !s.IsDone(g) {
				live = append(live, g)
			}
		}
		if len(live) == 0 {
			break
		}
		g := live[r.Intn(len(live))]
		schedule = append(schedule, g)
		switch l := s.Step(g); l {
		case 125:
			visits[g]++
			if visits[g] > G {
				recordersStuck = true
				return &parFail{"termination", "recorder-retries-without-progress",
					fmt.Sprintf("goroutine %d (UpdateConcurrency(%d)) is back at its write (yield 125) for the %d-th time; only %d other recorders exist, so its expectation cannot have changed since the last failed attempt: it spins for ever (schedule %v)", g, c.Vals[g], visits[g], G-1, schedule)}, schedule
			}
		case -2:
			recordersStuck = true
			return &parFail{"termination", "recorder-blocked-outside-a-yield", fmt.Sprintf("goroutine %d did not reach a yield or finish (schedule %v)", g, schedule)}, schedule
		}
		if p := s.Panic(g); p != nil {
			return &parFail{"no_panic", "panic-in-code-under-test", fmt.Sprint(p)}, schedule
		}
	}
	for g := 0; g < G; g++ {
		if !s.IsDone(g) {
			recordersStuck = true
			return &parFail{"termination", "schedule-did-not-complete", fmt.Sprintf("goroutine %d has not returned after %d steps (schedule %v)", g, 40*G, schedule)}, schedule
		}
	}
	// the maximum is one of the offered values (or the earlier one)
	got := int32(-1)
	for _, row := range arr.VerifSlots() {
		if uint64(row[0]) == ts-ts%1000 {
			got = int32(row[len(row)-1])
		}
	}
	ok := got == c.Pre
	for _, v := range c.Vals {
		ok = ok || got == v
	}
	if !ok {
		return &parFail{"no_invention", "max-concurrency-never-offered", fmt.Sprintf("bucket maximum %d, offered %v after %d", got, c.Vals, c.Pre)}, schedule
	}
	return nil, schedule
}

type primCase struct {
	ID int    `json:"id"`
	G  int    `json:"goroutines"`
	M  int    `json:"ops_per_goroutine"`
	N  uint32 `json:"n"`
	BL uint32 `json:"bl"`
	S  uint64 `json:"seed"`
}

func genPrim(r *rng.R, id int) primCase {
	return primCase{ID: id, G: int(r.PickI(8, 16)), M: int(r.PickI(500, 1000, 2000)), N: uint32(r.PickI(1, 2, 4)), BL: uint32(r.PickI(10, 500)), S: r.U64()}
}

func runPrim(c primCase) (f *parFail) {
	defer func() {
		if p := recover(); p != nil {
			f = &parFail{"no_panic", "panic-in-code-under-test", fmt.Sprint(p)}
		}
	}()
	vhook.SetController(&jitter{})
	defer vhook.SetController(nil)
	ts := uint64(1700000000000) + uint64(c.BL)/2
	arr := stat.NewBucketLeapArrayWithTime(c.N, c.N*c.BL, ts)
	type led struct {
		pass, rt, minRt int64
		maxC            int32
	}
	ledgers := make([]led, c.G)
	var wg sync.WaitGroup
	var mu sync.Mutex
	var panics []string
	var doing [64]int32 // what goroutine g is inside: 1 Add, 2 AddRt, 3 UpdateConcurrency
	start := make(chan struct{})
	for g := 0; g < c.G; g++ {
		wg.Add(1)
		go func(g int) {
			defer wg.Done()
			defer func() {
				if p := recover(); p != nil {
					mu.Lock()
					panics = append(panics, fmt.Sprint(p))
					mu.Unlock()
				}
			}()
			r := rng.New(c.S).Fork(uint64(g))
			l := led{minRt: sbase.DefaultStatisticMaxRt}
			<-start
			for i := 0; i < c.M; i++ {
				switch k := r.Intn(3); k {
				case 0:
					a := int64(1 + r.Intn(3))
					atomic.StoreInt32(&doing[g], 1)
					arr.VerifAddCountWithTime(ts, sbase.MetricEventPass, a)
					l.pass += a
				case 1:
					a := int64(1 + r.Intn(400))
					atomic.StoreInt32(&doing[g], 2)
					arr.VerifAddCountWithTime(ts, sbase.MetricEventRt, a)
					l.rt += a
					if a < l.minRt {
						l.minRt = a
					}
				default:
					v := int32(1 + r.Intn(50))
					atomic.StoreInt32(&doing[g], 3)
					arr.VerifUpdateConcurrencyWithTime(ts, v)
					if v > l.maxC {
						l.maxC = v
					}
				}
				atomic.StoreInt32(&doing[g], 0)
			}
			mu.Lock()
			ledgers[g] = l
			mu.Unlock()
		}(g)
	}
	fin := make(chan struct{})
	go func() { wg.Wait(); close(fin) }()
	close(start)
	select {
	case <-fin:
	case <-time.After(10 * time.Second):
		recordersStuck = true
		names := []string{"", "Add", "AddRt", "UpdateConcurrency"}
		var inside []string
		for g := 0; g < c.G; g++ {
			if d := atomic.LoadInt32(&doing[g]); d != 0 {
				inside = append(inside, fmt.Sprintf("goroutine %d in %s", g, names[d]))
			}
		}
		return &parFail{"termination", "recording-primitive-does-not-return",
			fmt.Sprintf("%d goroutines x %d recording calls on one bucket: after 10 s still inside a call: %v", c.G, c.M, inside)}
	}
	if len(panics) > 0 {
		return &parFail{"no_panic", "panic-in-code-under-test", panics[0]}
	}
	var want led
	want.minRt = sbase.DefaultStatisticMaxRt
	offeredMin := map[int64]bool{sbase.DefaultStatisticMaxRt: true}
	for _, l := range ledgers {
		want.pass += l.pass
		want.rt += l.rt
		if l.minRt < want.minRt {
			want.minRt = l.minRt
		}
		if l.maxC > want.maxC {
			want.maxC = l.maxC
		}
		offeredMin[l.minRt] = true
	}
	for _, row := range arr.VerifSlots() {
		if uint64(row[0]) != ts-ts%uint64(c.BL) {
			continue
		}
		pass, rt := row[1+int(sbase.MetricEventPass)], row[1+int(sbase.MetricEventRt)]
		minRt, maxC := row[len(row)-2], int32(row[len(row)-1])
		if pass != want.pass || rt != want.rt {
			return &parFail{"exact_when_disjoint", "single-bucket-total-differs-from-recorded", fmt.Sprintf("pass %d (recorded %d), rt %d (recorded %d), no rollover", pass, want.pass, rt, want.rt)}
		}
		if minRt < want.minRt || minRt > sbase.DefaultStatisticMaxRt || maxC > want.maxC || maxC < 0 {
			return &parFail{"no_invention", "extremum-never-offered", fmt.Sprintf("minRt %d (smallest offered %d), maxConcurrency %d (largest offered %d)", minRt, want.minRt, maxC, want.maxC)}
		}
		return nil
	}
	return &parFail{"right_bucket", "bucket-of-recorded-timestamps-missing", fmt.Sprintf("no slot carries the start of timestamp %d", ts)}
}

func primLegs(root *rng.R, rep *emit.Report, nUC, nPrim int, only int) {
	oneUC := func(id int) {
		c := genUC(root.Fork(uint64(id)), id)
		f, schedule := runUC(c, root.Fork(uint64(id)+1<<40))
		rep.Evaluations++
		rep.Count("uc_scheduled_cases", 1)
		if f != nil {
			c.Sched = schedule
			rep.Fail(c.ID, f.clause, f.sig, f.detail, c)
		}
		if only >= 0 {
			fmt.Printf("{\"input\": %+v, \"schedule\": %v}\n", c, schedule)
		}
	}
	onePrim := func(id int) {
		c := genPrim(root.Fork(uint64(id)), id)
		f := runPrim(c)
		rep.Evaluations++
		rep.Count("prim_cases", 1)
		rep.Count("prim_recording_calls", c.G*c.M)
		if f != nil {
			rep.Fail(c.ID, f.clause, f.sig, f.detail, c)
		}
		if only >= 0 {
			fmt.Printf("{\"input\": %+v}\n", c)
		}
	}
	if only >= primBase {
		onePrim(only)
		return
	}
	if only >= ucBase {
		oneUC(only)
		return
	}
	for j := 0; j < nUC && !recordersStuck; j++ {
		oneUC(ucBase + j)
	}
	for j := 0; j < nPrim && !recordersStuck; j++ {
		onePrim(primBase + j)
	}
}
