//go:build verif

// par.go: bounded real-thread SEARCH leg of vh-c09 (no scheduler, no Coq shards).
//
// The deterministic scheduler interleaves only at the yield points of the lock-free code; shared
// state that is read or written between them (a cache of the last bucket, a memoised index, ...)
// is invisible to it.  Here G real goroutines record on BOTH SIDES of a bucket boundary T: every
// amount carries a timestamp in bucket A = [T-bl, T) or in bucket B = [T, T+bl) - mostly the last
// millisecond of A and the first of B -, chosen per operation, and every goroutine keeps its own
// ledger of what it recorded for A and for B.  Both buckets lie inside one window (n >= 2) and no
// timestamp is older than A.  At quiescence, for every schedule:
//
//	right_bucket       the slot whose start is A holds the ledgers' amounts for A, the slot whose
//	                   start is B those for B (an amount is credited to the bucket its timestamp
//	                   selects) - EXACTLY when the array was created at A (both slots carry their
//	                   starts from the beginning: no rollover at all), AT MOST when it was created more
//	                   than an interval earlier: then the racing recorders roll both slots over
//	                   themselves, and a recorder that saw the stale start before the winner's reset
//	                   and takes the lock after the winner released it resets the slot a second time
//	                   (currentBucketOfTime does not re-check under the lock), wiping amounts recorded
//	                   in between - updates may be lost there, never duplicated or invented;
//	no_invention       CountWithTime at T (window holding A and B) = / <= everything recorded;
//	expired_invisible  CountWithTime one interval after A (A expired, B still inside) = / <= the
//	                   ledgers' amounts for B: nothing recorded for A surfaces in the later window.
//
// A second kind of case ("race", race.go in this file's second half) lets all goroutines record ONE
// amount each at the same instant in a bucket whose slot is still stale, round after round, so that
// they race for its rollover: whatever the interleaving the bucket never holds more than was
// recorded for it (no update duplicated), and the window total never exceeds the recorded total.
// Bounded by fixed
// counts; a wall-clock budget can only cut the leg short; a watchdog reports a leg that does not
// finish (leaked lock); panics of the code under test are reported as monitor failures.
package main

import (
	"fmt"
	"runtime"
	"sync"
	"sync/atomic"
	"time"

	sbase "github.com/alibaba/sentinel-golang/core/base"
	stat "github.com/alibaba/sentinel-golang/core/stat/base"
	"github.com/alibaba/sentinel-golang/util/vhook"

	"vh/internal/emit"
	"vh/internal/rng"
)

const parBase = 1300000

type parCase struct {
	ID     int    `json:"id"`
	N      uint32 `json:"n"`     // buckets (>= 2)
	BL     uint32 `json:"bl"`    // bucket length ms
	T      uint64 `json:"t"`     // the boundary: start of bucket B
	Stale  bool   `json:"stale"` // array created more than an interval before A
	G      int    `json:"goroutines"`
	M      int    `json:"ops_per_goroutine"`
	Rounds int    `json:"rounds"`
	Seed   uint64 `json:"seed"` // per-goroutine choice of side / amount / event
}

func genPar(r *rng.R, id int) parCase {
	c := parCase{ID: id}
	c.N = uint32(r.PickI(2, 2, 3, 4))
	c.BL = uint32(r.PickI(1, 10, 100, 500))
	k := uint64(r.Range(1000, 2000000))
	c.T = k * uint64(c.BL) * 7 // a multiple of bl
	c.Stale = r.Chance(1, 3)
	c.G = int(r.PickI(4, 8, 8, 16))
	c.M = int(r.PickI(500, 1000, 2000))
	c.Rounds = int(r.PickI(4, 8))
	c.Seed = r.U64()
	return c
}

type parFail struct{ clause, sig, detail string }

func runPar(c parCase, deadline time.Time) (f *parFail, rounds int) {
	defer func() {
		if p := recover(); p != nil {
			f = &parFail{"no_panic", "panic-in-code-under-test", fmt.Sprint(p)}
		}
	}()
	vhook.SetController(&jitter{}) // yield-point jitter, see runRace
	defer vhook.SetController(nil)
	bl := uint64(c.BL)
	itv := uint64(c.N) * bl
	A, B := c.T-bl, c.T
	evs := []sbase.MetricEvent{sbase.MetricEventPass, sbase.MetricEventBlock}
	for round := 0; round < c.Rounds; round++ {
		if time.Now().After(deadline) {
			break
		}
		created := A
		if c.Stale {
			created = A - itv - bl*uint64(1+round%3)
		}
		arr := stat.NewBucketLeapArrayWithTime(c.N, c.N*c.BL, created)
		// ledgers[g][side][event]
		ledgers := make([][2][2]int64, c.G)
		var wg sync.WaitGroup
		var mu sync.Mutex
		var panics []string
		start := make(chan struct{})
		for g := 0; g < c.G; g++ {
			wg.Add(1)
			go func(g int) {
				defer wg.Done()
				defer func() {
					if p := recover(); p != nil {
						mu.Lock()
						panics = append(panics, fmt.Sprint(p))
						mu.Unlock()
					}
				}()
				r := rng.New(c.Seed).Fork(uint64(round)*1000 + uint64(g))
				<-start
				for i := 0; i < c.M; i++ {
					side := r.Intn(2)
					var ts uint64
					switch r.Intn(4) {
					case 0: // anywhere in the bucket
						ts = A + uint64(side)*bl + uint64(r.Intn(int(c.BL)))
					default: // hugging the boundary
						ts = c.T - 1 + uint64(side)
					}
					e := r.Intn(2)
					amt := int64(1 + r.Intn(3))
					arr.VerifAddCountWithTime(ts, evs[e], amt)
					ledgers[g][side][e] += amt
				}
			}(g)
		}
		fin := make(chan struct{})
		go func() { wg.Wait(); close(fin) }()
		close(start)
		select {
		case <-fin:
		case <-time.After(30 * time.Second):
			return &parFail{"termination", "parallel-recorders-did-not-finish", fmt.Sprintf("round %d: %d recorders around boundary %d did not finish within 30 s", round, c.G, c.T)}, rounds
		}
		rounds++
		if len(panics) > 0 {
			return &parFail{"no_panic", "panic-in-code-under-test", panics[0]}, rounds
		}
		var want [2][2]int64
		for g := range ledgers {
			for s := 0; s < 2; s++ {
				for e := 0; e < 2; e++ {
					want[s][e] += ledgers[g][s][e]
				}
			}
		}
		// per-bucket credited totals
		var got [2][2]int64
		var found [2]bool
		for _, row := range arr.VerifSlots() {
			for s, st := range []uint64{A, B} {
				if uint64(row[0]) == st {
					found[s] = true
					got[s][0] = row[1+int(sbase.MetricEventPass)]
					got[s][1] = row[1+int(sbase.MetricEventBlock)]
				}
			}
		}
		names := []string{"A", "B"}
		for s := 0; s < 2; s++ {
			if !found[s] {
				return &parFail{"right_bucket", "bucket-of-recorded-timestamps-missing",
					fmt.Sprintf("round %d: no slot carries start %d (bucket %s) although %d/%d were recorded for it", round, []uint64{A, B}[s], names[s], want[s][0], want[s][1])}, rounds
			}
			for e := 0; e < 2; e++ {
				if got[s][e] > want[s][e] || (!c.Stale && got[s][e] != want[s][e]) {
					o := 1 - s
					return &parFail{"right_bucket", "amount-credited-to-other-bucket",
						fmt.Sprintf("round %d: event %d: bucket %s [start %d] holds %d, the goroutines' ledgers recorded %d for it; bucket %s holds %d for %d recorded (boundary %d, %d goroutines x %d amounts)",
							round, e, names[s], []uint64{A, B}[s], got[s][e], want[s][e], names[o], got[o][e], want[o][e], c.T, c.G, c.M)}, rounds
				}
			}
		}
		// window reads
		for e := 0; e < 2; e++ {
			all := want[0][e] + want[1][e]
			if v := arr.CountWithTime(c.T, evs[e]); v > all || (!c.Stale && v != all) {
				sig := "total-differs-from-recorded"
				if v > all {
					sig = "total-exceeds-recorded"
				}
				return &parFail{"no_invention", sig, fmt.Sprintf("round %d: event %d: window at %d reports %d, recorded %d", round, e, c.T, v, all)}, rounds
			}
		}
		for e := 0; e < 2; e++ {
			if v := arr.CountWithTime(A+itv, evs[e]); v > want[1][e] || (!c.Stale && v != want[1][e]) {
				sig := "later-window-differs-from-recorded"
				if v > want[1][e] {
					sig = "expired-bucket-visible"
				}
				return &parFail{"expired_invisible", sig,
					fmt.Sprintf("round %d: event %d: window at %d (bucket A expired) reports %d, recorded in that window %d", round, e, A+itv, v, want[1][e])}, rounds
			}
		}
	}
	return nil, rounds
}

func parLeg(root *rng.R, rep *emit.Report, n int, only int, budget time.Duration) {
	deadline := time.Now().Add(budget)
	one := func(id int) {
		c := genPar(root.Fork(uint64(id)), id)
		f, rounds := runPar(c, deadline)
		rep.Evaluations++
		rep.Count("par_cases", 1)
		rep.Count("par_recorded_amounts", c.Rounds*c.G*c.M) // configured, not measured: deterministic
		if c.Stale {
			rep.Count("par_cases_with_rollover_by_racing_recorders", 1)
		}
		if rounds < c.Rounds && f == nil {
			rep.Count("par_cut_short_by_budget", 1)
		}
		if f != nil {
			rep.Fail(c.ID, f.clause, f.sig, f.detail, c)
		}
		if only >= 0 {
			fmt.Printf("{\"input\": %+v, \"rounds\": %d}\n", c, rounds)
		}
	}
	if only >= 0 {
		one(only)
		return
	}
	before := len(rep.MonitorFailures)
	for j := 0; j < n; j++ {
		if len(rep.MonitorFailures) > before {
			break
		}
		one(parBase + j)
	}
}

// ---- racing for the rollover -------------------------------------------------------------------

const raceBase = 1400000

type raceCase struct {
	ID     int    `json:"id"`
	N      uint32 `json:"n"`
	BL     uint32 `json:"bl"`
	T0     uint64 `json:"t0"` // start of the first bucket recorded into (the array is created one interval earlier)
	G      int    `json:"goroutines"`
	Rounds int    `json:"rounds"` // round r: every goroutine records Amt once with timestamp T0 + r*bl (+ offset < bl)
	Amt    int64  `json:"amount"`
}

func genRace(r *rng.R, id int, rounds int) raceCase {
	c := raceCase{ID: id, Rounds: rounds}
	c.N = uint32(r.PickI(2, 3, 4, 4))
	c.BL = uint32(r.PickI(1, 10, 500))
	c.T0 = uint64(r.Range(1000, 2000000)) * uint64(c.BL) * 3
	c.G = int(r.PickI(8, 16, 16))
	c.Amt = r.PickI(1, 1, 3)
	return c
}

func runRace(c raceCase, deadline time.Time) (f *parFail, rounds int) {
	defer func() {
		if p := recover(); p != nil {
			f = &parFail{"no_panic", "panic-in-code-under-test", fmt.Sprint(p)}
		}
	}()
	bl := uint64(c.BL)
	arr := stat.NewBucketLeapArrayWithTime(c.N, c.N*c.BL, c.T0-uint64(c.N)*bl)
	// yield-point jitter: every goroutine gives up the processor at a pseudo-random quarter of the yield
	// points of the lock-free code it passes (vhook.Yield sits immediately before each atomic access), so
	// the windows between two accesses - e.g. between seeing a stale start and the TryLock - are actually
	// hit by the other recorders.  Every asserted fact holds under every schedule, jitter or not.
	vhook.SetController(&jitter{})
	defer vhook.SetController(nil)
	gates := make([]chan struct{}, c.Rounds)
	for i := range gates {
		gates[i] = make(chan struct{})
	}
	var wg sync.WaitGroup
	var mu sync.Mutex
	var panics []string
	stop := make(chan struct{})
	for g := 0; g < c.G; g++ {
		go func(g int) {
			defer func() {
				if p := recover(); p != nil {
					mu.Lock()
					panics = append(panics, fmt.Sprint(p))
					mu.Unlock()
					wg.Done()
				}
			}()
			for r := 0; r < c.Rounds; r++ {
				select {
				case <-gates[r]:
				case <-stop:
					return
				}
				arr.VerifAddCountWithTime(c.T0+uint64(r)*bl+uint64(g)%bl, sbase.MetricEventPass, c.Amt)
				wg.Done()
			}
		}(g)
	}
	defer close(stop)
	per := int64(c.G) * c.Amt
	for r := 0; r < c.Rounds; r++ {
		if time.Now().After(deadline) {
			break
		}
		wg.Add(c.G)
		close(gates[r])
		fin := make(chan struct{})
		go func() { wg.Wait(); close(fin) }()
		select {
		case <-fin:
		case <-time.After(30 * time.Second):
			return &parFail{"termination", "racing-recorders-did-not-finish", fmt.Sprintf("round %d: %d recorders racing for the rollover of bucket %d did not finish within 30 s", r, c.G, c.T0+uint64(r)*bl)}, rounds
		}
		mu.Lock()
		np := len(panics)
		mu.Unlock()
		if np > 0 {
			return &parFail{"no_panic", "panic-in-code-under-test", panics[0]}, rounds
		}
		rounds++
		S := c.T0 + uint64(r)*bl
		found := false
		for _, row := range arr.VerifSlots() {
			if uint64(row[0]) == S {
				found = true
				if got := row[1+int(sbase.MetricEventPass)]; got > per || got < 0 {
					return &parFail{"no_invention", "update-duplicated-at-rollover",
						fmt.Sprintf("round %d: %d goroutines recorded %d each with timestamps in bucket %d while its slot was being rolled over; the bucket holds %d > %d recorded", r, c.G, c.Amt, S, got, per)}, rounds
				}
			}
		}
		if !found {
			return &parFail{"right_bucket", "bucket-of-recorded-timestamps-missing", fmt.Sprintf("round %d: no slot carries start %d after %d recorders used it", r, S, c.G)}, rounds
		}
		inWin := int64(r + 1)
		if inWin > int64(c.N) {
			inWin = int64(c.N)
		}
		if v := arr.CountWithTime(S, sbase.MetricEventPass); v > inWin*per || v < 0 {
			return &parFail{"no_invention", "total-exceeds-recorded", fmt.Sprintf("round %d: window at %d reports %d, recorded in it %d", r, S, v, inWin*per)}, rounds
		}
	}
	return nil, rounds
}

func raceLeg(root *rng.R, rep *emit.Report, n, roundsPer int, only int, budget time.Duration) {
	deadline := time.Now().Add(budget)
	one := func(id int) {
		c := genRace(root.Fork(uint64(id)), id, roundsPer)
		f, rounds := runRace(c, deadline)
		rep.Evaluations++
		rep.Count("race_cases", 1)
		rep.Count("race_rollovers_raced_for", c.Rounds) // configured, not measured: deterministic
		if rounds < c.Rounds && f == nil {
			rep.Count("race_cut_short_by_budget", 1)
		}
		if f != nil {
			rep.Fail(c.ID, f.clause, f.sig, f.detail, c)
		}
		if only >= 0 {
			fmt.Printf("{\"input\": %+v, \"rounds\": %d}\n", c, rounds)
		}
	}
	if only >= 0 {
		one(only)
		return
	}
	before := len(rep.MonitorFailures)
	for j := 0; j < n; j++ {
		if len(rep.MonitorFailures) > before {
			break
		}
		one(raceBase + j)
	}
}

// jitter is a vhook.Controller for real-thread legs: no goroutine is ever held, a quarter of the yields
// hand the processor to somebody else
type jitter struct{ n uint64 }

func (j *jitter) OnYield(int) {
	if x := atomic.AddUint64(&j.n, 0x9E3779B97F4A7C15); (x>>61)&3 == 0 {
		runtime.Gosched()
	}
}
