//go:build verif

package main

import (
	"fmt"
	"sync"
	"sync/atomic"
	"time"

	sbase "github.com/alibaba/sentinel-golang/core/base"
	stat "github.com/alibaba/sentinel-golang/core/stat/base"

	"vh/internal/emit"
)

const (
	d7Base     = 1000000
	edgeBase   = 1100000
	wrapBase   = 1200000
	nWrap      = 28
	lateBase   = 1250000
	nLate      = 30
	corpusBase = 1500000
	enumBase   = 2000000
	enumStride = 1000000
	enumCap    = 300000
)

// every k-th enumerated interleaving of configuration ci is also evaluated against the Coq model
func enumSample(ci int) int {
	return 97
}

type decision struct {
	chosen  evT
	enabled []evT
}

// enumerate runs every interleaving of c0 (stateless depth-first search: each complete schedule is
// executed from scratch; alternatives are the events that were enabled at each decision).
func enumerate(c0 caseT, baseID int, cb func(c caseT, tr *traceT, k int)) int {
	count := 0
	var dfs func(prefix []evT)
	dfs = func(prefix []evT) {
		if count >= enumCap {
			return
		}
		var ds []decision
		ch := func(r *runner, en []evT) (evT, bool) {
			var e evT
			if len(ds) < len(prefix) {
				e = prefix[len(ds)]
				ok := false
				for _, x := range en {
					if x == e {
						ok = true
					}
				}
				if !ok {
					panic(fmt.Sprintf("enumeration: prefix event %v not enabled", e))
				}
			} else {
				e = en[0]
			}
			ds = append(ds, decision{e, append([]evT{}, en...)})
			return e, true
		}
		c := c0
		c.ID = baseID + count
		tr := execute(c, ch)
		for attempt := 0; attempt < 2 && tr.SchedTimeout; attempt++ {
			ds = nil // same prefix, fresh decision log
			tr = execute(c, ch)
		}
		cb(c, tr, count)
		count++
		for d := len(ds) - 1; d >= len(prefix); d-- {
			past := false
			for _, alt := range ds[d].enabled {
				if past {
					np := make([]evT, 0, d+1)
					for _, x := range ds[:d] {
						np = append(np, x.chosen)
					}
					np = append(np, alt)
					dfs(np)
				}
				if alt == ds[d].chosen {
					past = true
				}
			}
		}
	}
	dfs(nil)
	return count
}

// stress: randomized parallel run under the real Go scheduler (no controller). Search only:
// the monitor is "a returned total never exceeds what had been issued for recording".
func stress(rep *emit.Report) {
	const G, M = 8, 20000
	for _, geo := range [][2]uint32{{2, 2}, {2, 20}, {3, 3}, {1, 1}} {
		arr := stat.NewBucketLeapArrayWithTime(geo[0], geo[1], 1000)
		var clk, issued int64 = 1000, 0
		var wg sync.WaitGroup
		var bad int64
		stop := make(chan struct{})
		go func() {
			for {
				select {
				case <-stop:
					return
				default:
					atomic.AddInt64(&clk, 1)
					for i := 0; i < 200; i++ {
						_ = i
					}
				}
			}
		}()
		for g := 0; g < G; g++ {
			wg.Add(1)
			go func(g int) {
				defer wg.Done()
				for i := 0; i < M; i++ {
					now := uint64(atomic.LoadInt64(&clk))
					if (i+g)%3 != 0 {
						atomic.AddInt64(&issued, 1)
						arr.VerifAddCountWithTime(now, sbase.MetricEventPass, 1)
					} else {
						v := arr.CountWithTime(now, sbase.MetricEventPass)
						if v > atomic.LoadInt64(&issued) || v < 0 {
							atomic.AddInt64(&bad, 1)
						}
					}
				}
			}(g)
		}
		// watchdog: with a leaked lock the workers spin forever under the real scheduler
		fin := make(chan struct{})
		go func() { wg.Wait(); close(fin) }()
		select {
		case <-fin:
		case <-time.After(120 * time.Second):
			close(stop)
			rep.Fail(-1, "termination", "stress-did-not-finish", fmt.Sprintf("parallel stress on geometry %v did not finish within 120 s", geo), nil)
			return
		}
		close(stop)
		rep.Count("stress_operations", G*M)
		if bad > 0 {
			rep.Fail(-1, "no_invention", "stress-total-exceeds-issued", fmt.Sprintf("%d reads exceeded the number of amounts issued (geometry %v)", bad, geo), nil)
		}
	}
}
