//go:build verif

package main

import "github.com/alibaba/sentinel-golang/logging"

type nopLogger struct{}

func (nopLogger) Debug(string, ...interface{})        {}
func (nopLogger) DebugEnabled() bool                  { return false }
func (nopLogger) Info(string, ...interface{})         {}
func (nopLogger) InfoEnabled() bool                   { return false }
func (nopLogger) Warn(string, ...interface{})         {}
func (nopLogger) WarnEnabled() bool                   { return false }
func (nopLogger) Error(error, string, ...interface{}) {}
func (nopLogger) ErrorEnabled() bool                  { return false }

func init() { _ = logging.ResetGlobalLogger(nopLogger{}) }
