//go:build verif

package main

// Monitor-only legs of vh-c05 that do not fit the in-Coq correspondence:
//   - big-capacity cases (pseudo ids bigBase+variant): a rule configured with ParamsMaxCapacity
//     above the package constant hotspot.ParamsMaxCapacity and just over that many distinct live
//     values - the configured capacity is NOT exceeded, so nothing may be forgotten;
//   - reload cases (pseudo ids reloadBase+i): the specific-item table of a rule is replaced by
//     a table differing in one key / one threshold (zero thresholds included) through
//     LoadRulesOfResource; afterwards the threshold in force for a value is the NEW table's.
// Both state the property on the implementation's trace with their own expectations; `--only
// <pseudo id>` replays one of them.

import (
	"fmt"
	"strconv"

	sentinel "github.com/alibaba/sentinel-golang/api"
	"github.com/alibaba/sentinel-golang/core/base"
	"github.com/alibaba/sentinel-golang/core/hotspot"

	"vh/internal/emit"
	kit "vh/internal/hotspotkit"
	"vh/internal/rng"
)

const (
	bigBase    = 1000000
	reloadBase = 2000000
	nBig       = 2
)

type bigCase struct {
	ID       int    `json:"id"`
	Kind     string `json:"kind"`
	Behavior int    `json:"behavior"`
	Cap      int64  `json:"params_max_capacity"`
	Values   int    `json:"distinct_values"`
	Dur      int64  `json:"duration_sec"`
	Note     string `json:"note"`
}

// runBig: threshold 1 per 10 s, no burst / no queueing: every value is admitted exactly once at
// one instant. n distinct values (n just above hotspot.ParamsMaxCapacity, below the configured
// capacity) are requested once each, then the oldest ones again at the same instant: they must be
// refused (a second admission is 2 tokens against an envelope of 1, resp. a spacing of 0 ms
// against 10 000 ms), and the cache must still hold all n values.
func runBig(variant int, rep *emit.Report) {
	bc := bigCase{ID: bigBase + variant, Kind: "big-capacity", Behavior: variant % 2,
		Cap: []int64{25000, 40000}[variant%2], Values: hotspot.ParamsMaxCapacity + 1 + 2*variant, Dur: 10,
		Note: "values are the ints 100000..100000+n-1, one request each, then the first 3 again at the same instant"}
	res := "c05big-" + strconv.Itoa(variant)
	rule := &hotspot.Rule{ID: "0", Resource: res, MetricType: hotspot.QPS, ControlBehavior: hotspot.ControlBehavior(bc.Behavior),
		ParamIndex: 0, Threshold: 1, DurationInSec: bc.Dur, ParamsMaxCapacity: bc.Cap}
	if _, err := hotspot.LoadRulesOfResource(res, []*hotspot.Rule{rule}); err != nil {
		panic(err)
	}
	defer hotspot.ClearRulesOfResource(res)
	clk.SetMs(clk0)
	clk.TakeSleeps()
	fail := func(clause, sig, detail string) {
		rep.Fail(bc.ID, clause, sig, detail, bc)
	}
	admitted := map[int]int{}
	req := func(v int) bool {
		kit.Beat()
		e, b := sentinel.Entry(res, sentinel.WithArgs(v))
		clk.TakeSleeps()
		if b != nil {
			return false
		}
		e.Exit()
		admitted[v]++
		return true
	}
	for i := 0; i < bc.Values; i++ {
		if !req(100000 + i) {
			fail("C05_idle_grant", "first-request-of-a-value-refused", fmt.Sprintf("value #%d refused on first sight, threshold 1", i))
			return
		}
	}
	for i := 0; i < 3; i++ {
		if req(100000 + i) {
			clause, what := "C05_envelope_total", "2 tokens admitted at one instant, threshold+burst = 1"
			if bc.Behavior == 1 {
				clause, what = "C05_throttle_spacing", "two requests scheduled 0 ms apart, spacing 10000 ms"
			}
			fail(clause, "value-forgotten-although-configured-capacity-not-exceeded",
				fmt.Sprintf("value #%d (the %s oldest of %d distinct values, ParamsMaxCapacity %d): %s", i, []string{"1st", "2nd", "3rd"}[i], bc.Values, bc.Cap, what))
			break
		}
	}
	for _, tc := range hotspot.VerifTrafficControllersFor(res) {
		if got := len(tc.BoundMetric().RuleTimeCounter.Keys()); got != bc.Values {
			fail("LRU_refines_map", "cache-holds-fewer-values-than-seen-below-configured-capacity",
				fmt.Sprintf("RuleTimeCounter holds %d of %d distinct values, ParamsMaxCapacity %d", got, bc.Values, bc.Cap))
		}
	}
}

type reloadCase struct {
	ID      int      `json:"id"`
	Kind    string   `json:"kind"`
	Before  kit.Rule `json:"rule_before"`
	After   kit.Rule `json:"rule_after"`
	Warm    []int    `json:"warmup_values"`
	Probes  [][2]int `json:"probes"` // value id, batch
	Comment string   `json:"comment"`
}

func genReload(r *rng.R, i int) reloadCase {
	rc := reloadCase{ID: reloadBase + i, Kind: "reload-specific-table"}
	vals := pickVals(r, 6)
	base := kit.Rule{Metric: 1, Behavior: r.Intn(2), Thr: r.PickI(1, 2, 3), Dur: 1, Idx: 0}
	if base.Behavior == 0 {
		base.Burst = r.PickI(0, 0, 1)
	} else {
		base.MaxQ = r.PickI(0, 100)
	}
	thr := func() int64 { return r.PickI(0, 0, 0, 1, 5, 7) }
	nA := 1 + r.Intn(3)
	var A [][2]int64
	for j := 0; j < nA; j++ {
		A = append(A, [2]int64{int64(vals[j]), thr()})
	}
	B := append([][2]int64{}, A...)
	switch r.Intn(4) {
	case 0: // one key replaced by another one: same size, the shape Rule.Equals must tell apart
		j := r.Intn(len(B))
		B[j] = [2]int64{int64(vals[3]), r.PickI(1, 5, 7)}
		rc.Comment = "one key replaced"
	case 1: // one threshold changed
		j := r.Intn(len(B))
		B[j][1] = B[j][1] + r.PickI(1, 5)
		rc.Comment = "one threshold changed"
	case 2: // one key removed
		j := r.Intn(len(B))
		B = append(B[:j:j], B[j+1:]...)
		rc.Comment = "one key removed"
	default: // one key added
		B = append(B, [2]int64{int64(vals[3]), thr()})
		rc.Comment = "one key added"
	}
	rc.Before, rc.After = base, base
	rc.Before.Spec, rc.After.Spec = A, B
	rc.Warm = []int{vals[4], vals[4], vals[4]}
	for _, v := range []int{vals[0], vals[1], vals[2], vals[3], vals[5]} {
		tB, tA := rc.After.ThresholdFor(kit.KeyID(v)), rc.Before.ThresholdFor(kit.KeyID(v))
		b := r.PickI(1, 1, tB, tB+base.Burst, tB+base.Burst+1, tA+base.Burst, tA+base.Burst+1)
		if b < 1 {
			b = 1
		}
		rc.Probes = append(rc.Probes, [2]int{v, int(b)})
	}
	return rc
}

// runReload: the probes are values never requested before, so each is a first sight under the
// reloaded rule: reject mode admits iff T_v > 0 and batch <= T_v + burst, throttling mode iff
// T_v > 0, with T_v read from the NEW specific-item table.
func runReload(rc reloadCase, rep *emit.Report) {
	res := "c05rl-" + strconv.Itoa(rc.ID)
	load := func(ru kit.Rule) {
		if _, err := hotspot.LoadRulesOfResource(res, []*hotspot.Rule{kit.GoRule(ru, res, 0)}); err != nil {
			panic(err)
		}
	}
	load(rc.Before)
	defer hotspot.ClearRulesOfResource(res)
	clk.SetMs(clk0)
	clk.TakeSleeps()
	entry := func(v int, batch uint32) *base.BlockError {
		kit.Beat()
		e, b := sentinel.Entry(res, kit.Options(kit.Req{Args: []int{v}, Batch: batch})...)
		clk.TakeSleeps()
		if e != nil {
			e.Exit()
		}
		return b
	}
	for _, v := range rc.Warm {
		entry(v, 1)
	}
	load(rc.After)
	for _, p := range rc.Probes {
		v, b := p[0], int64(p[1])
		T := rc.After.ThresholdFor(kit.KeyID(v))
		want := T > 0 && (rc.After.Behavior == 1 || b <= T+rc.After.Burst)
		got := entry(v, uint32(b)) == nil
		if got != want {
			rep.Fail(rc.ID, "C05_specific_threshold", "specific-threshold-of-reloaded-table-not-in-force",
				fmt.Sprintf("after the reload (%s) value %d has threshold %d (before: %d), burst %d: first request with batch %d admitted=%v, expected %v",
					rc.Comment, v, T, rc.Before.ThresholdFor(kit.KeyID(v)), rc.After.Burst, b, got, want), rc)
			return
		}
	}
}

// runExtra dispatches a pseudo id (replay) or runs all extra cases of the tier.
func runExtra(only int, nReload int, root *rng.R, rep *emit.Report) {
	one := func(id int) {
		rep.Evaluations++
		if id >= fieldBase {
			runField(genField(root.Fork(uint64(id)), id-fieldBase), rep)
			rep.Count("extra_field_change_reload_cases", 1)
		} else if id >= reloadBase {
			runReload(genReload(root.Fork(uint64(id)), id-reloadBase), rep)
			rep.Count("extra_reload_cases", 1)
		} else {
			runBig(id-bigBase, rep)
			rep.Count("extra_big_capacity_cases", 1)
		}
	}
	if only >= 0 {
		one(only)
		return
	}
	for v := 0; v < nBig; v++ {
		one(bigBase + v)
	}
	for i := 0; i < nReload; i++ {
		one(reloadBase + i)
	}
	for i := 0; i < 3*nReload; i++ {
		one(fieldBase + i)
	}
}
