//go:build verif

// vh-c05: correspondence + monitor harness for property C05 (hot-parameter QPS rules).
package main

import (
	"encoding/json"
	"fmt"
	"math/big"
	"os"
	"strconv"
	"time"

	sentinel "github.com/alibaba/sentinel-golang/api"
	"github.com/alibaba/sentinel-golang/core/hotspot"

	"vh/internal/cli"
	"vh/internal/emit"
	"vh/internal/env"
	kit "vh/internal/hotspotkit"
	"vh/internal/rng"
	"vh/internal/vclock"
)

const clk0 = uint64(1700000000000)

// ---- generator ------------------------------------------------------------------------------

func pickVals(r *rng.R, n int) []int {
	p := r.Perm(kit.PoolSize)
	vs := make([]int, n)
	for i := range vs {
		vs[i] = p[i] + 1
	}
	return vs
}

func genRule(r *rng.R, vals []int, behavior int) kit.Rule {
	ru := kit.Rule{Metric: 1, Behavior: behavior}
	ru.Thr = r.PickI(0, 1, 1, 2, 2, 3, 5, 10, 100, 1000, 2000, 3000)
	if r.Chance(1, 40) {
		ru.Thr = 9000000000000000
	}
	ru.Dur = r.PickI(1, 1, 1, 2, 5)
	if behavior == 0 {
		ru.Burst = r.PickI(0, 0, 1, 3, 10)
	} else {
		ru.MaxQ = r.PickI(0, 1, 10, 100, 500, 1000, 5000)
		if r.Chance(1, 3) { // spacing of a few ms, so that queues build up
			ru.Thr = r.PickI(100, 250, 300, 700, 1000)
		}
	}
	ru.Idx = int(r.PickI(0, 0, 0, 0, 1, -1, -1, -2, 3))
	if r.Chance(1, 5) {
		ru.Key = 1 + r.Intn(2)
		if ru.Idx > 0 {
			ru.Idx = 0
		}
	}
	ru.Cap = r.PickI(0, 0, 0, 1, 2, 3, 4)
	if r.Chance(4, 10) {
		n := 1 + r.Intn(2)
		used := map[int]bool{}
		for i := 0; i < n; i++ {
			v := vals[r.Intn(len(vals))]
			if used[v] {
				continue
			}
			used[v] = true
			ru.Spec = append(ru.Spec, [2]int64{int64(v), r.PickI(0, 1, 2, 4, 7, -1, 2000)})
		}
	}
	return ru
}

func genCase(r *rng.R, id int) kit.Case {
	c := kit.Case{ID: id, Adv: r.Chance(1, 2)}
	switch id {
	case 0: // D24 witness: 2000 per second is paced at 0 ms
		c.Adv = true
		c.Rules = [][]kit.Rule{{{Metric: 1, Behavior: 1, Thr: 2000, Dur: 1, MaxQ: 0}}}
		for i := 0; i < 12; i++ {
			c.Ops = append(c.Ops, kit.Op{Kind: "enter", Req: &kit.Req{Args: []int{5}, Batch: 1}})
		}
		return c
	case 1: // int64 overflow witness: threshold 9e15 per second, idle 1025 ms
		c.Rules = [][]kit.Rule{{{Metric: 1, Behavior: 0, Thr: 9000000000000000, Dur: 1}}}
		c.Ops = []kit.Op{{Kind: "enter", Req: &kit.Req{Args: []int{5}, Batch: 1}}, {Kind: "tick", Ms: 1025},
			{Kind: "enter", Req: &kit.Req{Args: []int{5}, Batch: 1}}}
		return c
	}
	switch id % 10 {
	case 8:
		return genTrickleSpike(r, id)
	case 9:
		return genIdleBurst(r, id)
	}
	nvals := 1 + r.Intn(4)
	vals := pickVals(r, nvals)
	nanCase := r.Chance(1, 20)
	nextNaN := kit.NaNBase
	shape := r.Intn(20)
	var nres int
	switch {
	case shape < 12:
		nres = 1
		c.Rules = [][]kit.Rule{{genRule(r, vals, r.Intn(2))}}
	case shape < 17:
		nres = 1
		b0 := r.Intn(2)
		c.Rules = [][]kit.Rule{{genRule(r, vals, b0), genRule(r, vals, 0)}}
		if r.Bool() {
			c.Rules[0][0], c.Rules[0][1] = c.Rules[0][1], c.Rules[0][0]
		}
	default:
		nres = 2
		c.Rules = [][]kit.Rule{{genRule(r, vals, r.Intn(2))}, {genRule(r, vals, r.Intn(2))}}
	}
	nops := 18 + r.Intn(30)
	for len(c.Ops) < nops {
		res := r.Intn(nres)
		ru := c.Rules[res][r.Intn(len(c.Rules[res]))]
		dms := ru.Dur * 1000
		if r.Chance(6, 10) {
			ivl := int64(0)
			if ru.Thr > 0 {
				ivl = dms / ru.Thr
			}
			dt := r.PickI(0, 1, 1, 2, 3, ivl-1, ivl, ivl+1, 2*ivl, dms/2, dms-1, dms, dms+1, dms+1, 2*dms+3, 7*dms)
			if dt < 0 {
				dt = 0
			}
			c.Ops = append(c.Ops, kit.Op{Kind: "tick", Ms: dt})
		}
		q := &kit.Req{}
		val := func() int {
			switch x := r.Intn(40); {
			case x < 33:
				v := vals[r.Intn(len(vals))]
				if v == kit.ZeroFloatID && r.Bool() {
					return kit.NegZeroArg
				}
				return v
			case x < 36:
				return 0
			case x < 38 && nanCase:
				nextNaN++
				return nextNaN
			default:
				return 1 + r.Intn(kit.PoolSize)
			}
		}
		nargs := int(r.PickI(0, 1, 1, 1, 1, 2, 2, 3))
		for i := 0; i < nargs; i++ {
			q.Args = append(q.Args, val())
		}
		hasKey := map[int]bool{} // attachments are a Go map: one binding per key
		for _, rr := range c.Rules[res] {
			if rr.Key != 0 && !hasKey[rr.Key] && r.Chance(7, 10) {
				hasKey[rr.Key] = true
				q.Atts = append(q.Atts, [2]int{rr.Key, val()})
			}
		}
		if r.Chance(1, 10) {
			q.Atts = append(q.Atts, [2]int{3, val()})
		}
		m := ru.Thr + ru.Burst
		switch x := r.Intn(24); {
		case x < 14:
			q.Batch = 1
		case x < 15:
			q.Batch = 0
		case x < 17:
			q.Batch = 2
		case x < 18:
			q.Batch = 3
		case x < 19:
			q.Batch = clampU32(ru.Thr)
		case x < 20:
			q.Batch = clampU32(ru.Thr + 1)
		case x < 21:
			q.Batch = clampU32(m)
		case x < 22:
			q.Batch = clampU32(m + 1)
		case x < 23:
			q.Batch = 4294967295
		default:
			q.Batch = uint32(r.Range(0, 6))
		}
		c.Ops = append(c.Ops, kit.Op{Kind: "enter", Res: res, Req: q})
	}
	return c
}

func enterOp(v int, batch uint32) kit.Op {
	return kit.Op{Kind: "enter", Req: &kit.Req{Args: []int{v}, Batch: batch}}
}

// genTrickleSpike: reject mode, slow steady traffic on one value for several durations - one
// request per (duration+1 .. duration*(T+burst)/T) ms, so that every request refills a bucket
// that still holds unspent tokens while the refill alone stays within the capacity - followed by
// a spike of more than 2*(T+burst) requests inside a few milliseconds. A second value is
// interleaved now and then. The bucket must stay capped at T+burst whatever was left unspent.
func genTrickleSpike(r *rng.R, id int) kit.Case {
	c := kit.Case{ID: id, Adv: r.Bool()}
	ru := kit.Rule{Metric: 1, Behavior: 0, Thr: r.PickI(2, 3, 5, 10, 20), Burst: r.PickI(0, 0, 1, 5),
		Dur: r.PickI(1, 1, 2), Cap: r.PickI(0, 0, 3)}
	vals := pickVals(r, 2)
	if r.Chance(1, 3) {
		ru.Spec = [][2]int64{{int64(vals[0]), r.PickI(2, 4, 7)}}
	}
	c.Rules = [][]kit.Rule{{ru}}
	v, other := vals[0], vals[1]
	T := ru.ThresholdFor(kit.KeyID(v))
	M := T + ru.Burst
	dms := ru.Dur * 1000
	hi := dms * M / T // elapsed time whose refill alone reaches the capacity
	n := 3 + r.Intn(8)
	for i := 0; i < n; i++ {
		c.Ops = append(c.Ops, enterOp(v, 1))
		gap := dms + 1
		if hi > gap && r.Chance(2, 3) {
			gap = r.Range(dms+1, hi)
		}
		if r.Chance(1, 4) {
			c.Ops = append(c.Ops, enterOp(other, uint32(r.PickI(1, 1, 2))))
		}
		c.Ops = append(c.Ops, kit.Op{Kind: "tick", Ms: gap})
	}
	spike := int(2*M) + 2 + r.Intn(int(M)+1)
	for i := 0; i < spike; i++ {
		c.Ops = append(c.Ops, enterOp(v, 1))
		if r.Chance(1, 6) {
			c.Ops = append(c.Ops, kit.Op{Kind: "tick", Ms: r.PickI(0, 1, 2)})
		}
	}
	return c
}

// genIdleBurst: throttling mode with a spacing of tens to hundreds of ms: a run of close
// requests on one value (they queue), an idle gap of at least two spacings (often many), then
// requests closer together than the spacing - repeated. Idle time must not be banked: after the
// gap the first request passes at once and the following ones queue behind it again.
func genIdleBurst(r *rng.R, id int) kit.Case {
	c := kit.Case{ID: id, Adv: r.Bool()}
	ru := kit.Rule{Metric: 1, Behavior: 1, Thr: r.PickI(2, 4, 5, 10, 20, 40), Dur: r.PickI(1, 1, 2),
		MaxQ: r.PickI(0, 150, 300, 1000, 5000), Cap: r.PickI(0, 0, 3)}
	if r.Chance(1, 4) {
		ru.Key, ru.Idx = 1, 0
	}
	vals := pickVals(r, 2)
	c.Rules = [][]kit.Rule{{ru}}
	v, other := vals[0], vals[1]
	ivl := ru.Dur * 1000 / ru.Thr
	req := func(x int) kit.Op {
		if ru.Key != 0 {
			return kit.Op{Kind: "enter", Req: &kit.Req{Atts: [][2]int{{ru.Key, x}}, Batch: 1}}
		}
		return enterOp(x, 1)
	}
	rounds := 2 + r.Intn(3)
	for k := 0; k < rounds; k++ {
		n := 2 + r.Intn(5)
		for i := 0; i < n; i++ {
			c.Ops = append(c.Ops, req(v))
			if r.Chance(1, 3) {
				c.Ops = append(c.Ops, kit.Op{Kind: "tick", Ms: r.PickI(0, 1, ivl/3, ivl-1)})
			}
			if r.Chance(1, 6) {
				c.Ops = append(c.Ops, req(other))
			}
		}
		c.Ops = append(c.Ops, kit.Op{Kind: "tick", Ms: r.PickI(2*ivl, 2*ivl+1, 3*ivl, 5*ivl+7, 15*ivl, 40*ivl) + int64(n)*ivl})
	}
	return c
}

func clampU32(x int64) uint32 {
	if x < 0 {
		return 0
	}
	if x > 4294967295 {
		return 4294967295
	}
	return uint32(x)
}

// ---- monitor: the property stated on the implementation's trace ----------------------------

type admT struct{ t, b int64 }

type valLedger struct {
	seenReq bool
	t0      int64 // first request of the value at this rule
	lastReq int64
	adm     []admT
	total   *big.Int
	sched   int64 // throttling: scheduled pass time of the last admitted request
	hasPass bool
}

type ruleLedger struct {
	vals     map[int]*valLedger
	distinct int
	exceeded bool // more distinct values than the parameter capacity have been seen
	exceedAt int
}

func bi(x int64) *big.Int { return big.NewInt(x) }

type monResult struct {
	nontrivial bool
	waits      int
	exceeded   bool
}

// monitor checks every clause of C05 on the observed trace. It does not use the Coq model.
func monitor(c kit.Case, obs []kit.Obs, rep *emit.Report) (mr monResult) {
	led := make([][]*ruleLedger, len(c.Rules))
	for ri, rs := range c.Rules {
		for range rs {
			led[ri] = append(led[ri], &ruleLedger{vals: map[int]*valLedger{}, exceedAt: -1})
		}
	}
	fail := func(i int, clause, sig, detail string) {
		failOnce(rep, c, clause, sig, fmt.Sprintf("op %d: %s", i, detail))
	}
	sawPass, sawBlock := false, false
	for i, o := range c.Ops {
		if o.Kind != "enter" {
			continue
		}
		ob := obs[i]
		rules := c.Rules[o.Res]
		blocked := ob.Kind == "block"
		if blocked {
			sawBlock = true
			if ob.Type != "BlockTypeHotSpotParamFlow" {
				fail(i, "C05_block_report", "wrong-block-type", "block type "+ob.Type)
			}
			if ob.Idx < 0 || ob.Idx >= len(rules) || kit.Extract(rules[ob.Idx], *o.Req) == 0 {
				fail(i, "C05_no_arg_unlimited", "blocked-by-rule-whose-argument-is-absent", fmt.Sprintf("triggered rule %d", ob.Idx))
				continue
			}
		} else {
			sawPass = true
		}
		anyArg := false
		for _, ru := range rules {
			if kit.Extract(ru, *o.Req) != 0 {
				anyArg = true
			}
		}
		if !anyArg && (blocked || len(ob.Sleeps) > 0) {
			fail(i, "C05_no_arg_unlimited", "request-without-argument-limited", fmt.Sprintf("blocked=%v sleeps=%v", blocked, ob.Sleeps))
			continue
		}
		t := ob.AtMs
		sleeps := ob.Sleeps
		mr.waits += len(sleeps)
		for j, ru := range rules {
			if blocked && ob.Idx < j {
				break
			}
			k := kit.Extract(ru, *o.Req)
			if k == 0 {
				continue
			}
			admitted := !(blocked && ob.Idx == j)
			b := int64(o.Req.Batch)
			L := led[o.Res][j]
			v := L.vals[k]
			if v == nil {
				v = &valLedger{total: new(big.Int)}
				L.vals[k] = v
				L.distinct++
				if int64(L.distinct) > ru.CacheSize() && !L.exceeded {
					L.exceeded = true
					L.exceedAt = i
					mr.exceeded = true
				}
			}
			T := ru.ThresholdFor(k)
			dms := ru.Dur * 1000
			var w int64
			if ru.Behavior == 1 && admitted && len(sleeps) > 0 {
				ns := sleeps[0]
				sleeps = sleeps[1:]
				if ns <= 0 || ns%1000000 != 0 {
					fail(i, "C05_throttle_wait", "wait-not-whole-positive-ms", fmt.Sprintf("sleep %d ns", ns))
				}
				w = ns / 1000000
				if w >= ru.MaxQ {
					fail(i, "C05_throttle_wait", "wait-not-below-max-queueing-time", fmt.Sprintf("wait %d ms, max queueing %d ms", w, ru.MaxQ))
				}
			}
			if L.exceeded {
				// the capacity promise is void: the per-value clauses are not checked any more
				if c.Adv {
					t += w
				}
				continue
			}
			if ru.Behavior == 0 { // reject mode
				M := T + ru.Burst
				if admitted {
					if !v.seenReq {
						v.t0 = t
					}
					v.adm = append(v.adm, admT{t, b})
					v.total.Add(v.total, bi(b))
					// total <= (T+burst) + T*(t-t0)/D   <=>   D*(total-M) <= T*(t-t0)
					lhs := new(big.Int).Mul(bi(dms), new(big.Int).Sub(v.total, bi(M)))
					rhs := new(big.Int).Mul(bi(T), bi(t-v.t0))
					if lhs.Cmp(rhs) > 0 {
						fail(i, "C05_envelope_total", "admitted-tokens-exceed-bucket-envelope", fmt.Sprintf("value %d: admitted %s since t0=%d, now %d, T=%d burst=%d D=%dms", k, v.total, v.t0, t, T, ru.Burst, dms))
					}
					win := new(big.Int)
					for _, a := range v.adm {
						if a.t >= t-dms {
							win.Add(win, bi(a.b))
						}
					}
					if win.Cmp(new(big.Int).Mul(bi(2), bi(M))) > 0 {
						fail(i, "C05_envelope_window", "admitted-tokens-exceed-twice-max-in-one-duration", fmt.Sprintf("value %d: %s tokens in [%d,%d], 2*(T+burst)=%d", k, win, t-dms, t, 2*M))
					}
				} else {
					idle := !v.seenReq || t-v.lastReq > dms
					if idle && T > 0 && b <= T {
						sig := "idle-value-refused-batch-within-threshold"
						if v.seenReq && new(big.Int).Mul(bi(T), bi(t-v.t0)).Cmp(new(big.Int).Lsh(bi(1), 63)) >= 0 {
							sig = "idle-grant-refused-threshold-times-elapsed-ms-overflows-int64"
						}
						fail(i, "C05_idle_grant", sig, fmt.Sprintf("value %d idle since %d, now %d, batch %d <= T=%d, rejected", k, v.lastReq, t, b, T))
					}
				}
			} else { // throttling mode
				if admitted {
					if T <= 0 {
						fail(i, "C05_throttle_spacing", "admitted-with-nonpositive-threshold", fmt.Sprintf("value %d T=%d", k, T))
					} else {
						s := t + w
						if v.hasPass {
							need := new(big.Int).Mul(bi(b), bi(dms))
							floor := new(big.Int).Div(need, bi(T))
							gap := bi(s - v.sched)
							if gap.Cmp(floor) < 0 {
								fail(i, "C05_throttle_spacing", "spacing-below-whole-ms-floor", fmt.Sprintf("value %d: scheduled %d after %d, batch %d, T=%d per %dms", k, s, v.sched, b, T, dms))
							} else if new(big.Int).Mul(gap, bi(T)).Cmp(need) < 0 {
								fail(i, "C05_throttle_exact_spacing", "throttle-spacing-truncated-to-whole-ms", fmt.Sprintf("value %d: scheduled %d after %d (gap %s ms), batch*duration/threshold = %d*%d/%d ms", k, s, v.sched, gap, b, dms, T))
							}
						}
						v.sched = s
						v.hasPass = true
					}
				} else if T > 0 {
					ok := !v.hasPass
					if v.hasPass {
						need := new(big.Int).Mul(bi(b), bi(dms))
						ceil := new(big.Int).Div(new(big.Int).Add(need, bi(T-1)), bi(T))
						ok = bi(t-v.sched).Cmp(ceil) >= 0
					}
					if ok {
						fail(i, "C05_throttle_admit", "rejected-although-spacing-already-satisfied", fmt.Sprintf("value %d: now %d, last scheduled %d (seen=%v), batch %d, T=%d per %dms", k, t, v.sched, v.hasPass, b, T, dms))
					}
				}
			}
			if !v.seenReq {
				v.seenReq = true
				if !admitted {
					v.t0 = t
				}
			}
			v.lastReq = t
			if c.Adv {
				t += w
			}
		}
		if len(sleeps) > 0 {
			fail(i, "C05_throttle_wait", "sleep-without-admitting-throttling-rule", fmt.Sprintf("unexplained sleeps %v", sleeps))
		}
	}
	// independence: the decisions for one value equal those of the history restricted to it
	for ri, rs := range c.Rules {
		if len(rs) != 1 {
			continue
		}
		L := led[ri][0]
		done := 0
		for k := 1; k <= kit.PoolSize && done < 2; k++ {
			if L.vals[k] == nil {
				continue
			}
			done++
			independence(c, obs, ri, k, L.exceedAt, rep)
		}
	}
	mr.nontrivial = (sawPass && sawBlock) || mr.waits > 0
	return
}

var clk *vclock.Clock

// one report per (case, signature), at most 12 per signature: the report list is bounded and a
// frequent known finding must not crowd out a different failure
var (
	failSeen  = map[string]bool{}
	failCount = map[string]int{}
)

func failOnce(rep *emit.Report, c kit.Case, clause, sig, detail string) {
	key := strconv.Itoa(c.ID) + "/" + sig
	if failSeen[key] || failCount[sig] >= 12 {
		return
	}
	failSeen[key] = true
	failCount[sig]++
	rep.Fail(c.ID, clause, sig, detail, c)
}

func independence(c kit.Case, obs []kit.Obs, ri, k, until int, rep *emit.Report) {
	ru := c.Rules[ri][0]
	res := "c05i-" + strconv.Itoa(c.ID) + "-" + strconv.Itoa(ri) + "-" + strconv.Itoa(k)
	if _, err := hotspot.LoadRulesOfResource(res, []*hotspot.Rule{kit.GoRule(ru, res, 0)}); err != nil {
		panic(err)
	}
	defer hotspot.ClearRulesOfResource(res)
	clk.AdvanceOnSleep = c.Adv
	defer func() { clk.AdvanceOnSleep = true }()
	saved := clk.CurrentTimeMillis()
	defer clk.SetMs(saved)
	for i, o := range c.Ops {
		if until >= 0 && i >= until {
			break
		}
		if o.Kind != "enter" || o.Res != ri || kit.Extract(ru, *o.Req) != k {
			continue
		}
		clk.SetMs(uint64(obs[i].AtMs))
		clk.TakeSleeps()
		kit.Beat()
		e, b := sentinel.Entry(res, kit.Options(*o.Req)...)
		var sl []int64
		for _, d := range clk.TakeSleeps() {
			sl = append(sl, int64(d))
		}
		if e != nil {
			e.Exit()
		}
		same := (b != nil) == (obs[i].Kind == "block") && len(sl) == len(obs[i].Sleeps)
		if same {
			for x := range sl {
				same = same && sl[x] == obs[i].Sleeps[x]
			}
		}
		if !same {
			failOnce(rep, c, "C05_independence", "decision-differs-from-single-value-history",
				fmt.Sprintf("op %d value %d: in the full history blocked=%v sleeps=%v; alone blocked=%v sleeps=%v", i, k, obs[i].Kind == "block", obs[i].Sleeps, b != nil, sl))
			return
		}
	}
}

// ---- main -----------------------------------------------------------------------------------

func main() {
	a := cli.Parse()
	env.Init(env.Options{})
	clk = vclock.New(clk0)
	clk.Install()
	root := rng.New(a.Seed)
	rep := emit.NewReport("C05", a.Seed, a.Tier)
	rep.Rule = "1-2 resources x 1-2 hotspot QPS rules (reject / throttling; thresholds 0..3000 and 9e15, bursts, durations 1-5 s, max queueing 0-5000 ms, ParamIndex 0/1/-1/-2/3, ParamKey, ParamsMaxCapacity 0(default)/1-4, specific items incl. 0 and negative), 18-47 entries over 1-4 values of kinds int/int64/int32/uint8/string/bool/float64/float32/struct (plus nil, -0.0, NaN) with clock ticks at 0, +-1 around the spacing and the duration, idle gaps of several durations; batches 0,1,2,3,T,T+1,M,M+1,2^32-1; sleeps advancing the clock or not. One case in ten is a reject-mode trickle (one request per duration+1 .. duration*(T+burst)/T ms for 3-10 durations) followed by a spike of more than 2*(T+burst) requests within a few ms; one in ten is a throttling-mode history of queued runs separated by idle gaps of 2-40 spacings. Plus, monitor only: 2 big-capacity cases (ParamsMaxCapacity 25000 / 40000, 20001 / 20003 distinct values, the oldest requested again at once) and 80 reload cases (the specific-item table replaced by one differing in one key or threshold, zero thresholds included; first requests of fresh values afterwards). One case in three is driven by a caller that re-uses ONE argument slice and ONE attachment map for all requests and overwrites them after every Entry; one in three has a reload of the unchanged rules in progress (LoadRules / LoadRulesOfResource with a probe rule whose controller generator runs the next 0-5 operations, and fails in a third of them): decisions, caches and controller lists must be as without it. Plus, monitor only, 240 field-change reload cases: a warmed-up QPS rule is reloaded (LoadRules / LoadRulesOfResource) with exactly one of capacity, duration, threshold, burst, specific items, ParamIndex, ParamKey changed and then gets round-robin traffic on 1-4 values (more than the old capacity when it was raised): the per-value envelope / spacing afterwards is the NEW rule's, with at most the old threshold+burst carried over where the documented statistic-reuse rule keeps the counters. Non-trivial = at least one admission and one rejection, or at least one requested wait; distinct by full input."
	nCorr := a.Pick(a.N, 230, 6000)
	nMon := a.Pick(a.Mon, 3000, 60000)
	if a.Search {
		nCorr = 0
		nMon *= 5
	}
	var sh *emit.Shards
	if a.Only < 0 && !a.Search {
		var err error
		sh, err = emit.NewShards(a.Out, "Corr.Run_C05", a.Shards, "")
		if err != nil {
			panic(err)
		}
		sh.Add(0, fmt.Sprintf("HK %d %d %d", hotspot.ConcurrencyMaxCount, hotspot.ParamsCapacityBase, hotspot.ParamsMaxCapacity))
	}
	dist := emit.NewDistinct()
	var cur kit.Case
	kit.StartWatchdog(10*time.Second, func() {
		// an Entry call has not returned: the retry loop of PerformChecking makes no progress
		rep.Fail(cur.ID, "C05_lockstep", "perform-checking-does-not-return",
			"an Entry call of this case did not return within 10 s of real time (retry loop of PerformChecking without progress)", cur)
		if a.Only >= 0 {
			for _, f := range rep.MonitorFailures {
				fmt.Printf("MONITOR-FAIL clause=%s signature=%s %s\n", f.Clause, f.Signature, f.Detail)
			}
			os.Exit(0)
		}
		rep.DistinctNontrivial = dist.N()
		if sh != nil {
			rep.Shards = sh.Close()
		}
		if err := rep.Write(a.Out); err != nil {
			fmt.Fprintln(os.Stderr, err)
			os.Exit(2)
		}
		os.Exit(0)
	})
	runOne := func(id int, corr bool) {
		c := genCase(root.Fork(uint64(id)), id)
		if id >= 2 { // driving modes the model cannot see: caller-owned containers, a reload in progress
			kit.Decorate(root.Fork(uint64(id)).Fork(0xDEC0), &c)
		}
		cur = c
		kit.Beat()
		clk.SetMs(clk0)
		obs, finals, _ := kit.Run("c05", c, clk)
		rep.Evaluations++
		mr := monitor(c, obs, rep)
		for _, is := range kit.LastIssues {
			failOnce(rep, c, "C05_independence", is.Sig, is.Detail)
		}
		if c.Reuse {
			rep.Count("cases_caller_reuses_arg_slice_and_attachment_map", 1)
		}
		if c.Reload != nil {
			rep.Count("cases_with_reload_in_progress", 1)
			rep.Count("ops_decided_inside_a_reload", c.Reload.N)
		}
		if mr.nontrivial {
			b, _ := json.Marshal(c)
			dist.Add(string(b))
		}
		rep.Count("cases_adv_"+strconv.FormatBool(c.Adv), 1)
		if mr.exceeded {
			rep.Count("cases_capacity_exceeded", 1)
		}
		for ri := range c.Rules {
			for _, ru := range c.Rules[ri] {
				rep.Count("rule_behavior_"+strconv.Itoa(ru.Behavior), 1)
				if ru.Cap > 0 {
					rep.Count("rule_small_capacity", 1)
				}
				if len(ru.Spec) > 0 {
					rep.Count("rule_with_specific_items", 1)
				}
				if ru.Key != 0 {
					rep.Count("rule_with_param_key", 1)
				}
				if ru.Idx < 0 {
					rep.Count("rule_negative_index", 1)
				}
			}
		}
		for i, o := range c.Ops {
			rep.Count("op_"+o.Kind, 1)
			if o.Kind == "enter" {
				rep.Count("outcome_"+obs[i].Kind, 1)
				rep.Count("sleeps", len(obs[i].Sleeps))
				for _, x := range o.Req.Args {
					rep.Count("arg_kind_"+kit.KindOf(x), 1)
				}
			}
		}
		if corr && sh != nil {
			sh.Add(id, kit.Coq(c, clk0, obs, finals))
			rep.CorrCases++
			rep.CaseInputs[strconv.Itoa(id)] = c
			if id >= 2 {
				rep.Sample(map[string]interface{}{"input": c, "observed": obs})
			}
		}
		if a.Only >= 0 {
			out, _ := json.MarshalIndent(map[string]interface{}{"input": c, "observed": obs, "finals": finals, "coq": kit.Coq(c, clk0, obs, finals)}, "", " ")
			fmt.Println(string(out))
		}
	}
	if a.Only >= bigBase {
		cur = kit.Case{ID: a.Only}
		runExtra(a.Only, 0, root, rep)
		for _, f := range rep.MonitorFailures {
			fmt.Printf("MONITOR-FAIL clause=%s signature=%s %s\n", f.Clause, f.Signature, f.Detail)
		}
		return
	}
	if a.Only >= 0 {
		runOne(a.Only, false)
		for _, f := range rep.MonitorFailures {
			fmt.Printf("MONITOR-FAIL clause=%s signature=%s %s\n", f.Clause, f.Signature, f.Detail)
		}
		return
	}
	for id := 0; id < nMon; id++ {
		runOne(id, id < nCorr)
	}
	// monitor-only legs: configured capacity above the package constant; reload of the specific table
	nReload := a.Pick(0, 80, 1500)
	if a.Search {
		nReload *= 5
	}
	cur = kit.Case{ID: bigBase}
	runExtra(-1, nReload, root, rep)
	rep.DistinctNontrivial = dist.N()
	rep.Consts["hotspot.ConcurrencyMaxCount"] = hotspot.ConcurrencyMaxCount
	rep.Consts["hotspot.ParamsCapacityBase"] = hotspot.ParamsCapacityBase
	rep.Consts["hotspot.ParamsMaxCapacity"] = hotspot.ParamsMaxCapacity
	rep.Consts["hotspot.RuleCheckSlotOrder"] = hotspot.RuleCheckSlotOrder
	if sh != nil {
		rep.Shards = sh.Close()
	}
	if err := rep.Write(a.Out); err != nil {
		fmt.Fprintln(os.Stderr, err)
		os.Exit(2)
	}
}
