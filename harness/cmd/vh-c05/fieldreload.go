//go:build verif

package main

// Field-change reload leg of vh-c05 (monitor only, pseudo ids fieldBase+i; `--only` replays one).
// A QPS rule is loaded and warmed up, then reloaded (hotspot.LoadRules or LoadRulesOfResource) with
// exactly ONE field changed - ParamsMaxCapacity, DurationInSec, Threshold, BurstCount, the specific-item
// table, ParamIndex or ParamKey - and then receives traffic whose envelope depends on that field:
// several values round-robin at one instant and across durations, more values than the OLD capacity
// when the capacity was raised. What the property promises afterwards is the NEW rule's per-value
// metering. The statistics collected under the old rule may only count where the documented reuse rule
// keeps them (same resource, metric type, control behaviour, duration AND capacity); then a value can
// at most still own what the old rule allowed it (its old threshold+burst). Stated per value v, while
// no more distinct values than the NEW capacity have been requested since the reload:
//   reject:     tokens admitted for v from the reload to t  <=  carry + (T_v+burst) + T_v*(t-reload)/D
//               (carry = largest threshold+burst of the old rule if the statistics are kept, else 0);
//               nothing is admitted when T_v <= 0; if the statistics are not kept, v's first request
//               with 0 < batch <= T_v+burst is admitted;
//   throttling: two consecutive requests admitted for v after the reload are scheduled at least
//               floor(batch*D_ms/T_v) apart and none waits as long as MaxQueueingTimeMs; if the
//               statistics are not kept, v's first request passes without waiting.
// All quantities are those of the NEW rule (T_v from its specific-item table, v selected by its
// ParamIndex / ParamKey).

import (
	"fmt"
	"strconv"
	"time"

	sentinel "github.com/alibaba/sentinel-golang/api"
	"github.com/alibaba/sentinel-golang/core/hotspot"

	"vh/internal/emit"
	kit "vh/internal/hotspotkit"
	"vh/internal/rng"
)

const fieldBase = 6000000

type fieldReq struct {
	TickMs int64   `json:"tick_ms_before"`
	Req    kit.Req `json:"req"`
}

type fieldCase struct {
	ID      int        `json:"id"`
	Kind    string     `json:"kind"`
	Field   string     `json:"changed_field"`
	Whole   bool       `json:"whole_set_load_rules"`
	Before  kit.Rule   `json:"rule_before"`
	After   kit.Rule   `json:"rule_after"`
	Warm    []fieldReq `json:"traffic_before_reload"`
	Traffic []fieldReq `json:"traffic_after_reload"`
}

var fieldNames = []string{"capacity", "duration", "threshold", "burst", "specific-items", "param-index", "param-key"}

func genField(r *rng.R, i int) fieldCase {
	fc := fieldCase{ID: fieldBase + i, Kind: "reload-one-field-changed", Field: fieldNames[i%len(fieldNames)], Whole: r.Bool()}
	vals := pickVals(r, 5)
	b := kit.Rule{Metric: 1, Behavior: r.Intn(2), Thr: r.PickI(1, 1, 2, 3, 5), Dur: r.PickI(1, 1, 2), Idx: 0}
	if b.Behavior == 0 {
		b.Burst = r.PickI(0, 0, 1, 2)
	} else {
		b.MaxQ = r.PickI(0, 100, 600, 5000)
	}
	if r.Chance(1, 3) {
		b.Spec = [][2]int64{{int64(vals[0]), r.PickI(0, 1, 4)}}
	}
	b.Cap = r.PickI(0, 0, 3, 100)
	a := b
	a.Spec = append([][2]int64(nil), b.Spec...)
	nvals := 1 + r.Intn(4) // distinct values in the traffic after the reload
	switch fc.Field {
	case "capacity":
		b.Cap, a.Cap = r.PickI(1, 1, 2), r.PickI(3, 4, 100, 0)
		if r.Chance(1, 4) { // lowered instead
			b.Cap, a.Cap = a.Cap, b.Cap
		}
		nvals = 2 + r.Intn(3)
	case "duration":
		a.Dur = b.Dur + r.PickI(1, 2, 9)
		if r.Bool() && b.Dur > 1 {
			a.Dur = 1
		}
	case "threshold":
		a.Thr = r.PickI(0, 1, 2, 4, 7)
		if a.Thr == b.Thr {
			a.Thr++
		}
	case "burst":
		b.Behavior, a.Behavior, b.MaxQ, a.MaxQ = 0, 0, 0, 0
		a.Burst = b.Burst + r.PickI(1, 3)
		if r.Bool() {
			a.Burst, b.Burst = b.Burst, a.Burst
		}
	case "specific-items":
		a.Spec = append(a.Spec, [2]int64{int64(vals[1]), r.PickI(0, 1, 6)})
		if len(b.Spec) > 0 && r.Bool() {
			a.Spec = [][2]int64{{b.Spec[0][0], b.Spec[0][1] + r.PickI(1, 3)}}
		}
	case "param-index":
		a.Idx = int(r.PickI(1, -1, -2))
	default: // param-key
		a.Key = 1 + r.Intn(2)
	}
	fc.Before, fc.After = b, a
	mk := func(n int, pool []int, spread bool) []fieldReq {
		var out []fieldReq
		for k := 0; k < n; k++ {
			fr := fieldReq{}
			dms := a.Dur * 1000
			if spread {
				fr.TickMs = r.PickI(0, 0, 0, 0, 0, 1, 1, dms/3, dms/2, dms+1)
			} else {
				fr.TickMs = r.PickI(0, 0, 1, b.Dur*500)
			}
			v0 := pool[k%len(pool)] // round-robin on the selected position
			if r.Chance(1, 5) {
				v0 = pool[r.Intn(len(pool))]
			}
			other := pool[r.Intn(len(pool))]
			q := kit.Req{Args: []int{v0, other}, Batch: uint32(r.PickI(1, 1, 1, 1, 2))}
			if a.Idx != 0 && a.Key == 0 && spread { // the value under test sits at the NEW position
				q.Args = []int{other, v0}
			}
			if a.Key != 0 {
				if spread {
					q.Atts = [][2]int{{a.Key, v0}}
					q.Args = []int{other, other}
				} else if r.Bool() {
					q.Atts = [][2]int{{a.Key, other}}
				}
			}
			fr.Req = q
			out = append(out, fr)
		}
		return out
	}
	fc.Warm = mk(3+r.Intn(8), vals[:1+r.Intn(3)], false)
	fc.Traffic = mk(12+r.Intn(30), vals[:nvals], true)
	return fc
}

func runField(fc fieldCase, rep *emit.Report) {
	res := "c05fld-" + strconv.Itoa(fc.ID)
	reported := false
	fail := func(clause, sig, detail string) {
		if reported || failCount[sig] >= 12 {
			return
		}
		reported = true
		failCount[sig]++
		rep.Fail(fc.ID, clause, sig, detail, fc)
	}
	load := func(ru kit.Rule, whole bool) {
		var err error
		if whole {
			_, err = hotspot.LoadRules([]*hotspot.Rule{kit.GoRule(ru, res, 0)})
		} else {
			_, err = hotspot.LoadRulesOfResource(res, []*hotspot.Rule{kit.GoRule(ru, res, 0)})
		}
		if err != nil {
			fail("C05_specific_threshold", "load-of-valid-rule-fails", fmt.Sprintf("loading %+v returned %v", ru, err))
		}
	}
	defer hotspot.ClearRulesOfResource(res)
	defer func() {
		if p := recover(); p != nil {
			fail("C05_no_spin", "entry-or-load-panics", fmt.Sprint(p))
		}
	}()
	load(fc.Before, fc.Whole)
	clk.SetMs(clk0)
	clk.AdvanceOnSleep = true
	clk.TakeSleeps()
	type outcome struct {
		admitted bool
		waitMs   int64
		at       int64
	}
	do := func(fr fieldReq) outcome {
		kit.Beat()
		clk.AddMs(uint64(fr.TickMs))
		at := int64(clk.CurrentTimeMillis())
		e, b := sentinel.Entry(res, kit.Options(fr.Req)...)
		var w int64
		for _, d := range clk.TakeSleeps() {
			w += int64(d / time.Millisecond)
		}
		if e != nil {
			e.Exit()
		}
		return outcome{admitted: b == nil, waitMs: w, at: at}
	}
	for _, fr := range fc.Warm {
		do(fr)
	}
	load(fc.After, fc.Whole)
	if rs := hotspot.GetRulesOfResource(res); len(rs) != 1 || rs[0].ParamsMaxCapacity != fc.After.Cap || rs[0].Threshold != fc.After.Thr ||
		rs[0].DurationInSec != fc.After.Dur || rs[0].BurstCount != fc.After.Burst || rs[0].ParamIndex != fc.After.Idx {
		fail("C05_specific_threshold", "reloaded-rule-not-in-force", fmt.Sprintf("rules in force after the reload: %+v", rs))
		return
	}
	a, b := fc.After, fc.Before
	kept := a.Behavior == b.Behavior && a.Dur == b.Dur && a.Cap == b.Cap // the documented statistic-reuse rule
	carry := int64(0)
	if kept {
		carry = b.Thr + b.Burst
		for _, s := range b.Spec {
			if s[1]+b.Burst > carry {
				carry = s[1] + b.Burst
			}
		}
	}
	tReload := int64(clk.CurrentTimeMillis())
	D := a.Dur * 1000
	adm := map[int]int64{}      // tokens admitted per value since the reload
	lastSched := map[int]int64{} // throttling: scheduled pass time of the last admitted request
	seen := map[int]bool{}
	for n, fr := range fc.Traffic {
		k := kit.Extract(a, fr.Req)
		o := do(fr)
		if k == 0 {
			if !o.admitted {
				fail("C05_no_arg_unlimited", "request-without-the-selected-argument-limited", fmt.Sprintf("request %d after the reload carries no selected argument and was refused", n))
			}
			continue
		}
		first := !seen[k]
		seen[k] = true
		if int64(len(seen)) > a.CacheSize() {
			return // more values than the NEW capacity: the per-value promise is void from here on
		}
		T := a.ThresholdFor(k)
		bt := int64(fr.Req.Batch)
		what := fmt.Sprintf("field %s changed (%s), request %d after the reload at +%d ms: value %d, batch %d, threshold %d", fc.Field,
			map[bool]string{true: "statistics kept", false: "statistics not reusable"}[kept], n, o.at-tReload, k, bt, T)
		if T <= 0 {
			if o.admitted {
				fail("C05_nonpositive_threshold", "admitted-with-nonpositive-threshold-after-reload", what)
			}
			continue
		}
		if a.Behavior == 0 {
			M := T + a.Burst
			if o.admitted {
				adm[k] += bt
				if (adm[k]-carry-M)*D > T*(o.at-tReload) {
					fail("C05_envelope_total", "admitted-tokens-exceed-envelope-of-reloaded-rule", fmt.Sprintf(
						"%s: %d tokens admitted for the value since the reload, allowed %d (kept from the old rule) + %d (threshold+burst) + %d per %d ms",
						what, adm[k], carry, M, T, D))
				}
			} else if first && !kept && bt > 0 && bt <= M {
				fail("C05_idle_grant", "first-request-refused-although-statistics-not-reusable", what+fmt.Sprintf(": refused, threshold+burst %d", M))
			}
			continue
		}
		// throttling
		if o.waitMs != 0 && o.waitMs >= a.MaxQ {
			fail("C05_throttle_wait", "wait-not-below-max-queueing-time-after-reload", what+fmt.Sprintf(": waited %d ms, max queueing %d", o.waitMs, a.MaxQ))
		}
		if !o.admitted {
			if first && !kept {
				fail("C05_idle_grant", "first-request-refused-although-statistics-not-reusable", what)
			}
			continue
		}
		sched := o.at + o.waitMs
		if first && !kept && o.waitMs != 0 {
			fail("C05_throttle_spacing", "first-request-delayed-although-statistics-not-reusable", what+fmt.Sprintf(": waited %d ms", o.waitMs))
		}
		if prev, ok := lastSched[k]; ok {
			if need := bt * D / T; sched-prev < need {
				fail("C05_throttle_spacing", "spacing-below-floor-of-reloaded-rule", fmt.Sprintf(
					"%s: scheduled %d ms after the previous admitted request of the value, spacing floor(batch*duration/threshold) = %d ms", what, sched-prev, need))
			}
		}
		lastSched[k] = sched
	}
}
