//go:build verif

// vh-c16: correspondence + monitor harness for property C16 (slot chain order, first block
// wins, statistic slots told once, fail-open, block error stable).
package main

import (
	"encoding/json"
	"fmt"
	"os"
	"strconv"

	"github.com/alibaba/sentinel-golang/core/stat"

	"vh/internal/chainh"
	"vh/internal/cli"
	"vh/internal/emit"
	"vh/internal/env"
	"vh/internal/rng"
	"vh/internal/vclock"
)

func main() {
	a := cli.Parse()
	// one statistic geometry for both nodes' read views: 20 x 500 ms = 10 s, so that the sums
	// read through GetSum cover a whole case (cases last < 9 s of virtual time and start 100 s apart)
	env.Init(env.Options{MetricSampleCount: 20, MetricIntervalMs: 10000})
	clk := vclock.New(1700000000000)
	clk.Install()
	root := rng.New(a.Seed)
	rep := emit.NewReport("C16", a.Seed, a.Tier)
	rep.Rule = "1-3 custom chains per case built by inserting 0-2 prepare, 0-5 rule-check, 0-3 recording statistic slots (+ node-prepare wrapper, + the real stat.DefaultSlot) in random order with order values from {0,1,2,999,1000,1001,2^32-1} (collisions frequent); 1 chain in 7 is long: 13-24 slots of at least one kind over 2-4 distinct order values (an unstable sort differs from sort.SliceStable only beyond 12 elements); each slot's behaviour (ok/nil/wait/block with random error fields/panic) selected by the request flag; 8-41 operations (Entry on 1-3 resources with batch/args/traffic type/chain, Exit with and without error incl. repeated, late and void ones, TraceError, TraceCallee, WhenExit handlers that return errors or panic, clock ticks, snapshots) followed by an exit of every entry. Non-trivial = the case contains at least one blocked outcome, one admitted outcome and one slot panic during Entry; distinct by full input."
	nCorr := a.Pick(a.N, 160, 3000)
	nMon := a.Pick(a.Mon, 3000, 60000)
	if a.Search {
		nCorr = 0
		nMon *= 5
	}
	var sh *emit.Shards
	if a.Only < 0 && !a.Search {
		var err error
		pre := fmt.Sprintf("(* constants of the implementation *)\nDefinition impl_stat_slot_order : Z := %d.\nDefinition impl_prepare_slot_order : Z := %d.\n", stat.StatSlotOrder, stat.PrepareSlotOrder)
		sh, err = emit.NewShards(a.Out, "Corr.Run_C16", a.Shards, pre)
		if err != nil {
			panic(err)
		}
	}
	dist := emit.NewDistinct()
	runOne := func(id int, corr bool) {
		c := chainh.Gen(root.Fork(uint64(id)), id, chainh.ProfC16)
		obs := chainh.Run(c, clk)
		rep.Evaluations++
		fails, _, st := chainh.MonitorC16(c, obs)
		for _, f := range fails {
			rep.Fail(c.ID, f.Clause, f.Signature, f.Detail, c)
		}
		for k, v := range st {
			rep.Count(k, v)
		}
		for _, o := range c.Ops {
			rep.Count("op_"+o.Kind, 1)
		}
		for _, ch := range c.Chains {
			seen := map[string]bool{}
			coll := false
			for _, s := range ch.Slots {
				rep.Count("slot_"+s.Kind, 1)
				k := s.Kind + strconv.FormatUint(uint64(s.Order), 10)
				if seen[k] {
					coll = true
				}
				seen[k] = true
			}
			if coll {
				rep.Count("chains_with_order_collision", 1)
			}
			rep.Count("chains", 1)
		}
		if st["blocked"] > 0 && st["entered"] > 0 && st["panic_in_entry"] > 0 {
			b, _ := json.Marshal(c)
			dist.Add(string(b))
		}
		if corr && sh != nil {
			sh.Add(id, chainh.Coq(c, obs))
			rep.CorrCases++
			rep.CaseInputs[strconv.Itoa(id)] = c
			rep.Sample(map[string]interface{}{"input": c, "observed": obs})
		}
		if a.Only >= 0 {
			out, _ := json.MarshalIndent(map[string]interface{}{"input": c, "observed": obs}, "", " ")
			fmt.Println(string(out))
			fmt.Println(chainh.Coq(c, obs))
		}
	}
	if a.Only >= 0 {
		runOne(a.Only, false)
		for _, f := range rep.MonitorFailures {
			fmt.Printf("MONITOR-FAIL clause=%s signature=%s %s\n", f.Clause, f.Signature, f.Detail)
		}
		return
	}
	for id := 0; id < nMon; id++ {
		runOne(id, id < nCorr)
	}
	rep.DistinctNontrivial = dist.N()
	rep.Consts["stat.StatSlotOrder"] = stat.StatSlotOrder
	rep.Consts["stat.PrepareSlotOrder"] = stat.PrepareSlotOrder
	if sh != nil {
		rep.Shards = sh.Close()
	}
	if err := rep.Write(a.Out); err != nil {
		fmt.Fprintln(os.Stderr, err)
		os.Exit(2)
	}
}
