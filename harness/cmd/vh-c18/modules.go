//go:build verif

package main

import (
	"fmt"
	"reflect"
	"sort"
	"strings"

	"github.com/alibaba/sentinel-golang/core/base"
	cb "github.com/alibaba/sentinel-golang/core/circuitbreaker"
	"github.com/alibaba/sentinel-golang/core/flow"
	"github.com/alibaba/sentinel-golang/core/hotspot"
	"github.com/alibaba/sentinel-golang/core/isolation"
	"github.com/alibaba/sentinel-golang/core/system"
	"github.com/alibaba/sentinel-golang/ext/datasource"

	"vh/internal/rng"
)

// module describes one parser / updater / rule manager combination.
type module struct {
	name    string
	parser  datasource.PropertyConverter
	updater datasource.PropertyUpdater
	clear   func() error
	inForce func() []interface{}                            // rule values reported by the module's GetRules
	elems   func(v interface{}) ([]interface{}, bool, bool) // decoded property -> elements (nil or *Rule), isNilSlice, typeOK
	valid   func(r interface{}) bool                        // validity oracle for a decoded *Rule
	genRule func(r *rng.R, fault bool) []kv                 // one rule object as ordered key/value pairs
	fault   bool                                            // supports loader fault injection through a custom generator
}

type kv struct{ K, V string }

// ---- loader fault injection (public extension points of circuitbreaker and hotspot) ----------

const faultStrategy = 100

var (
	faultArmed bool // the custom generator panics while set
	faultFired bool // the custom generator panicked since the flag was last cleared
	genCalls   int  // number of calls of the custom generators
)

type stubBreaker struct{ r *cb.Rule }

func (s *stubBreaker) BoundRule() *cb.Rule             { return s.r }
func (s *stubBreaker) BoundStat() interface{}          { return nil }
func (s *stubBreaker) TryPass(*base.EntryContext) bool { return true }
func (s *stubBreaker) CurrentState() cb.State          { return cb.Closed }
func (s *stubBreaker) OnRequestComplete(uint64, error) {}

type stubHotspot struct {
	r *hotspot.Rule
	m *hotspot.ParamsMetric
}

func (s *stubHotspot) PerformChecking(interface{}, int64) *base.TokenResult { return nil }
func (s *stubHotspot) BoundParamIndex() int                                 { return s.r.ParamIndex }
func (s *stubHotspot) ExtractArgs(*base.EntryContext) interface{}           { return nil }
func (s *stubHotspot) BoundMetric() *hotspot.ParamsMetric                   { return s.m }
func (s *stubHotspot) BoundRule() *hotspot.Rule                             { return s.r }

func installFaultGenerators() {
	if err := cb.SetCircuitBreakerGenerator(cb.Strategy(faultStrategy), func(r *cb.Rule, _ interface{}) (cb.CircuitBreaker, error) {
		genCalls++
		if faultArmed {
			faultFired = true
			panic("injected loader fault")
		}
		return &stubBreaker{r: r}, nil
	}); err != nil {
		panic(err)
	}
	if err := hotspot.SetTrafficShapingGenerator(hotspot.ControlBehavior(faultStrategy), func(r *hotspot.Rule, _ *hotspot.ParamsMetric) hotspot.TrafficShapingController {
		genCalls++
		if faultArmed {
			faultFired = true
			panic("injected loader fault")
		}
		return &stubHotspot{r: r, m: &hotspot.ParamsMetric{}}
	}); err != nil {
		panic(err)
	}
}

// ---- the five modules --------------------------------------------------------------------------

func toIfaces(v interface{}) []interface{} {
	rv := reflect.ValueOf(v)
	out := make([]interface{}, rv.Len())
	for i := range out {
		out[i] = rv.Index(i).Interface()
	}
	return out
}

// ptrElems turns a []*T into its elements (nil interface for a nil pointer).
func ptrElems(v interface{}) ([]interface{}, bool) {
	rv := reflect.ValueOf(v)
	out := make([]interface{}, rv.Len())
	for i := range out {
		if !rv.Index(i).IsNil() {
			out[i] = rv.Index(i).Interface()
		}
	}
	return out, rv.IsNil()
}

func modules() []*module {
	flowSupported := func(r *flow.Rule) bool {
		return r.TokenCalculateStrategy >= flow.Direct && r.TokenCalculateStrategy <= flow.MemoryAdaptive &&
			r.ControlBehavior >= flow.Reject && r.ControlBehavior <= flow.Throttling
	}
	return []*module{
		{name: "flow", parser: datasource.FlowRuleJsonArrayParser, updater: datasource.FlowRulesUpdater,
			clear: flow.ClearRules, inForce: func() []interface{} { return toIfaces(flow.GetRules()) },
			elems: func(v interface{}) ([]interface{}, bool, bool) {
				if _, ok := v.([]*flow.Rule); !ok {
					return nil, false, false
				}
				e, n := ptrElems(v)
				return e, n, true
			},
			valid:   func(r interface{}) bool { x := r.(*flow.Rule); return flow.IsValidRule(x) == nil && flowSupported(x) },
			genRule: genFlow},
		{name: "system", parser: datasource.SystemRuleJsonArrayParser, updater: datasource.SystemRulesUpdater,
			clear: system.ClearRules, inForce: func() []interface{} { return toIfaces(system.GetRules()) },
			elems: func(v interface{}) ([]interface{}, bool, bool) {
				if _, ok := v.([]*system.Rule); !ok {
					return nil, false, false
				}
				e, n := ptrElems(v)
				return e, n, true
			},
			valid:   func(r interface{}) bool { return system.IsValidSystemRule(r.(*system.Rule)) == nil },
			genRule: genSystem},
		{name: "circuitbreaker", parser: datasource.CircuitBreakerRuleJsonArrayParser, updater: datasource.CircuitBreakerRulesUpdater,
			clear: cb.ClearRules, inForce: func() []interface{} { return toIfaces(cb.GetRules()) },
			elems: func(v interface{}) ([]interface{}, bool, bool) {
				if _, ok := v.([]*cb.Rule); !ok {
					return nil, false, false
				}
				e, n := ptrElems(v)
				return e, n, true
			},
			valid: func(r interface{}) bool {
				x := r.(*cb.Rule)
				// a rule whose strategy has no generator is valid but served by no breaker, hence not in force
				supported := x.Strategy == cb.SlowRequestRatio || x.Strategy == cb.ErrorRatio || x.Strategy == cb.ErrorCount || int(x.Strategy) == faultStrategy
				return cb.IsValidRule(x) == nil && supported
			},
			genRule: genBreaker, fault: true},
		{name: "hotspot", parser: datasource.HotSpotParamRuleJsonArrayParser, updater: datasource.HotSpotParamRulesUpdater,
			clear: hotspot.ClearRules, inForce: func() []interface{} { return toIfaces(hotspot.GetRules()) },
			elems: func(v interface{}) ([]interface{}, bool, bool) {
				if _, ok := v.([]*hotspot.Rule); !ok {
					return nil, false, false
				}
				e, n := ptrElems(v)
				return e, n, true
			},
			valid: func(r interface{}) bool {
				x := r.(*hotspot.Rule)
				if hotspot.IsValidRule(x) != nil {
					return false
				}
				if int(x.ControlBehavior) == faultStrategy {
					return true
				}
				return (x.ControlBehavior == hotspot.Reject || x.ControlBehavior == hotspot.Throttling) &&
					(x.MetricType == hotspot.Concurrency || x.MetricType == hotspot.QPS)
			},
			genRule: genHotspot, fault: true},
		{name: "isolation", parser: datasource.IsolationRuleJsonArrayParser, updater: datasource.IsolationRulesUpdater,
			clear: isolation.ClearRules, inForce: func() []interface{} { return toIfaces(isolation.GetRules()) },
			elems: func(v interface{}) ([]interface{}, bool, bool) {
				if _, ok := v.([]*isolation.Rule); !ok {
					return nil, false, false
				}
				e, n := ptrElems(v)
				return e, n, true
			},
			valid:   func(r interface{}) bool { return isolation.IsValidRule(r.(*isolation.Rule)) == nil },
			genRule: genIsolation},
	}
}

// fingerprint renders every field of a rule except its ID (struct or pointer to struct)
// canonically; two rules have the same fingerprint iff all their other fields are equal (maps:
// sorted entries with the dynamic type of every key).
// enforcementForm: the rule managers keep the loaded rule object when a rule that is equal for
// enforcement purposes is reloaded (flow/circuitbreaker isEqualsTo, hotspot Equals); those
// equalities ignore the ID and the fields that do not matter for the rule's strategy. "The
// payload's valid rules are in force" is therefore observed modulo these fields; the wire cases
// compare every field at the parser's output.
func enforcementForm(x interface{}) interface{} {
	switch r := x.(type) {
	case *hotspot.Rule:
		c := *r
		switch c.ControlBehavior {
		case hotspot.Reject:
			c.MaxQueueingTimeMs = 0
		case hotspot.Throttling:
			c.BurstCount = 0
		}
		return &c
	case hotspot.Rule:
		return enforcementForm(&r)
	case *cb.Rule:
		c := *r
		if c.Strategy == cb.ErrorRatio || c.Strategy == cb.ErrorCount {
			c.MaxAllowedRtMs = 0
		}
		return &c
	case cb.Rule:
		return enforcementForm(&r)
	}
	return x
}

func fingerprint(x interface{}) string {
	rv := reflect.ValueOf(enforcementForm(x))
	for rv.Kind() == reflect.Ptr {
		rv = rv.Elem()
	}
	var sb strings.Builder
	t := rv.Type()
	for i := 0; i < rv.NumField(); i++ {
		f := rv.Field(i)
		if n := t.Field(i).Name; n == "ID" || n == "Id" {
			// the rule managers keep the loaded rule object when an equal rule is reloaded, and their
			// equality ignores the ID (flow/circuitbreaker/hotspot isEqualsTo): the ID in force may be
			// the earlier payload's. The wire cases compare the ID at the parser's output.
			continue
		}
		sb.WriteString(t.Field(i).Name)
		sb.WriteByte('=')
		if f.Kind() == reflect.Map {
			var es []string
			it := f.MapRange()
			for it.Next() {
				k := it.Key().Interface()
				es = append(es, fmt.Sprintf("%T:%v->%v", k, k, it.Value().Interface()))
			}
			sort.Strings(es)
			if f.IsNil() {
				sb.WriteString("nilmap")
			}
			sb.WriteString("{" + strings.Join(es, ",") + "}")
		} else {
			sb.WriteString(fmt.Sprintf("%#v", f.Interface()))
		}
		sb.WriteByte(';')
	}
	return sb.String()
}

// ---- rule generators (JSON objects as ordered key/value pairs) -----------------------------------

func pickS(r *rng.R, vs ...string) string { return vs[r.Intn(len(vs))] }

func genFlow(r *rng.R, _ bool) []kv {
	o := []kv{
		{"resource", pickS(r, `"a"`, `"a"`, `"b"`, `"c"`, `""`)},
		{"threshold", pickS(r, "0", "1", "10", "2.5", "1e3", "-1", "100")},
	}
	if r.Chance(1, 2) {
		o = append(o, kv{"id", pickS(r, `"r1"`, `"r2"`)})
	}
	st := pickS(r, "0", "0", "0", "1", "2", "-1")
	o = append(o, kv{"tokenCalculateStrategy", st}, kv{"controlBehavior", pickS(r, "0", "0", "1", "-1")})
	if r.Chance(1, 3) {
		o = append(o, kv{"relationStrategy", pickS(r, "0", "1", "1", "2")}, kv{"refResource", pickS(r, `""`, `"ref"`, `"ref"`)})
	}
	if r.Chance(1, 3) {
		o = append(o, kv{"maxQueueingTimeMs", pickS(r, "0", "500")}, kv{"statIntervalInMs", pickS(r, "0", "1000", "2000", "500")})
	}
	if st == "1" {
		o = append(o, kv{"warmUpPeriodSec", pickS(r, "10", "10", "0")}, kv{"warmUpColdFactor", pickS(r, "0", "3", "2", "1")})
	}
	if st == "2" {
		if r.Chance(3, 4) {
			o = append(o, kv{"lowMemUsageThreshold", "1000"}, kv{"highMemUsageThreshold", "100"},
				kv{"memLowWaterMarkBytes", "1000000"}, kv{"memHighWaterMarkBytes", "2000000"})
		} else {
			o = append(o, kv{"lowMemUsageThreshold", "100"}, kv{"highMemUsageThreshold", "1000"})
		}
	}
	return o
}

func genSystem(r *rng.R, _ bool) []kv {
	o := []kv{
		{"metricType", pickS(r, "0", "1", "2", "3", "4", "4", "5", "7")},
		{"triggerCount", pickS(r, "0.5", "1", "10", "0", "-1", "2.25")},
	}
	if r.Chance(1, 2) {
		o = append(o, kv{"strategy", pickS(r, "-1", "0", "1")})
	}
	if r.Chance(1, 3) {
		o = append(o, kv{"id", pickS(r, `"s1"`, `"s2"`)})
	}
	return o
}

func genBreaker(r *rng.R, fault bool) []kv {
	st := pickS(r, "0", "1", "2", "2")
	if fault {
		st = fmt.Sprint(faultStrategy)
	}
	o := []kv{
		{"resource", pickS(r, `"a"`, `"a"`, `"b"`, `"c"`, `""`)},
		{"strategy", st},
		{"retryTimeoutMs", pickS(r, "1000", "1000", "3000", "0")},
		{"statIntervalMs", pickS(r, "1000", "1000", "10000", "0")},
		{"threshold", pickS(r, "0.5", "0.5", "5", "1", "-1", "1.5")},
	}
	if r.Chance(1, 2) {
		o = append(o, kv{"minRequestAmount", pickS(r, "0", "5")}, kv{"statSlidingWindowBucketCount", pickS(r, "0", "1", "10", "3")})
	}
	if r.Chance(1, 3) {
		o = append(o, kv{"maxAllowedRtMs", pickS(r, "0", "50")}, kv{"probeNum", pickS(r, "0", "1")}, kv{"id", `"b1"`})
	}
	return o
}

func genIsolation(r *rng.R, _ bool) []kv {
	o := []kv{
		{"resource", pickS(r, `"a"`, `"a"`, `"b"`, `"c"`, `""`)},
		{"threshold", pickS(r, "1", "5", "5", "0", "4294967295")},
	}
	if r.Chance(1, 2) {
		o = append(o, kv{"metricType", pickS(r, "0", "0", "1")})
	}
	if r.Chance(1, 3) {
		o = append(o, kv{"id", `"i1"`})
	}
	return o
}

func genHotspot(r *rng.R, fault bool) []kv {
	cbv := pickS(r, "0", "0", "1", "-1")
	if fault {
		cbv = fmt.Sprint(faultStrategy)
	}
	o := []kv{
		{"resource", pickS(r, `"a"`, `"a"`, `"b"`, `"c"`, `""`)},
		{"metricType", pickS(r, "0", "1", "1", "-1")},
		{"controlBehavior", cbv},
		{"threshold", pickS(r, "0", "5", "5", "100", "-1")},
		{"durationInSec", pickS(r, "1", "1", "2", "0")},
	}
	if r.Chance(1, 2) {
		o = append(o, kv{"paramIndex", pickS(r, "0", "1", "-1")}, kv{"burstCount", pickS(r, "0", "3", "-1")},
			kv{"maxQueueingTimeMs", pickS(r, "0", "20", "-1")})
	}
	if r.Chance(1, 3) {
		o = append(o, kv{"paramsMaxCapacity", pickS(r, "0", "100")}, kv{"id", `"h1"`})
	}
	if r.Chance(1, 2) {
		n := r.Intn(4)
		var items []string
		for i := 0; i < n; i++ {
			kind := r.Intn(5)
			var vs string
			switch kind {
			case 0:
				vs = pickS(r, "7", "8", "x7", "-3")
			case 1:
				vs = pickS(r, "s", "t", "")
			case 2:
				vs = pickS(r, "true", "false", "maybe")
			case 3:
				vs = pickS(r, "1.25", "2.000001", "NaN", "abc")
			default:
				vs = "z"
			}
			items = append(items, fmt.Sprintf(`{"valKind":%d,"valStr":%q,"threshold":%d}`, kind, vs, r.PickI(0, 1, 9)))
		}
		if r.Chance(1, 8) {
			o = append(o, kv{"specificItems", "null"})
		} else {
			o = append(o, kv{"specificItems", "[" + strings.Join(items, ",") + "]"})
		}
	}
	return o
}

// render serialises a rule object; style selects compact, spaced or reversed field order (the
// decoded value is the same for all styles unless a key is duplicated)
func render(o []kv, style int) string {
	parts := make([]string, len(o))
	for i, e := range o {
		switch style {
		case 1:
			parts[i] = fmt.Sprintf("%q : %s", e.K, e.V)
		default:
			parts[i] = fmt.Sprintf("%q:%s", e.K, e.V)
		}
	}
	if style == 2 {
		for i, j := 0, len(parts)-1; i < j; i, j = i+1, j-1 {
			parts[i], parts[j] = parts[j], parts[i]
		}
	}
	switch style {
	case 1:
		return "{ " + strings.Join(parts, " ,\n  ") + " }"
	default:
		return "{" + strings.Join(parts, ",") + "}"
	}
}

func renderArray(objs []string, style int) string {
	if style == 1 {
		return " [\n " + strings.Join(objs, " ,\n ") + "\n]\n"
	}
	return "[" + strings.Join(objs, ",") + "]"
}
