//go:build verif

package main

// Single-field variation sequences: payload A holds one loadable rule, payload B is A with
// exactly ONE wire field of that rule changed; delivered A, B, A to one handler.  After each
// delivery the rules in force must be the delivered payload's valid rules, field by field (in
// enforcement form, see modules.go).  Every wire field of every module is varied, on base rules
// of every strategy, so a rule manager that treats two rules as "equal" although they differ in
// a field its strategy reads (and keeps the old one in force) is seen here.

import (
	"fmt"
	"math/big"
	"strconv"
)

const varBase = 150000

type vbase struct {
	mod  int
	name string
	set  map[string]string // field name -> value (strings unquoted, numbers as literals)
	item []witem
}

var varyBases = []vbase{
	{0, "direct-reject", map[string]string{"resource": "va", "threshold": "10", "statIntervalInMs": "1000"}, nil},
	{0, "direct-throttling", map[string]string{"resource": "va", "threshold": "10", "controlBehavior": "1", "maxQueueingTimeMs": "500"}, nil},
	{0, "warmup-reject", map[string]string{"resource": "va", "threshold": "100", "tokenCalculateStrategy": "1", "warmUpPeriodSec": "10", "warmUpColdFactor": "3"}, nil},
	{0, "warmup-throttling", map[string]string{"resource": "va", "threshold": "100", "tokenCalculateStrategy": "1", "controlBehavior": "1", "maxQueueingTimeMs": "500", "warmUpPeriodSec": "10", "warmUpColdFactor": "3"}, nil},
	{0, "memory-adaptive", map[string]string{"resource": "va", "tokenCalculateStrategy": "2", "lowMemUsageThreshold": "1000", "highMemUsageThreshold": "100", "memLowWaterMarkBytes": "1000000", "memHighWaterMarkBytes": "2000000"}, nil},
	{0, "associated", map[string]string{"resource": "va", "threshold": "10", "relationStrategy": "1", "refResource": "ref"}, nil},
	{1, "load", map[string]string{"metricType": "0", "triggerCount": "1.5"}, nil},
	{1, "cpu-bbr", map[string]string{"metricType": "4", "triggerCount": "0.5", "strategy": "1"}, nil},
	{2, "slow-request-ratio", map[string]string{"resource": "va", "strategy": "0", "retryTimeoutMs": "1000", "minRequestAmount": "5", "statIntervalMs": "1000", "statSlidingWindowBucketCount": "10", "maxAllowedRtMs": "50", "threshold": "0.5", "probeNum": "1"}, nil},
	{2, "error-ratio", map[string]string{"resource": "va", "strategy": "1", "retryTimeoutMs": "1000", "minRequestAmount": "5", "statIntervalMs": "1000", "statSlidingWindowBucketCount": "10", "threshold": "0.5"}, nil},
	{2, "error-count", map[string]string{"resource": "va", "strategy": "2", "retryTimeoutMs": "3000", "minRequestAmount": "5", "statIntervalMs": "10000", "statSlidingWindowBucketCount": "10", "threshold": "5"}, nil},
	{3, "qps-reject", map[string]string{"resource": "va", "metricType": "1", "threshold": "5", "burstCount": "3", "durationInSec": "1", "paramsMaxCapacity": "100"}, []witem{{0, "7", 9}}},
	{3, "qps-throttling", map[string]string{"resource": "va", "metricType": "1", "controlBehavior": "1", "threshold": "5", "maxQueueingTimeMs": "20", "durationInSec": "1", "paramsMaxCapacity": "100"}, []witem{{1, "vip", 50}}},
	{3, "concurrency", map[string]string{"resource": "va", "metricType": "0", "threshold": "5", "paramIndex": "1", "paramsMaxCapacity": "100"}, nil},
	{4, "concurrency", map[string]string{"resource": "va", "threshold": "5"}, nil},
}

func (b vbase) rule() wrule {
	r := zeroRule(b.mod)
	for i, f := range wireSchemas[b.mod] {
		v, ok := b.set[f.Name]
		if !ok {
			continue
		}
		switch f.Ty {
		case tStr:
			r[i] = wval{S: v}
		case tInt:
			r[i] = wval{I: bi(v)}
		case tNum:
			r[i] = wval{Lit: v}
		}
	}
	if b.item != nil {
		r[len(r)-1] = wval{Items: b.item}
	}
	return r
}

// alternatives of one field value
func varyAlts(f wfield, v wval) []wval {
	switch f.Ty {
	case tStr:
		return []wval{{S: v.S + "x"}}
	case tInt:
		var out []wval
		for _, d := range []int64{1, 2} {
			n := new(big.Int).Add(v.I, big.NewInt(d))
			if n.Cmp(f.Hi) <= 0 {
				out = append(out, wval{I: n})
			}
		}
		return out
	case tNum:
		x, _ := strconv.ParseFloat(v.Lit, 64)
		return []wval{{Lit: strconv.FormatFloat(x+0.25, 'f', -1, 64)}}
	default:
		more := append(append([]witem{}, v.Items...), witem{1, "vx", 4})
		out := []wval{{Items: more}}
		if len(v.Items) > 0 {
			ch := append([]witem{}, v.Items...)
			ch[0].Thr++
			out = append(out, wval{Items: ch})
		}
		return out
	}
}

func varyCases() []hcase {
	var out []hcase
	id := varBase
	for _, b := range varyBases {
		base := b.rule()
		for i, f := range wireSchemas[b.mod] {
			for _, alt := range varyAlts(f, base[i]) {
				other := append(wrule(nil), base...)
				other[i] = alt
				out = append(out, hcase{ID: id, Module: moduleNames[b.mod], Mod: b.mod,
					Note:     fmt.Sprintf("base %s, field %q varied", b.name, f.Name),
					Payloads: []string{modelEncode(b.mod, []wrule{base}), modelEncode(b.mod, []wrule{other})},
					Ops:      []hop{{P: 0}, {P: 1}, {P: 0}}})
				id++
			}
		}
	}
	return out
}
