//go:build verif

package main

// File cases: a real RefreshableFileDataSource (real fsnotify watcher, real handler, parser and
// rule manager) on a temp file, driven through write / truncate / chmod / rename-away (with or
// without a new file put at the path) / remove.
//
// Determinism: every content change is ONE syscall (a write at offset 0 that never shortens the
// file — contents are padded with trailing spaces —, a truncate to 0, or a rename), so the watcher
// goroutine can never read a half-written file.  "The file is renamed away and a new file appears
// before the source re-watches the path" is made deterministic through the clock: the source
// sleeps (util.Sleep) between re-watch attempts, and the harness's clock creates the new file
// inside the first Sleep call.  After each operation the harness waits (bounded) for the Handle
// calls the operation must cause, then polls (bounded) until the rules in force are what the
// property demands; what is then observed goes to Coq (FCase) and to the monitor.
//
// Partial: that fsnotify delivers the events at all, and the bounded waits, are runtime behaviour.

import (
	"encoding/json"
	"fmt"
	"os"
	"path/filepath"
	"sort"
	"strconv"
	"strings"
	"sync"
	"sync/atomic"
	"time"

	"github.com/alibaba/sentinel-golang/ext/datasource"
	dsfile "github.com/alibaba/sentinel-golang/ext/datasource/file"
	"github.com/alibaba/sentinel-golang/util"

	"vh/internal/cli"
	"vh/internal/emit"
	"vh/internal/rng"
)

const fileBase = 200000

type fopG struct {
	Op string `json:"op"` // write | truncate | chmod | rename_recreate | rename_away | remove | create_after_close
	C  int    `json:"content"`
}

type fcase struct {
	ID       int      `json:"id"`
	Module   string   `json:"module"`
	Mod      int      `json:"-"`
	Contents []string `json:"contents"` // distinct byte strings the file holds during the case
	Init     int      `json:"initial_content"`
	Ops      []fopG   `json:"operations"`
}

type fobsG struct {
	Closed  bool     `json:"closed"`
	InForce []string `json:"in_force"`
	Handles int      `json:"handle_calls"`
	Settled bool     `json:"converged_within_bound"`
}

// countingHandler counts completed Handle calls of the embedded real handler
type countingHandler struct {
	*datasource.DefaultPropertyHandler
	n int64
}

func (h *countingHandler) Handle(src []byte) error {
	err := h.DefaultPropertyHandler.Handle(src)
	atomic.AddInt64(&h.n, 1)
	return err
}

// hookClock: the sentinel clock during a file case; Sleep runs a pending action once
type hookClock struct {
	util.Clock
	mu      sync.Mutex
	pending func()
	sleeps  int
}

func (c *hookClock) Sleep(d time.Duration) {
	c.mu.Lock()
	f := c.pending
	c.pending = nil
	c.sleeps++
	c.mu.Unlock()
	if f != nil {
		f()
	}
}

func genFile(r *rng.R, id int, ms []*module) fcase {
	mi := r.Intn(len(ms))
	m := ms[mi]
	c := fcase{ID: id, Module: m.name, Mod: mi}
	alpha := genPayloads(r, m)
	idx := map[string]int{}
	content := func(s string) int {
		if v, ok := idx[s]; ok {
			return v
		}
		idx[s] = len(c.Contents)
		c.Contents = append(c.Contents, s)
		return idx[s]
	}
	pad := func(s string, n int) string {
		if len(s) < n {
			return s + strings.Repeat(" ", n-len(s))
		}
		return s
	}
	cur := alpha[0] // a valid rule array
	c.Init = content(cur)
	n := 3 + r.Intn(5)
	closed := false
	for i := 0; i < n && !closed; i++ {
		p := alpha[r.Intn(len(alpha))]
		switch k := r.Intn(100); {
		case k < 45:
			if p == "" {
				if len(cur) == 0 {
					continue
				}
				cur = ""
				c.Ops = append(c.Ops, fopG{"truncate", content("")})
			} else {
				cur = pad(p, len(cur))
				c.Ops = append(c.Ops, fopG{"write", content(cur)})
			}
		case k < 53:
			c.Ops = append(c.Ops, fopG{"chmod", content(cur)})
		case k < 78:
			cur = p
			c.Ops = append(c.Ops, fopG{"rename_recreate", content(cur)})
		case k < 86:
			c.Ops = append(c.Ops, fopG{"rename_away", 0})
			closed = true
		default:
			c.Ops = append(c.Ops, fopG{"remove", 0})
			closed = true
		}
	}
	if closed && r.Chance(1, 2) {
		c.Ops = append(c.Ops, fopG{"create_after_close", content(alpha[0])})
	}
	return c
}

func waitUntil(d time.Duration, f func() bool) bool {
	deadline := time.Now().Add(d)
	for {
		if f() {
			return true
		}
		if time.Now().After(deadline) {
			return false
		}
		time.Sleep(500 * time.Microsecond)
	}
}

const fileBound = 3 * time.Second

// runF drives the real data source; want(i) is the monitor's ledger (see monitorF) used only to
// know when to stop polling
func runF(c fcase, m *module, cls []pcls, dir string) (init fobsG, obs []fobsG, ledger [][]string) {
	faultArmed = false
	if err := m.clear(); err != nil {
		panic(err)
	}
	path := filepath.Join(dir, fmt.Sprintf("rules-%d.json", c.ID))
	os.Remove(path)
	if err := os.WriteFile(path, []byte(c.Contents[c.Init]), 0o644); err != nil {
		panic(err)
	}
	prev := util.CurrentClock()
	hc := &hookClock{Clock: prev}
	util.SetClock(hc)
	defer util.SetClock(prev)
	h := &countingHandler{DefaultPropertyHandler: datasource.NewDefaultPropertyHandler(m.parser, m.updater)}
	ds := dsfile.NewFileDataSource(path, h)
	if err := ds.Initialize(); err != nil {
		panic(err)
	}
	// the property's ledger: valid rules of a content, kept rules for an undecodable one
	cur := []string{}
	apply := func(ci int) {
		k := cls[ci]
		switch k.Kind {
		case "nil":
			cur = []string{}
		case "val":
			w := []string{}
			for j, e := range k.Elems {
				if e != "" && k.Valid[j] {
					w = append(w, e)
				}
			}
			sort.Strings(w)
			cur = w
		}
	}
	apply(c.Init)
	init = fobsG{Closed: ds.VerifClosed(), InForce: inForceFPs(m), Handles: int(atomic.LoadInt64(&h.n)), Settled: true}
	wantClosed := false
	for _, o := range c.Ops {
		before := atomic.LoadInt64(&h.n)
		need := int64(1)
		switch o.Op {
		case "write":
			f, err := os.OpenFile(path, os.O_WRONLY, 0)
			if err != nil {
				panic(err)
			}
			if _, err := f.WriteAt([]byte(c.Contents[o.C]), 0); err != nil {
				panic(err)
			}
			f.Close()
			apply(o.C)
		case "truncate":
			if err := os.Truncate(path, 0); err != nil {
				panic(err)
			}
			apply(o.C)
		case "chmod":
			mode := os.FileMode(0o644)
			if before%2 == 0 {
				mode = 0o600
			}
			if err := os.Chmod(path, mode); err != nil {
				panic(err)
			}
			apply(o.C)
		case "rename_recreate":
			content := []byte(c.Contents[o.C])
			hc.mu.Lock()
			hc.pending = func() {
				tmp := path + ".new"
				if err := os.WriteFile(tmp, content, 0o644); err != nil {
					panic(err)
				}
				if err := os.Rename(tmp, path); err != nil {
					panic(err)
				}
			}
			hc.mu.Unlock()
			if err := os.Rename(path, path+".bak"); err != nil {
				panic(err)
			}
			need = 2
			cur = []string{}
			apply(o.C)
		case "rename_away":
			if err := os.Rename(path, path+".bak"); err != nil {
				panic(err)
			}
			cur = []string{}
			wantClosed = true
		case "remove":
			if err := os.Remove(path); err != nil {
				panic(err)
			}
			cur = []string{}
			wantClosed = true
		case "create_after_close":
			if err := os.WriteFile(path, []byte(c.Contents[o.C]), 0o644); err != nil {
				panic(err)
			}
			need = 0
			time.Sleep(20 * time.Millisecond)
		}
		settled := waitUntil(fileBound, func() bool { return atomic.LoadInt64(&h.n) >= before+need })
		want := append([]string{}, cur...)
		bound2 := fileBound
		if !settled { // the Handle calls did not come: the state will not move any more
			bound2 = 200 * time.Millisecond
		}
		settled = waitUntil(bound2, func() bool {
			return sameStrings(inForceFPs(m), want) && ds.VerifClosed() == wantClosed
		}) && settled
		obs = append(obs, fobsG{Closed: ds.VerifClosed(), InForce: inForceFPs(m), Handles: int(atomic.LoadInt64(&h.n) - before), Settled: settled})
		ledger = append(ledger, want)
	}
	if !ds.VerifClosed() {
		ds.Close()
	} else {
		// the source closed itself inside its goroutine, which is now blocked in Close on its own
		// unbuffered channel with the fsnotify watcher still open; receive once so that it ends
		// (otherwise every such case leaks an inotify instance)
		ds.VerifReleaseSelfClose(2 * time.Second)
	}
	os.Remove(path)
	os.Remove(path + ".bak")
	if err := m.clear(); err != nil {
		panic(err)
	}
	return
}

func monitorF(c fcase, cls []pcls, init fobsG, obs []fobsG, ledger [][]string, rep *emit.Report) {
	closedWanted := false
	for i, o := range c.Ops {
		ob := obs[i]
		fail := func(sig, detail string) {
			rep.Fail(c.ID, "C18_file_converges", sig, fmt.Sprintf("%s, operation %d (%s, content %q of class %s): %s", c.Module, i, o.Op, clip(c.Contents[o.C]), cls[o.C].Kind, detail), c)
		}
		switch o.Op {
		case "rename_away", "remove":
			closedWanted = true
		}
		if !sameStrings(ob.InForce, ledger[i]) {
			sig := "file-datasource-did-not-converge"
			if closedWanted {
				sig = "file-datasource-rules-not-cleared-after-removal"
			}
			fail(sig, fmt.Sprintf("after %v the rules in force are %v, the file's content demands %v (Handle calls since the operation: %d)", fileBound, ob.InForce, ledger[i], ob.Handles))
			return
		}
		if ob.Closed != closedWanted {
			fail("file-datasource-closed-state", fmt.Sprintf("closed=%v, expected %v", ob.Closed, closedWanted))
			return
		}
	}
}

func coqF(c fcase, cls []pcls, init fobsG, obs []fobsG) string {
	ids := map[string]int{}
	idOf := func(fp string) int {
		if v, ok := ids[fp]; ok {
			return v
		}
		ids[fp] = len(ids) + 1
		return ids[fp]
	}
	validSet := map[int]bool{}
	var tab []string
	for p, k := range cls {
		var t string
		switch k.Kind {
		case "err":
			t = "KErr"
		case "nil":
			t = "KNil"
		case "panic":
			t = "KPanic"
		default:
			var es []string
			for j, e := range k.Elems {
				if e == "" {
					es = append(es, "None")
				} else {
					id := idOf(e)
					if k.Valid[j] {
						validSet[id] = true
					}
					es = append(es, fmt.Sprintf("Some %d", id))
				}
			}
			t = fmt.Sprintf("KVal %s %s", emit.B(k.IsNil), emit.List(es))
		}
		tab = append(tab, emit.Tuple(strconv.Itoa(p), t))
	}
	var valid []string
	for id := range validSet {
		valid = append(valid, strconv.Itoa(id))
	}
	sort.Strings(valid)
	fo := func(o fobsG) string {
		var rs []int
		for _, fp := range o.InForce {
			if v, ok := ids[fp]; ok {
				rs = append(rs, v)
			} else {
				rs = append(rs, 9000+len(rs))
			}
		}
		sort.Ints(rs)
		var rss []string
		for _, v := range rs {
			rss = append(rss, strconv.Itoa(v))
		}
		return "(FObs " + emit.B(o.Closed) + " " + emit.List(rss) + ")"
	}
	var groups, os_ []string
	for i, o := range c.Ops {
		switch o.Op {
		case "write", "truncate", "chmod":
			groups = append(groups, fmt.Sprintf("[FsWrite %d]", o.C))
		case "rename_recreate":
			groups = append(groups, fmt.Sprintf("[FsRenameAway; FsRecreate %d]", o.C))
		case "rename_away":
			groups = append(groups, "[FsRenameAway]")
		case "remove":
			groups = append(groups, "[FsRemove]")
		default:
			groups = append(groups, fmt.Sprintf("[FsRecreate %d]", o.C))
		}
		os_ = append(os_, fo(obs[i]))
	}
	return fmt.Sprintf("FCase %d %s %s %d %s %s %s", c.ID, emit.List(valid), emit.List(tab), c.Init, emit.List(groups), fo(init), emit.List(os_))
}

func runFile(a cli.Args, root *rng.R, ms []*module, rep *emit.Report, sh *emit.Shards, only int) {
	n := a.Pick(0, 30, 400)
	if a.Search {
		n *= 3
	}
	dir, err := os.MkdirTemp("", "vh-c18-file")
	if err != nil {
		panic(err)
	}
	defer os.RemoveAll(dir)
	runOne := func(id int, corr bool) {
		c := genFile(root.Fork(uint64(id)), id, ms)
		m := ms[c.Mod]
		cls := make([]pcls, len(c.Contents))
		for i, p := range c.Contents {
			cls[i] = classify(m, p)
		}
		init, obs, ledger := runF(c, m, cls, dir)
		rep.Evaluations++
		monitorF(c, cls, init, obs, ledger, rep)
		rep.Count("file_cases", 1)
		for i, o := range c.Ops {
			rep.Count("file_op_"+o.Op, 1)
			rep.Count("file_content_class_"+cls[o.C].Kind, 1)
			if !obs[i].Settled {
				rep.Count("file_op_not_settled_within_bound", 1)
			}
		}
		if corr && sh != nil {
			sh.Add(c.ID, coqF(c, cls, init, obs))
			rep.CorrCases++
			rep.CaseInputs[strconv.Itoa(c.ID)] = c
		}
		if only >= 0 {
			out, _ := json.MarshalIndent(map[string]interface{}{"input": c, "initial": init, "observed": obs, "demanded": ledger, "coq": coqF(c, cls, init, obs)}, "", " ")
			fmt.Println(string(out))
		}
	}
	if only >= 0 {
		runOne(only, false)
		return
	}
	for i := 0; i < n; i++ {
		if fileFailures(rep) >= 3 { // every failing operation costs a bounded wait: three concrete failures are enough
			rep.Count("file_cases_skipped_after_three_failures", n-i)
			break
		}
		runOne(fileBase+i, !a.Search)
	}
}

func fileFailures(rep *emit.Report) int {
	n := 0
	for _, f := range rep.MonitorFailures {
		if f.Clause == "C18_file_converges" {
			n++
		}
	}
	return n
}
