//go:build verif

package main

import (
	"vh/internal/cli"
	"vh/internal/emit"
	"vh/internal/rng"
)

const fileBase = 200000

func runFile(a cli.Args, root *rng.R, ms []*module, rep *emit.Report, sh *emit.Shards, only int) {}
