//go:build verif

// vh-c18: correspondence + monitor harness for property C18 (datasource payloads are applied
// faithfully or rejected, never half-applied).
package main

import (
	"encoding/json"
	"fmt"
	"os"
	"reflect"
	"sort"
	"strconv"
	"strings"

	"github.com/alibaba/sentinel-golang/ext/datasource"

	"vh/internal/cli"
	"vh/internal/emit"
	"vh/internal/env"
	"vh/internal/rng"
	"vh/internal/vclock"
)

// ---- handler cases ---------------------------------------------------------------------------------

type hop struct {
	P   int  `json:"payload"`
	Arm bool `json:"arm_fault,omitempty"` // the injected loader fault is armed during this delivery
	// the handler's updater is the module's updater wrapped so that it PANICS (before touching the rule
	// manager) while this flag is armed: a custom PropertyUpdater is a public extension point
	ArmPanic bool `json:"arm_updater_panic,omitempty"`
}

type hcase struct {
	ID       int      `json:"id"`
	Module   string   `json:"module"`
	Mod      int      `json:"-"`
	Note     string   `json:"note,omitempty"`
	Payloads []string `json:"payloads"`
	Ops      []hop    `json:"deliveries"`
}

type hobs struct {
	Ret      int      `json:"ret"` // 0 nil, 1 error, 2 panic escaped
	Fired    bool     `json:"loader_fault_fired,omitempty"`
	Panicked bool     `json:"updater_panicked,omitempty"` // the wrapped updater panicked during this delivery (recovered in Handle)
	GenCalls int      `json:"generator_calls,omitempty"`
	InForce  []string `json:"in_force"` // sorted fingerprints
}

// classification of a payload by the real parser
type pcls struct {
	Kind  string   // err | nil | val | panic
	IsNil bool     // nil slice
	Elems []string // fingerprint of each element, "" for a nil element
	Valid []bool
	TypOK bool
	// SelfEq: reflect.DeepEqual of two decodings of the payload (false when a hotspot rule has a
	// specific item keyed by NaN): only then is an identical re-delivery skipped by the handler
	SelfEq bool
}

func classify(m *module, payload string) (c pcls) {
	defer func() {
		if r := recover(); r != nil {
			c = pcls{Kind: "panic"}
		}
	}()
	var src []byte
	if payload != "" {
		src = []byte(payload)
	} else if len(payload) == 0 {
		src = []byte{}
	}
	v, err := m.parser(src)
	if err != nil {
		return pcls{Kind: "err"}
	}
	if v == nil {
		return pcls{Kind: "nil"}
	}
	es, isNil, ok := m.elems(v)
	v2, _ := m.parser(src)
	c = pcls{Kind: "val", IsNil: isNil, TypOK: ok, SelfEq: reflect.DeepEqual(v, v2)}
	for _, e := range es {
		if e == nil {
			c.Elems = append(c.Elems, "")
			c.Valid = append(c.Valid, false)
		} else {
			c.Elems = append(c.Elems, fingerprint(e))
			c.Valid = append(c.Valid, m.valid(e))
		}
	}
	return c
}

func inForceFPs(m *module) []string {
	var out []string
	for _, r := range m.inForce() {
		out = append(out, fingerprint(r))
	}
	sort.Strings(out)
	if out == nil {
		out = []string{}
	}
	return out
}

func safeHandle(h datasource.PropertyHandler, src []byte) (ret int) {
	defer func() {
		if r := recover(); r != nil {
			ret = 2
		}
	}()
	if err := h.Handle(src); err != nil {
		return 1
	}
	return 0
}

func runH(c hcase, m *module) []hobs {
	faultArmed = false
	if err := m.clear(); err != nil {
		panic(err)
	}
	panicArmed, panicFired := false, false
	h := datasource.NewDefaultPropertyHandler(m.parser, func(data interface{}) error {
		if panicArmed {
			panicFired = true
			panic("injected updater panic")
		}
		return m.updater(data)
	})
	var obs []hobs
	for _, o := range c.Ops {
		faultArmed = o.Arm && m.fault
		faultFired = false
		panicArmed, panicFired = o.ArmPanic, false
		c0 := genCalls
		ret := safeHandle(h, []byte(c.Payloads[o.P]))
		faultArmed, panicArmed = false, false
		obs = append(obs, hobs{Ret: ret, Fired: faultFired, Panicked: panicFired, GenCalls: genCalls - c0, InForce: inForceFPs(m)})
	}
	if err := m.clear(); err != nil {
		panic(err)
	}
	return obs
}

func sameStrings(a, b []string) bool {
	if len(a) != len(b) {
		return false
	}
	for i := range a {
		if a[i] != b[i] {
			return false
		}
	}
	return true
}

// monitorH states the property directly on the implementation's trace (own ledger; the real
// parser is the oracle for the classification of a payload, the module's IsValidRule for validity).
func monitorH(c hcase, m *module, cls []pcls, obs []hobs, rep *emit.Report) (nontrivial bool) {
	before := []string{}
	changed, rejected, redelivered := false, false, false
	for i, o := range c.Ops {
		k := cls[o.P]
		ob := obs[i]
		fail := func(clause, sig, detail string) {
			rep.Fail(c.ID, clause, sig, fmt.Sprintf("delivery %d (payload %d %q, class %s): %s", i, o.P, clip(c.Payloads[o.P]), k.Kind, detail), c)
		}
		if ob.Ret == 2 {
			fail("C18_no_escape", "panic-escaped-from-handle", "Handle panicked out to the caller")
			return
		}
		switch k.Kind {
		case "panic":
			fail("C18_applied_exactly", "converter-panic-swallowed", fmt.Sprintf("the parser panics on this payload; Handle returned %d and nothing was applied", ob.Ret))
			return
		case "err":
			rejected = true
			if ob.Ret != 1 {
				fail("C18_reject_keeps", "undecodable-payload-accepted", "Handle returned nil for an undecodable payload")
				return
			}
			if !sameStrings(ob.InForce, before) {
				fail("C18_reject_keeps", "undecodable-payload-changed-rules", fmt.Sprintf("rules in force changed from %d to %d rules", len(before), len(ob.InForce)))
				return
			}
		case "nil":
			if ob.Panicked {
				// the updater panicked before clearing: nothing may have changed; the panic is swallowed by Handle
				if !sameStrings(ob.InForce, before) {
					fail("C18_empty_clears", "half-applied-after-updater-panic", "rules in force changed although the updater panicked")
					return
				}
				rejected = true
				break
			}
			if ob.Ret != 0 {
				fail("C18_empty_clears", "empty-payload-error", "Handle returned an error for the empty payload")
				return
			}
			if len(ob.InForce) != 0 {
				fail("C18_empty_clears", "empty-payload-did-not-clear", fmt.Sprintf("%d rules still in force", len(ob.InForce)))
				return
			}
		case "val":
			var want []string
			for j, e := range k.Elems {
				if e != "" && k.Valid[j] {
					want = append(want, e)
				}
			}
			sort.Strings(want)
			if want == nil {
				want = []string{}
			}
			if !k.TypOK {
				fail("C18_applied_exactly", "parser-updater-type-mismatch", "the parser's value is not of the updater's type")
				return
			}
			if ob.Panicked {
				// the updater panicked (recovered inside Handle, whatever it returns): nothing was applied, and the
				// payload must not be remembered as applied - checked at its re-delivery below
				if !sameStrings(ob.InForce, before) {
					fail("C18_applied_exactly", "half-applied-after-updater-panic", "rules in force changed although the updater panicked")
					return
				}
				rejected = true
			} else if ob.Fired {
				// the loader failed: the payload must be rejected as a whole and retried later
				if ob.Ret != 1 {
					fail("C18_applied_exactly", "loader-failure-reported-as-success", "the loader failed but Handle returned nil")
					return
				}
				if !sameStrings(ob.InForce, before) {
					fail("C18_applied_exactly", "half-applied-after-loader-failure", "rules in force changed although the load failed")
					return
				}
				rejected = true
			} else {
				if ob.Ret != 0 {
					fail("C18_applied_exactly", "decodable-payload-rejected", "Handle returned an error for a decodable payload although the loader did not fail")
					return
				}
				if !sameStrings(ob.InForce, want) {
					sig := "nil-return-but-valid-rules-not-in-force"
					if i > 0 && c.Payloads[c.Ops[i-1].P] == c.Payloads[o.P] && (obs[i-1].Fired || obs[i-1].Panicked) {
						sig = "retry-after-failed-update-skipped"
					}
					fail("C18_applied_exactly", sig, fmt.Sprintf("in force %d rules, the payload's valid rules are %d: got %v want %v", len(ob.InForce), len(want), ob.InForce, want))
					return
				}
			}
		}
		// identical re-delivery after a delivery that returned nil is a no-op
		if i > 0 && c.Payloads[c.Ops[i-1].P] == c.Payloads[o.P] && obs[i-1].Ret == 0 && !obs[i-1].Panicked && !ob.Panicked {
			redelivered = true
			if k.Kind == "val" && !k.SelfEq {
				// DeepEqual is not reflexive on this value: the payload is loaded again
				// (C18_redeliver_in_force): the rules in force must still be the same
				if !sameStrings(ob.InForce, before) {
					fail("C18_redeliver_in_force", "redelivery-changed-rules-in-force", fmt.Sprintf("rules in force %v -> %v", before, ob.InForce))
					return
				}
			} else if ob.Ret != 0 || !sameStrings(ob.InForce, before) || ob.GenCalls != 0 {
				fail("C18_idempotent", "identical-redelivery-not-a-noop", fmt.Sprintf("ret=%d generator calls=%d, rules in force %v -> %v", ob.Ret, ob.GenCalls, before, ob.InForce))
				return
			}
		}
		if !sameStrings(ob.InForce, before) {
			changed = true
		}
		before = ob.InForce
	}
	return changed && rejected && redelivered
}

func clip(s string) string {
	if len(s) > 70 {
		return s[:70] + "..."
	}
	return s
}

// coqH prints the case for Corr.Run_C18: rule ids are assigned per case to distinct fingerprints.
func coqH(c hcase, cls []pcls, obs []hobs) string {
	ids := map[string]int{}
	idOf := func(fp string) int {
		if v, ok := ids[fp]; ok {
			return v
		}
		ids[fp] = len(ids) + 1
		return ids[fp]
	}
	validSet := map[int]bool{}
	var tab []string
	for p, k := range cls {
		var t string
		switch k.Kind {
		case "err":
			t = "KErr"
		case "nil":
			t = "KNil"
		case "panic":
			t = "KPanic"
		default:
			var es []string
			for j, e := range k.Elems {
				if e == "" {
					es = append(es, "None")
				} else {
					id := idOf(e)
					if k.Valid[j] {
						validSet[id] = true
					}
					es = append(es, fmt.Sprintf("Some %d", id))
				}
			}
			t = fmt.Sprintf("KVal %s %s", emit.B(k.IsNil), emit.List(es))
		}
		tab = append(tab, emit.Tuple(strconv.Itoa(p), t))
	}
	var valid []string
	for id := range validSet {
		valid = append(valid, strconv.Itoa(id))
	}
	sort.Strings(valid)
	var ops, os_ []string
	anyPanic := false
	for i := range c.Ops {
		anyPanic = anyPanic || obs[i].Panicked
	}
	for i, o := range c.Ops {
		if anyPanic {
			k := 0
			if obs[i].Fired {
				k = 1
			}
			if obs[i].Panicked {
				k = 2
			}
			ops = append(ops, emit.Tuple(strconv.Itoa(o.P), strconv.Itoa(k)))
		} else {
			ops = append(ops, emit.Tuple(strconv.Itoa(o.P), emit.B(obs[i].Fired)))
		}
		var rs []int
		for _, fp := range obs[i].InForce {
			if v, ok := ids[fp]; ok {
				rs = append(rs, v)
			} else {
				rs = append(rs, 9000+len(rs)) // a rule in force that no payload of the case describes
			}
		}
		sort.Ints(rs)
		var rss []string
		for _, v := range rs {
			rss = append(rss, strconv.Itoa(v))
		}
		os_ = append(os_, emit.Tuple(strconv.Itoa(obs[i].Ret), emit.List(rss)))
	}
	ctor := "HCase"
	if anyPanic {
		ctor = "PCase" // fault kinds per delivery: 0 none, 1 loader fault fired, 2 updater panicked
	}
	return fmt.Sprintf("%s %d %d %s %s %s %s", ctor, c.ID, c.Mod, emit.List(valid), emit.List(tab), emit.List(ops), emit.List(os_))
}

// ---- payload generation ----------------------------------------------------------------------------

func genArray(r *rng.R, m *module, n int, fault bool) []([]kv) {
	var objs [][]kv
	for i := 0; i < n; i++ {
		objs = append(objs, m.genRule(r, false))
	}
	if fault {
		objs = append(objs, m.genRule(r, true))
		j := r.Intn(len(objs))
		objs[j], objs[len(objs)-1] = objs[len(objs)-1], objs[j]
	}
	return objs
}

func renderObjs(objs [][]kv, style int) string {
	var ss []string
	for _, o := range objs {
		ss = append(ss, render(o, style))
	}
	return renderArray(ss, style)
}

var wrongTyped = []string{`[1]`, `["x"]`, `[[]]`, `[true]`, `{"resource":"a"}`, `"str"`, `42`, `true`, `[{"resource":5}]`,
	`[{"threshold":"high"}]`, `[{"resource":"a","threshold":1},7]`, `[{"threshold":1e400}]`, `[{"threshold":-1.5e}]`,
	`[{"resource":"a"}] x`, `[{"resource":"a"},]`, `[{"resource":"a" "threshold":1}]`, `[{resource:"a"}]`, "\xef\xbb\xbf[]"}

func genPayloads(r *rng.R, m *module) []string {
	a := genArray(r, m, 1+r.Intn(3), false)
	b := genArray(r, m, 1+r.Intn(2), false)
	ps := []string{renderObjs(a, 0)}
	add := func(s string) { ps = append(ps, s) }
	if r.Chance(2, 3) {
		add(renderObjs(a, 1+r.Intn(2))) // same value, different bytes (unless a key repeats)
	}
	add(renderObjs(b, r.Intn(3)))
	if r.Chance(2, 3) { // null elements
		var ss []string
		for _, o := range a {
			ss = append(ss, render(o, 0))
		}
		switch r.Intn(4) {
		case 0:
			ss = append([]string{"null"}, ss...)
		case 1:
			ss = append(ss, "null")
		case 2:
			ss = []string{"null"}
		default:
			j := r.Intn(len(ss) + 1)
			ss = append(ss[:j], append([]string{"null", "null"}, ss[j:]...)...)
		}
		add(renderArray(ss, 0))
	}
	if r.Chance(2, 3) {
		add(wrongTyped[r.Intn(len(wrongTyped))])
	}
	if r.Chance(2, 3) { // truncated JSON
		full := renderObjs(a, 0)
		add(full[:1+r.Intn(len(full)-1)])
	}
	if r.Chance(2, 3) {
		add("")
	}
	if r.Chance(1, 3) {
		add(pickS(r, " ", "\n\t ", "\x00"))
	}
	if r.Chance(1, 2) {
		add(pickS(r, "null", "[]", " [ ] ", " null "))
	}
	if m.fault && r.Chance(2, 3) {
		add(renderObjs(genArray(r, m, r.Intn(2), true), 0))
	}
	if r.Chance(1, 3) { // unknown / duplicated / differently cased keys, numbers out of range
		o := m.genRule(r, false)
		switch r.Intn(4) {
		case 0:
			o = append(o, kv{"noSuchField", `{"x":[1,2,{"y":null}]}`})
		case 1:
			o = append(o, o[r.Intn(len(o))])
			o[len(o)-1].V = pickS(r, "1", "2", `"a"`)
		case 2:
			o[0].K = strings.ToUpper(o[0].K)
		default:
			o = append(o, kv{pickS(r, "threshold", "metricType", "strategy", "paramIndex"), pickS(r, "4294967296", "-1", "1.5", "1e2", "99999999999999999999")})
		}
		add("[" + render(o, 0) + "]")
	}
	return ps
}

func genH(r *rng.R, id int, ms []*module) hcase {
	mi := r.Intn(len(ms))
	m := ms[mi]
	c := hcase{ID: id, Module: m.name, Mod: mi, Payloads: genPayloads(r, m)}
	n := 6 + r.Intn(9)
	prev := -1
	for i := 0; i < n; i++ {
		p := r.Intn(len(c.Payloads))
		if prev >= 0 && r.Chance(35, 100) {
			p = prev
		}
		// a failing step (loader error / updater panic) is often followed by a re-delivery of the same payload
		if n0 := len(c.Ops); n0 > 0 && (c.Ops[n0-1].Arm || c.Ops[n0-1].ArmPanic) && r.Chance(2, 3) {
			p = prev
		}
		o := hop{P: p, Arm: m.fault && r.Chance(1, 3)}
		if !o.Arm && r.Chance(1, 7) {
			o.ArmPanic = true
		}
		c.Ops = append(c.Ops, o)
		prev = p
	}
	return c
}

// exhaustive: every delivery sequence up to length L over a fixed 6-payload alphabet per module
const exhBase = 100000

func exhAlphabet(m *module) []string {
	r := rng.New(4242).Fork(uint64(len(m.name)))
	var a [][]kv
	for tries := 0; ; tries++ { // an array with at least one valid rule
		a = genArray(r, m, 2, false)
		k := classify(m, renderObjs(a, 0))
		ok := false
		for _, v := range k.Valid {
			ok = ok || v
		}
		if ok || tries > 50 {
			break
		}
	}
	full := renderObjs(a, 0)
	last := "null"
	if m.fault {
		last = renderObjs(genArray(r, m, 1, true), 0)
	}
	return []string{full, renderObjs(a, 1), "[null," + render(a[0], 0) + "]", full[:len(full)/2], "", last}
}

func exhCases(ms []*module, maxLen int) []hcase {
	var out []hcase
	id := exhBase
	for mi, m := range ms {
		alpha := exhAlphabet(m)
		var seqs [][]int
		var rec func(cur []int)
		rec = func(cur []int) {
			if len(cur) > 0 {
				seqs = append(seqs, append([]int(nil), cur...))
			}
			if len(cur) == maxLen {
				return
			}
			for p := range alpha {
				rec(append(cur, p))
			}
		}
		rec(nil)
		for _, s := range seqs {
			for arm := 0; arm < 2; arm++ {
				if arm == 1 && !m.fault {
					continue
				}
				c := hcase{ID: id, Module: m.name, Mod: mi, Payloads: alpha}
				armed := false
				hasFault := false
				for _, p := range s {
					a := false
					if arm == 1 && p == 5 && !armed { // fail the first delivery of the fault payload only
						a, armed, hasFault = true, true, true
					}
					c.Ops = append(c.Ops, hop{P: p, Arm: a})
				}
				if arm == 1 && !hasFault {
					continue
				}
				out = append(out, c)
				id++
			}
		}
	}
	return out
}

func main() {
	a := cli.Parse()
	env.Init(env.Options{})
	clk := vclock.New(1700000000000)
	clk.Install()
	installFaultGenerators()
	ms := modules()
	root := rng.New(a.Seed)
	rep := emit.NewReport("C18", a.Seed, a.Tier)
	rep.Rule = "handler cases: one of the five parser/updater/rule-manager combinations, an alphabet of 4-10 payloads (valid arrays, the same array re-serialised, arrays with null elements, wrongly typed elements or documents, truncated JSON, empty input, whitespace, null/[], unknown/duplicate/out-of-range fields, arrays with a rule whose custom generator can be made to fail) and 6-14 deliveries with repeats; plus every delivery sequence up to length 2 (quick) / 3 (thorough) over a fixed 6-payload alphabet per module; plus, for every wire field of every module and base rules of every strategy, the sequence A, B, A where B differs from A in that one field (single_field_variation_sequences). Non-trivial = the case contains at least one delivery that changed the rules in force, one rejected delivery and one identical re-delivery; distinct by full input. Wire cases (wire_* counters): one payload through the real *JsonArrayParser of a random module - Go json.Marshal output, the model encoder's output, hand-written variants, malformed payloads, fixed documents - compared field for field with Model/Json.v's decoder inside Coq when the payload lies in the model's byte subset; payloads describing loadable rules are also delivered to a real handler. File cases (file_* counters): a real RefreshableFileDataSource on a temp file driven through write / truncate / chmod / rename-away (+ new file) / remove (partial: fsnotify timing, 3 s bounds)."
	nCorr := a.Pick(a.N, 260, 3000)
	nMon := a.Pick(a.Mon, 3000, 40000)
	exhLen := 2
	if a.Tier == "thorough" {
		exhLen = 3
	}
	if a.Search {
		nCorr = 0
		nMon *= 5
	}
	var sh *emit.Shards
	if a.Only < 0 && !a.Search {
		var err error
		sh, err = emit.NewShards(a.Out, "Corr.Run_C18", a.Shards, wirePreface())
		if err != nil {
			panic(err)
		}
	}
	dist := emit.NewDistinct()
	runOne := func(c hcase, corr bool) {
		m := ms[c.Mod]
		cls := make([]pcls, len(c.Payloads))
		for i, p := range c.Payloads {
			cls[i] = classify(m, p)
		}
		obs := runH(c, m)
		rep.Evaluations++
		nt := monitorH(c, m, cls, obs, rep)
		if nt {
			b, _ := json.Marshal(c)
			dist.Add(string(b))
		}
		rep.Count("module_"+m.name, 1)
		for i, o := range c.Ops {
			rep.Count("class_"+cls[o.P].Kind, 1)
			rep.Count("ret_"+strconv.Itoa(obs[i].Ret), 1)
			if obs[i].Fired {
				rep.Count("loader_fault_fired", 1)
			}
			if obs[i].Panicked {
				rep.Count("updater_panicked", 1)
			}
			if i > 0 && c.Payloads[c.Ops[i-1].P] == c.Payloads[o.P] && (obs[i-1].Fired || obs[i-1].Panicked) {
				rep.Count("redelivery_after_failed_step", 1)
			}
			if i > 0 && c.Ops[i-1].P == o.P {
				rep.Count("identical_redelivery", 1)
			}
			for _, e := range cls[o.P].Elems {
				if e == "" {
					rep.Count("null_elements_delivered", 1)
				}
			}
		}
		for _, k := range cls {
			if k.Kind == "val" && !k.SelfEq {
				// the reference instance's DeepEqual is structural, hence reflexive: such cases are
				// checked by the monitor only (C18_redeliver_in_force)
				if corr {
					rep.Count("handler_cases_with_non_reflexive_payload_monitor_only", 1)
				}
				corr = false
			}
		}
		if corr && sh != nil {
			sh.Add(c.ID, coqH(c, cls, obs))
			rep.CorrCases++
			rep.CaseInputs[strconv.Itoa(c.ID)] = c
			rep.Sample(map[string]interface{}{"input": c, "observed": obs})
		}
		if a.Only >= 0 {
			out, _ := json.MarshalIndent(map[string]interface{}{"input": c, "classification": cls, "observed": obs, "coq": coqH(c, cls, obs)}, "", " ")
			fmt.Println(string(out))
		}
	}
	exh := exhCases(ms, exhLen)
	finish := func() {
		for _, f := range rep.MonitorFailures {
			fmt.Printf("MONITOR-FAIL clause=%s signature=%s %s\n", f.Clause, f.Signature, f.Detail)
		}
	}
	if a.Only >= 0 {
		switch {
		case a.Only >= wireBase:
			runWire(a, root, rep, nil, a.Only)
		case a.Only >= fileBase:
			runFile(a, root, ms, rep, nil, a.Only)
		case a.Only >= varBase:
			for _, c := range varyCases() {
				if c.ID == a.Only {
					runOne(c, false)
				}
			}
		case a.Only >= exhBase:
			for _, c := range exh {
				if c.ID == a.Only {
					runOne(c, false)
				}
			}
		default:
			runOne(genH(root.Fork(uint64(a.Only)), a.Only, ms), false)
		}
		finish()
		return
	}
	for id := 0; id < nMon; id++ {
		runOne(genH(root.Fork(uint64(id)), id, ms), id < nCorr)
	}
	for _, c := range exh {
		runOne(c, !a.Search)
	}
	rep.Count("exhaustive_sequences", len(exh))
	vary := varyCases()
	for _, c := range vary {
		runOne(c, !a.Search)
	}
	rep.Count("single_field_variation_sequences", len(vary))
	runWire(a, root, rep, sh, -1)
	runFile(a, root, ms, rep, sh, -1)
	rep.DistinctNontrivial = dist.N()
	rep.Exhaustive = false
	rep.Notes = append(rep.Notes,
		"classification of every payload (undecodable / empty / rule list with nil elements) is taken from the real *JsonArrayParser (encoding/json is an oracle); validity of a decoded rule from the module's IsValidRule",
		"loader failures are injected through the public generator extension points of circuitbreaker and hotspot (a custom strategy whose generator panics while armed)",
		"updater panics are injected for every module through a custom PropertyUpdater (the module's updater wrapped: it panics before touching the rule manager while armed); a failing step is followed by a re-delivery of the same payload with probability 2/3",
		"file datasource part is partial: fsnotify delivery and timing are runtime behaviour; the harness polls with a deadline",
		"wire cases: float64 fields are compared by IEEE bits against strconv.ParseFloat of the literal (oracle table); hotspot SpecificItems against an independent conversion; payloads outside the model's byte subset (escapes, non-ASCII, 3+ digit exponents) are counted and not compared")
	if sh != nil {
		rep.Shards = sh.Close()
	}
	if err := rep.Write(a.Out); err != nil {
		fmt.Fprintln(os.Stderr, err)
		os.Exit(2)
	}
}
