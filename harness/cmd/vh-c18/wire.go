//go:build verif

package main

import (
	"vh/internal/cli"
	"vh/internal/emit"
	"vh/internal/rng"
)

const wireBase = 300000

func wirePreface() string { return "" }

func runWire(a cli.Args, root *rng.R, rep *emit.Report, sh *emit.Shards, only int) {}
