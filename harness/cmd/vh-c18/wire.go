//go:build verif

package main

// Wire-format cases: the real *JsonArrayParser of each module against Model/Json.v.
//
//   stream A  Go rule structs -> encoding/json Marshal -> the real parser; the model's decoder is
//             run on the bytes Go produced (Coq side) and must yield the field values the parser yields
//   stream B  the model's encoder output (a Go replica here; Coq checks `encode sch l = payload`)
//             -> the real parser -> must yield the rules it describes; also delivered to a real
//             handler + rule manager: exactly the valid rules must be in force
//   stream C  the same rules written "by hand": whitespace, other member order, other key case,
//             omitted default members, unknown members with nested values, duplicate keys, null members
//   stream D  malformed / corner payloads: truncations, wrongly typed members, out-of-range and
//             non-integer literals, wrong documents, byte mutations, payloads outside the model's
//             byte subset (only counted)
//
// The monitor knows by construction what each payload describes (or that it is undecodable /
// empty) and states that directly on the parser's result; it never looks at the Coq model.

import (
	"encoding/json"
	"fmt"
	"math"
	"math/big"
	"reflect"
	"sort"
	"strconv"
	"strings"

	cb "github.com/alibaba/sentinel-golang/core/circuitbreaker"
	"github.com/alibaba/sentinel-golang/core/flow"
	"github.com/alibaba/sentinel-golang/core/hotspot"
	"github.com/alibaba/sentinel-golang/core/isolation"
	"github.com/alibaba/sentinel-golang/core/system"
	"github.com/alibaba/sentinel-golang/ext/datasource"

	"vh/internal/cli"
	"vh/internal/emit"
	"vh/internal/rng"
)

const wireBase = 300000

func wirePreface() string { return "" }

// ---- the wire schemas, as Model/Json.v states them (Coq re-checks every encoded payload) ----------

type wtype int

const (
	tStr wtype = iota
	tInt
	tNum
	tItems
)

type wfield struct {
	Name   string
	Ty     wtype
	Lo, Hi *big.Int
}

func bi(s string) *big.Int { v, _ := new(big.Int).SetString(s, 10); return v }

var (
	i32lo, i32hi = bi("-2147483648"), bi("2147483647")
	u32hi        = bi("4294967295")
	i64lo, i64hi = bi("-9223372036854775808"), bi("9223372036854775807")
	u64hi        = bi("18446744073709551615")
	zero         = bi("0")
)

func fS(n string) wfield   { return wfield{Name: n, Ty: tStr} }
func fN(n string) wfield   { return wfield{Name: n, Ty: tNum} }
func fI32(n string) wfield { return wfield{n, tInt, i32lo, i32hi} }
func fU32(n string) wfield { return wfield{n, tInt, zero, u32hi} }
func fI64(n string) wfield { return wfield{n, tInt, i64lo, i64hi} }
func fU64(n string) wfield { return wfield{n, tInt, zero, u64hi} }

var wireSchemas = [5][]wfield{
	{fS("id"), fS("resource"), fI32("tokenCalculateStrategy"), fI32("controlBehavior"), fN("threshold"),
		fI32("relationStrategy"), fS("refResource"), fU32("maxQueueingTimeMs"), fU32("warmUpPeriodSec"),
		fU32("warmUpColdFactor"), fU32("statIntervalInMs"), fI64("lowMemUsageThreshold"), fI64("highMemUsageThreshold"),
		fI64("memLowWaterMarkBytes"), fI64("memHighWaterMarkBytes")},
	{fS("id"), fU32("metricType"), fN("triggerCount"), fI32("strategy")},
	{fS("id"), fS("resource"), fU32("strategy"), fU32("retryTimeoutMs"), fU64("minRequestAmount"), fU32("statIntervalMs"),
		fU32("statSlidingWindowBucketCount"), fU64("maxAllowedRtMs"), fN("threshold"), fU64("probeNum")},
	{fS("id"), fS("resource"), fI32("metricType"), fI32("controlBehavior"), fI64("paramIndex"), fS("paramKey"),
		fI64("threshold"), fI64("maxQueueingTimeMs"), fI64("burstCount"), fI64("durationInSec"), fI64("paramsMaxCapacity"),
		{Name: "specificItems", Ty: tItems}},
	{fS("id"), fS("resource"), fI32("metricType"), fU32("threshold")},
}

type witem struct {
	Kind int64  `json:"valKind"`
	Str  string `json:"valStr"`
	Thr  int64  `json:"threshold"`
}

// wval is one field value of a wire rule
type wval struct {
	S     string   `json:"s,omitempty"`
	I     *big.Int `json:"i,omitempty"`
	Lit   string   `json:"lit,omitempty"`
	Items []witem  `json:"items,omitempty"`
}

type wrule []wval

// ---- Go rule structs <-> field values ---------------------------------------------------------------

func (v wval) i64() int64   { return v.I.Int64() }
func (v wval) u64() uint64  { return v.I.Uint64() }
func (v wval) f64() float64 { f, _ := strconv.ParseFloat(v.Lit, 64); return f }

// refConvItems: what hotspot_rule_converter.go documents for SpecificValue, written independently:
// kind 0 int (Atoi), 1 string, 2 bool (ParseBool), 3 float64 rounded to 5 decimals; anything that
// does not parse, and any other kind, is skipped; a later item with an equal key replaces the earlier.
func refFloatKey(s string) (float64, bool) {
	v, err := strconv.ParseFloat(s, 64)
	if err != nil {
		return 0, false
	}
	v2, err := strconv.ParseFloat(strconv.FormatFloat(v, 'f', 5, 64), 64)
	if err != nil {
		return 0, false
	}
	return v2, true
}

func refConvItems(items []witem) map[interface{}]int64 {
	out := map[interface{}]int64{}
	for _, it := range items {
		switch it.Kind {
		case 0:
			if v, err := strconv.Atoi(it.Str); err == nil {
				out[v] = it.Thr
			}
		case 1:
			out[it.Str] = it.Thr
		case 2:
			if v, err := strconv.ParseBool(it.Str); err == nil {
				out[v] = it.Thr
			}
		case 3:
			if v, ok := refFloatKey(it.Str); ok {
				out[v] = it.Thr
			}
		}
	}
	return out
}

// goRule builds the module's rule struct from field values (the rule "described").  For hotspot,
// wire=true gives the datasource.HotspotRule that is marshalled, wire=false the hotspot.Rule expected.
func goRule(mod int, r wrule, wire bool) interface{} {
	switch mod {
	case 0:
		return &flow.Rule{ID: r[0].S, Resource: r[1].S, TokenCalculateStrategy: flow.TokenCalculateStrategy(r[2].i64()),
			ControlBehavior: flow.ControlBehavior(r[3].i64()), Threshold: r[4].f64(), RelationStrategy: flow.RelationStrategy(r[5].i64()),
			RefResource: r[6].S, MaxQueueingTimeMs: uint32(r[7].u64()), WarmUpPeriodSec: uint32(r[8].u64()),
			WarmUpColdFactor: uint32(r[9].u64()), StatIntervalInMs: uint32(r[10].u64()), LowMemUsageThreshold: r[11].i64(),
			HighMemUsageThreshold: r[12].i64(), MemLowWaterMarkBytes: r[13].i64(), MemHighWaterMarkBytes: r[14].i64()}
	case 1:
		return &system.Rule{ID: r[0].S, MetricType: system.MetricType(r[1].u64()), TriggerCount: r[2].f64(),
			Strategy: system.AdaptiveStrategy(r[3].i64())}
	case 2:
		return &cb.Rule{Id: r[0].S, Resource: r[1].S, Strategy: cb.Strategy(r[2].u64()), RetryTimeoutMs: uint32(r[3].u64()),
			MinRequestAmount: r[4].u64(), StatIntervalMs: uint32(r[5].u64()), StatSlidingWindowBucketCount: uint32(r[6].u64()),
			MaxAllowedRtMs: r[7].u64(), Threshold: r[8].f64(), ProbeNum: r[9].u64()}
	case 3:
		if wire {
			var items []datasource.SpecificValue
			for _, it := range r[11].Items {
				items = append(items, datasource.SpecificValue{ValKind: datasource.ParamKind(it.Kind), ValStr: it.Str, Threshold: it.Thr})
			}
			return &datasource.HotspotRule{ID: r[0].S, Resource: r[1].S, MetricType: hotspot.MetricType(r[2].i64()),
				ControlBehavior: hotspot.ControlBehavior(r[3].i64()), ParamIndex: int(r[4].i64()), ParamKey: r[5].S,
				Threshold: r[6].i64(), MaxQueueingTimeMs: r[7].i64(), BurstCount: r[8].i64(), DurationInSec: r[9].i64(),
				ParamsMaxCapacity: r[10].i64(), SpecificItems: items}
		}
		return &hotspot.Rule{ID: r[0].S, Resource: r[1].S, MetricType: hotspot.MetricType(r[2].i64()),
			ControlBehavior: hotspot.ControlBehavior(r[3].i64()), ParamIndex: int(r[4].i64()), ParamKey: r[5].S,
			Threshold: r[6].i64(), MaxQueueingTimeMs: r[7].i64(), BurstCount: r[8].i64(), DurationInSec: r[9].i64(),
			ParamsMaxCapacity: r[10].i64(), SpecificItems: refConvItems(r[11].Items)}
	default:
		return &isolation.Rule{ID: r[0].S, Resource: r[1].S, MetricType: isolation.MetricType(r[2].i64()), Threshold: uint32(r[3].u64())}
	}
}

// gval is one field of a rule the parser returned (projected: strings, integers, float bits, map dump)
type gval struct {
	Ty   wtype
	S    string
	I    *big.Int
	Bits uint64
	Map  []string // sorted dump of a SpecificItems map, Coq syntax per entry
}

func gs(s string) gval  { return gval{Ty: tStr, S: s} }
func gi(v int64) gval   { return gval{Ty: tInt, I: big.NewInt(v)} }
func gu(v uint64) gval  { return gval{Ty: tInt, I: new(big.Int).SetUint64(v)} }
func gf(v float64) gval { return gval{Ty: tNum, Bits: math.Float64bits(v)} }
func gm(m map[interface{}]int64) gval {
	return gval{Ty: tItems, Map: dumpMap(m)}
}

func dumpMap(m map[interface{}]int64) []string {
	out := []string{}
	for k, t := range m {
		var ks string
		switch x := k.(type) {
		case int:
			ks = "KInt " + emit.Z(int64(x))
		case string:
			ks = "KStr " + coqBytes([]byte(x))
		case bool:
			ks = "KBool " + emit.B(x)
		case float64:
			ks = "KFlt " + strconv.FormatUint(math.Float64bits(x), 10)
		default:
			ks = fmt.Sprintf("KStr (B \"unexpected key type %T\"%%string)", k)
		}
		out = append(out, emit.Tuple(ks, emit.Z(t)))
	}
	sort.Strings(out)
	return out
}

// fieldsOf projects a rule returned by the module's parser, in schema order.
func fieldsOf(mod int, x interface{}) []gval {
	switch mod {
	case 0:
		r := x.(*flow.Rule)
		return []gval{gs(r.ID), gs(r.Resource), gi(int64(r.TokenCalculateStrategy)), gi(int64(r.ControlBehavior)), gf(r.Threshold),
			gi(int64(r.RelationStrategy)), gs(r.RefResource), gu(uint64(r.MaxQueueingTimeMs)), gu(uint64(r.WarmUpPeriodSec)),
			gu(uint64(r.WarmUpColdFactor)), gu(uint64(r.StatIntervalInMs)), gi(r.LowMemUsageThreshold), gi(r.HighMemUsageThreshold),
			gi(r.MemLowWaterMarkBytes), gi(r.MemHighWaterMarkBytes)}
	case 1:
		r := x.(*system.Rule)
		return []gval{gs(r.ID), gu(uint64(r.MetricType)), gf(r.TriggerCount), gi(int64(r.Strategy))}
	case 2:
		r := x.(*cb.Rule)
		return []gval{gs(r.Id), gs(r.Resource), gu(uint64(r.Strategy)), gu(uint64(r.RetryTimeoutMs)), gu(r.MinRequestAmount),
			gu(uint64(r.StatIntervalMs)), gu(uint64(r.StatSlidingWindowBucketCount)), gu(r.MaxAllowedRtMs), gf(r.Threshold), gu(r.ProbeNum)}
	case 3:
		r := x.(*hotspot.Rule)
		return []gval{gs(r.ID), gs(r.Resource), gi(int64(r.MetricType)), gi(int64(r.ControlBehavior)), gi(int64(r.ParamIndex)),
			gs(r.ParamKey), gi(r.Threshold), gi(r.MaxQueueingTimeMs), gi(r.BurstCount), gi(r.DurationInSec), gi(r.ParamsMaxCapacity),
			gm(r.SpecificItems)}
	default:
		r := x.(*isolation.Rule)
		return []gval{gs(r.ID), gs(r.Resource), gi(int64(r.MetricType)), gu(uint64(r.Threshold))}
	}
}

// expectedFields: what the described rule's fields are (floats through strconv, items through refConvItems)
func expectedFields(mod int, r wrule) []gval {
	var out []gval
	for i, f := range wireSchemas[mod] {
		switch f.Ty {
		case tStr:
			out = append(out, gs(r[i].S))
		case tInt:
			out = append(out, gval{Ty: tInt, I: r[i].I})
		case tNum:
			out = append(out, gf(r[i].f64()))
		default:
			out = append(out, gm(refConvItems(r[i].Items)))
		}
	}
	return out
}

func gvalEq(a, b gval) bool {
	if a.Ty != b.Ty {
		return false
	}
	switch a.Ty {
	case tStr:
		return a.S == b.S
	case tInt:
		return a.I.Cmp(b.I) == 0
	case tNum:
		return a.Bits == b.Bits
	default:
		return sameStrings(a.Map, b.Map)
	}
}

func (g gval) String() string {
	switch g.Ty {
	case tStr:
		return strconv.Quote(g.S)
	case tInt:
		return g.I.String()
	case tNum:
		return fmt.Sprintf("%v(bits %#x)", math.Float64frombits(g.Bits), g.Bits)
	default:
		return "map" + fmt.Sprint(g.Map)
	}
}

// ---- Coq syntax ------------------------------------------------------------------------------------

func coqBytes(b []byte) string {
	plain := true
	for _, c := range b {
		if !(c >= 32 && c <= 126) && c != '\n' && c != '\t' {
			plain = false
		}
	}
	if plain {
		return "(B " + emit.Str(string(b)) + ")"
	}
	var ns []string
	for _, c := range b {
		ns = append(ns, strconv.Itoa(int(c)))
	}
	return "(bytes_of " + emit.List(ns) + ")"
}

func coqBig(v *big.Int) string {
	if v.Sign() < 0 {
		return "(" + v.String() + ")"
	}
	return v.String()
}

func coqWrule(mod int, r wrule) string {
	var fs []string
	for i, f := range wireSchemas[mod] {
		switch f.Ty {
		case tStr:
			fs = append(fs, "FStr "+coqBytes([]byte(r[i].S)))
		case tInt:
			fs = append(fs, "FInt "+coqBig(r[i].I))
		case tNum:
			fs = append(fs, "FNum "+coqBytes([]byte(r[i].Lit)))
		default:
			var is []string
			for _, it := range r[i].Items {
				is = append(is, emit.Tuple(emit.Z(it.Kind), coqBytes([]byte(it.Str)), emit.Z(it.Thr)))
			}
			fs = append(fs, "FItems "+emit.List(is))
		}
	}
	return emit.List(fs)
}

func coqGval(g gval) string {
	switch g.Ty {
	case tStr:
		return "GStr " + coqBytes([]byte(g.S))
	case tInt:
		return "GInt " + coqBig(g.I)
	case tNum:
		return "GFlt " + strconv.FormatUint(g.Bits, 10)
	default:
		return "GMap " + emit.List(g.Map)
	}
}

// wobs is what the real parser did with a payload
type wobs struct {
	Class string   `json:"class"` // err | nil | val | panic
	IsNil bool     `json:"nil_slice,omitempty"`
	Rules [][]gval `json:"-"` // nil entry = nil element
	Shown []string `json:"rules,omitempty"`
}

func coqObs(o wobs) string {
	switch o.Class {
	case "err":
		return "GErr"
	case "nil":
		return "GNil"
	case "panic":
		return "GPanic"
	}
	var rs []string
	for _, r := range o.Rules {
		if r == nil {
			rs = append(rs, "None")
			continue
		}
		var fs []string
		for _, g := range r {
			fs = append(fs, coqGval(g))
		}
		rs = append(rs, "(Some "+emit.List(fs)+")")
	}
	return "(GRules " + emit.B(o.IsNil) + " " + emit.List(rs) + ")"
}

// ---- the byte subset of the model (replica of Json.in_subset; Coq re-checks the flag) -------------

func isDigit(c byte) bool { return c >= '0' && c <= '9' }

func inSubset(b []byte) bool {
	for _, c := range b {
		ok := (c >= 32 && c <= 126 && c != '\\') || c == ' ' || c == '\t' || c == '\n' || c == '\r'
		if !ok {
			return false
		}
	}
	for i, c := range b {
		if c == 'e' || c == 'E' {
			j := i + 1
			if j < len(b) && (b[j] == '+' || b[j] == '-') {
				j++
			}
			n := 0
			for j < len(b) && isDigit(b[j]) {
				n++
				j++
			}
			if n >= 3 {
				return false
			}
		}
	}
	return true
}

// oracle tables: every maximal run of number characters that strconv.ParseFloat accepts, and for
// every quoted string without escapes what the float kind of parseSpecificItems makes of it
func oracleTables(b []byte) (ftab, itab string) {
	fs := map[string]bool{"0": true}
	isNum := func(c byte) bool { return isDigit(c) || c == '-' || c == '+' || c == '.' || c == 'e' || c == 'E' }
	for i := 0; i < len(b); {
		if !isNum(b[i]) {
			i++
			continue
		}
		j := i
		for j < len(b) && isNum(b[j]) {
			j++
		}
		fs[string(b[i:j])] = true
		i = j
	}
	var fl []string
	for s := range fs {
		if v, err := strconv.ParseFloat(s, 64); err == nil {
			fl = append(fl, emit.Tuple(coqBytes([]byte(s)), strconv.FormatUint(math.Float64bits(v), 10)))
		}
	}
	sort.Strings(fl)
	ss := map[string]bool{}
	for i := 0; i < len(b); i++ {
		if b[i] != '"' {
			continue
		}
		j := i + 1
		for j < len(b) && b[j] != '"' && b[j] != '\\' {
			j++
		}
		if j < len(b) && b[j] == '"' {
			ss[string(b[i+1:j])] = true
			i = j
		}
	}
	var il []string
	for s := range ss {
		if v, ok := refFloatKey(s); ok {
			il = append(il, emit.Tuple(coqBytes([]byte(s)), "Some "+strconv.FormatUint(math.Float64bits(v), 10)))
		} else {
			il = append(il, emit.Tuple(coqBytes([]byte(s)), "None"))
		}
	}
	sort.Strings(il)
	return emit.List(fl), emit.List(il)
}

// ---- generation --------------------------------------------------------------------------------------

var strPool = []string{"a", "b", "res c", "GET:/api/v1/users/{id}", "x.y-z_0", "", "q#1", "it's", "[1,2]", "{k:v}", "e12x", "UPPER lower", "  padded  ", "null", "true", "1e5"}
var litPool = []string{"0", "1", "10", "2.5", "1e3", "-1", "100", "0.5", "0.1", "-0.5E-2", "123456789.125", "1e-7", "5e-324",
	"1.7976931348623157e308", "-0", "0.000", "1E5", "12345678901234567890", "0.30000000000000004", "3.141592653589793", "1e21", "1e-7", "99.99"}

func genInt(r *rng.R, f wfield, realistic bool) *big.Int {
	if realistic || r.Chance(1, 2) {
		small := []int64{0, 0, 1, 2, 3, 5, 10, 100, 1000, 3000}
		v := big.NewInt(small[r.Intn(len(small))])
		if f.Lo.Sign() < 0 && r.Chance(1, 6) {
			v.Neg(v)
		}
		return v
	}
	switch r.Intn(4) {
	case 0:
		return new(big.Int).Set(f.Lo)
	case 1:
		return new(big.Int).Set(f.Hi)
	case 2:
		return new(big.Int).Sub(f.Hi, big.NewInt(int64(r.Intn(3))))
	default:
		span := new(big.Int).Sub(f.Hi, f.Lo)
		v := new(big.Int).SetUint64(r.U64())
		v.Mod(v, span)
		return v.Add(v, f.Lo)
	}
}

var floatItemStrs = []string{"1.25", "2.000001", "2.000009", "0.12345", "1.00004", "1.000049", "3.14159", "-0.00001", "0.00005", "NaN", "abc", "0", "-0",
	"-0.000001", "1e3", "Inf", ".5", "1.", "0x1p-2", "1e400", "7",
	"1727800000000.5", "1000000000000000.25", "-1727800000000.5", "123456789012.123456", "4503599627370497.5", "1.9e303", "-1.9e303", "1e308",
	"0.000155", "2.675", "1.005", "0.000015", "1.000005", "-2.675", "-0.000155", "8.345675", "0.1234549999", "1.00001499999"}

func genItems(r *rng.R) []witem {
	n := r.Intn(5)
	var out []witem
	for i := 0; i < n; i++ {
		kind := r.PickI(0, 0, 1, 1, 2, 2, 3, 3, 3, 4, 5)
		if r.Chance(1, 12) {
			kind = r.PickI(-1, 7, 100)
		}
		var s string
		switch kind {
		case 0:
			s = pickS(r, "7", "8", "x7", "-3", "+07", "007", "", "9223372036854775807", "9223372036854775808", "1 ", "1_0")
		case 1:
			s = pickS(r, "s", "t", "", "vip user", "7", "true")
		case 2:
			s = pickS(r, "true", "false", "maybe", "1", "0", "T", "F", "TRUE", "False", "t", "yes")
		case 3:
			// incl. large magnitudes with a fractional part, values near the top of the float64 range,
			// ties at the fifth decimal, negatives and -0: the key is ParseFloat(Sprintf("%.5f", v)),
			// i.e. the exact decimal rounding of the binary value, not round(v*1e5)/1e5
			s = floatItemStrs[r.Intn(len(floatItemStrs))]
		default:
			s = "z"
		}
		out = append(out, witem{Kind: kind, Str: s, Thr: r.PickI(0, 1, 9, -1, 100, math.MaxInt64, math.MinInt64)})
	}
	return out
}

// genWrule: one rule; idx makes resources distinct within a list
func genWrule(r *rng.R, mod, idx int) wrule {
	realistic := r.Chance(1, 2)
	var out wrule
	for _, f := range wireSchemas[mod] {
		switch f.Ty {
		case tStr:
			s := strPool[r.Intn(len(strPool))]
			if f.Name == "resource" && s != "" {
				s = fmt.Sprintf("%s/%d", s, idx)
			}
			if f.Name == "id" {
				s = pickS(r, "", fmt.Sprintf("r%d", idx))
			}
			if (f.Name == "refResource" || f.Name == "paramKey") && r.Chance(2, 3) {
				s = ""
			}
			out = append(out, wval{S: s})
		case tInt:
			out = append(out, wval{I: genInt(r, f, realistic)})
		case tNum:
			out = append(out, wval{Lit: litPool[r.Intn(len(litPool))]})
		default:
			if r.Chance(1, 3) {
				out = append(out, wval{})
			} else {
				out = append(out, wval{Items: genItems(r)})
			}
		}
	}
	return out
}

// genRealistic: values the rule managers can load cheaply (enumerations within or just outside
// the supported sets, modest intervals and capacities) — the domain of the handler-level check
func genRealistic(r *rng.R, mod, idx int) wrule {
	z := func(vs ...int64) wval { return wval{I: big.NewInt(vs[r.Intn(len(vs))])} }
	s := func(vs ...string) wval { return wval{S: vs[r.Intn(len(vs))]} }
	lit := func(vs ...string) wval { return wval{Lit: vs[r.Intn(len(vs))]} }
	res := strPool[r.Intn(len(strPool))]
	if res != "" {
		res = fmt.Sprintf("%s/%d", res, idx)
	}
	id := wval{S: pickS(r, "", fmt.Sprintf("r%d", idx))}
	switch mod {
	case 0:
		st := z(0, 0, 0, 1, 2, -1)
		out := wrule{id, {S: res}, st, z(0, 0, 1, -1), lit("0", "1", "10", "2.5", "1e3", "-1", "100"), z(0, 0, 1, 2), s("", "ref", "ref"),
			z(0, 500), z(0, 10, 10), z(0, 3, 2, 1), z(0, 1000, 2000, 500), z(0), z(0), z(0), z(0)}
		if st.I.Int64() == 2 {
			if r.Chance(3, 4) {
				out[11], out[12], out[13], out[14] = z(1000), z(100), z(1000000), z(2000000)
			} else {
				out[11], out[12] = z(100), z(1000)
			}
		}
		return out
	case 1:
		return wrule{id, z(0, 1, 2, 3, 4, 4, 5, 7), lit("0.5", "1", "10", "0", "-1", "2.25"), z(-1, 0, 1)}
	case 2:
		return wrule{id, {S: res}, z(0, 1, 2, 2), z(1000, 1000, 3000, 0), z(0, 5), z(1000, 1000, 10000, 0), z(0, 1, 10, 3),
			z(0, 50), lit("0.5", "0.5", "5", "1", "-1", "1.5"), z(0, 1)}
	case 3:
		items := wval{}
		if r.Chance(2, 3) {
			items = wval{Items: genItems(r)}
		}
		return wrule{id, {S: res}, z(0, 1, 1, -1), z(0, 0, 1, -1), z(0, 1, -1), s("", "", "uid"), z(0, 5, 5, 100, -1), z(0, 20, -1),
			z(0, 3, -1), z(1, 1, 2, 0), z(0, 100), items}
	default:
		return wrule{id, {S: res}, z(0, 0, 1), z(1, 5, 5, 0, 4294967295)}
	}
}

func genWrules(r *rng.R, mod int, realistic bool) []wrule {
	n := r.Intn(4)
	var out []wrule
	for i := 0; i < n; i++ {
		if realistic {
			out = append(out, genRealistic(r, mod, i))
		} else {
			out = append(out, genWrule(r, mod, i))
		}
	}
	return out
}

// ---- rendering ---------------------------------------------------------------------------------------

func renderItem(it witem) string {
	return fmt.Sprintf(`{"valKind":%d,"valStr":"%s","threshold":%d}`, it.Kind, it.Str, it.Thr)
}

func renderVal(f wfield, v wval) string {
	switch f.Ty {
	case tStr:
		return `"` + v.S + `"`
	case tInt:
		return v.I.String()
	case tNum:
		return v.Lit
	default:
		var is []string
		for _, it := range v.Items {
			is = append(is, renderItem(it))
		}
		return "[" + strings.Join(is, ",") + "]"
	}
}

// modelEncode is a replica of Json.encode (compact, every schema member, schema order)
func modelEncode(mod int, rs []wrule) string {
	var objs []string
	for _, r := range rs {
		var ms []string
		for i, f := range wireSchemas[mod] {
			ms = append(ms, `"`+f.Name+`":`+renderVal(f, r[i]))
		}
		objs = append(objs, "{"+strings.Join(ms, ",")+"}")
	}
	return "[" + strings.Join(objs, ",") + "]"
}

func isDefault(f wfield, v wval) bool {
	switch f.Ty {
	case tStr:
		return v.S == ""
	case tInt:
		return v.I.Sign() == 0
	case tNum:
		return v.Lit == "0"
	default:
		return len(v.Items) == 0
	}
}

func ws(r *rng.R) string { return pickS(r, "", "", " ", "\n", "\t", "\r\n", "  ") }

func foldKey(r *rng.R, k string) string {
	switch r.Intn(6) {
	case 0:
		return strings.ToUpper(k)
	case 1:
		return strings.ToUpper(k[:1]) + k[1:]
	case 2:
		return strings.ToLower(k)
	}
	return k
}

var unknownMembers = []string{`"comment":{"x":[1,null,{"y":"z"}]}`, `"extra":true`, `"n":-1.5e3`, `"tags":["a","b"]`, `"nothing":null`, `"o":{}`, `"arr":[]`, `"nested":[[[]]]`}

func humaniseItem(r *rng.R, it witem) string {
	if it.Kind == 0 && it.Str == "" && it.Thr == 0 && r.Chance(1, 2) {
		return "null"
	}
	ms := []string{}
	if it.Kind != 0 || r.Chance(1, 2) {
		ms = append(ms, fmt.Sprintf(`"%s"%s:%s%d`, foldKey(r, "valKind"), ws(r), ws(r), it.Kind))
	}
	if it.Str != "" || r.Chance(1, 2) {
		ms = append(ms, fmt.Sprintf(`"%s":%s"%s"`, foldKey(r, "valStr"), ws(r), it.Str))
	}
	if it.Thr != 0 || r.Chance(1, 2) {
		ms = append(ms, fmt.Sprintf(`"%s":%d`, foldKey(r, "threshold"), it.Thr))
	}
	if r.Chance(1, 4) {
		ms = append(ms, unknownMembers[r.Intn(len(unknownMembers))])
	}
	p := r.Perm(len(ms))
	var out []string
	for _, i := range p {
		out = append(out, ms[i])
	}
	return "{" + ws(r) + strings.Join(out, ws(r)+","+ws(r)) + ws(r) + "}"
}

// humanise writes the same rules the way a person or another serializer might
func humanise(r *rng.R, mod int, rs []wrule) string {
	var objs []string
	for _, rule := range rs {
		type mem struct {
			text  string
			after int // must come after member with this tag (-1 none)
			tag   int
		}
		var ms []mem
		for i, f := range wireSchemas[mod] {
			v := rule[i]
			if isDefault(f, v) && r.Chance(1, 2) {
				if f.Ty == tItems && r.Chance(1, 2) {
					ms = append(ms, mem{fmt.Sprintf(`"%s":%snull`, foldKey(r, f.Name), ws(r)), -1, -1})
				}
				continue
			}
			var val string
			if f.Ty == tItems {
				var is []string
				for _, it := range v.Items {
					is = append(is, humaniseItem(r, it))
				}
				val = "[" + ws(r) + strings.Join(is, ws(r)+","+ws(r)) + ws(r) + "]"
			} else {
				val = renderVal(f, v)
			}
			ms = append(ms, mem{fmt.Sprintf(`"%s"%s:%s%s`, foldKey(r, f.Name), ws(r), ws(r), val), -1, i})
			if f.Ty != tItems && r.Chance(1, 6) { // an earlier occurrence of the same key with another value
				var other string
				switch f.Ty {
				case tStr:
					other = `"zz"`
				case tInt:
					other = pickS(r, "0", "1")
				default:
					other = "7.5"
				}
				ms = append(ms, mem{fmt.Sprintf(`"%s":%s`, foldKey(r, f.Name), other), -2, i})
			}
			if f.Ty != tItems && r.Chance(1, 8) { // null has no effect on a set field
				ms = append(ms, mem{fmt.Sprintf(`"%s":null`, foldKey(r, f.Name)), -1, -1})
			}
		}
		if r.Chance(1, 2) {
			ms = append(ms, mem{unknownMembers[r.Intn(len(unknownMembers))], -1, -1})
		}
		p := r.Perm(len(ms))
		ord := make([]mem, 0, len(ms))
		for _, i := range p {
			ord = append(ord, ms[i])
		}
		// an "earlier occurrence" (after == -2) must precede the real member with the same tag
		for i := range ord {
			if ord[i].after == -2 {
				for j := 0; j < i; j++ {
					if ord[j].tag == ord[i].tag && ord[j].after == -1 {
						ord[i], ord[j] = ord[j], ord[i]
						break
					}
				}
			}
		}
		var ts []string
		for _, m := range ord {
			ts = append(ts, m.text)
		}
		objs = append(objs, "{"+ws(r)+strings.Join(ts, ws(r)+","+ws(r))+ws(r)+"}")
	}
	return ws(r) + "[" + ws(r) + strings.Join(objs, ws(r)+","+ws(r)) + ws(r) + "]" + ws(r)
}

// ---- cases ---------------------------------------------------------------------------------------------

type wcase struct {
	ID      int     `json:"id"`
	Module  string  `json:"module"`
	Mod     int     `json:"-"`
	Stream  string  `json:"stream"`
	Variant string  `json:"variant,omitempty"`
	Payload string  `json:"payload"`
	Hex     string  `json:"payload_hex,omitempty"`
	Expect  string  `json:"expect"` // rules | err | nil | nilslice | unknown
	Rules   []wrule `json:"described,omitempty"`
	Nils    []int   `json:"nil_elements_at,omitempty"` // positions (in the final list) of null elements
	Real    bool    `json:"loadable_values,omitempty"` // values from the rule managers' cheap domain: also delivered to a real handler
	encOf   bool
}

// fixed documents given to every module's parser on every run (ids wireBase+80000+…)
var fixedDocs = []struct {
	payload, expect string
	nils            []int
}{
	{"", "nil", nil}, {"null", "nilslice", nil}, {"[]", "rules", nil}, {"[null]", "rules", []int{0}}, {" ", "err", nil},
	{"[", "err", nil}, {"{}", "err", nil}, {"[{}", "err", nil},
}

const fixedBase = wireBase + 80000

func fixedWire(id int) wcase {
	k := id - fixedBase
	mod, d := k/len(fixedDocs), fixedDocs[k%len(fixedDocs)]
	return wcase{ID: id, Mod: mod, Module: moduleNames[mod], Stream: "D-malformed", Variant: "fixed-document",
		Payload: d.payload, Expect: d.expect, Nils: d.nils}
}

var moduleNames = []string{"flow", "system", "circuitbreaker", "hotspot", "isolation"}

// fixedFloatItems: one hotspot rule whose specific items are every float string of the pool
// (model-encoded, so it is also delivered to a real handler), on every run
const fixedFloatID = fixedBase + 100

// id fixedFloatID: the strings inside the model's byte subset (compared in Coq as well);
// id fixedFloatID+1: those with a three-digit exponent (monitor only)
func fixedFloatItems(id int) wcase {
	b := varyBases[11] // hotspot qps-reject
	rule := b.rule()
	var items []witem
	for i, s := range floatItemStrs {
		if inSubset([]byte(s)) == (id == fixedFloatID) {
			items = append(items, witem{Kind: 3, Str: s, Thr: int64(i + 1)})
		}
	}
	rule[len(rule)-1] = wval{Items: items}
	rs := []wrule{rule}
	return wcase{ID: id, Mod: 3, Module: moduleNames[3], Stream: "B-model-encode", Variant: "every-float-item-string",
		Payload: modelEncode(3, rs), Expect: "rules", Rules: rs, Real: true, encOf: true}
}

func genWire(r *rng.R, id int) wcase {
	if id == fixedFloatID || id == fixedFloatID+1 {
		return fixedFloatItems(id)
	}
	if id >= fixedBase && id < fixedBase+5*len(fixedDocs) {
		return fixedWire(id)
	}
	mod := r.Intn(5)
	c := wcase{ID: id, Mod: mod, Module: moduleNames[mod]}
	c.Real = r.Chance(1, 2)
	rs := genWrules(r, mod, c.Real)
	switch k := r.Intn(10); {
	case k < 2: // A
		c.Stream, c.Expect, c.Rules = "A-go-marshal", "rules", rs
		elems := []interface{}{}
		for i, x := range rs {
			if r.Chance(1, 8) {
				c.Nils = append(c.Nils, len(elems))
				elems = append(elems, nilOf(mod))
			}
			_ = i
			elems = append(elems, goRule(mod, x, true))
		}
		b, err := json.Marshal(elems)
		if err != nil {
			panic(err)
		}
		c.Payload = string(b)
	case k < 4: // B
		c.Stream, c.Expect, c.Rules, c.encOf = "B-model-encode", "rules", rs, true
		c.Payload = modelEncode(mod, rs)
	case k < 6: // C
		c.Stream, c.Expect, c.Rules = "C-humanised", "rules", rs
		c.Payload = humanise(r, mod, rs)
	default:
		genMalformed(r, &c, rs)
	}
	return c
}

func nilOf(mod int) interface{} {
	switch mod {
	case 0:
		return (*flow.Rule)(nil)
	case 1:
		return (*system.Rule)(nil)
	case 2:
		return (*cb.Rule)(nil)
	case 3:
		return (*datasource.HotspotRule)(nil)
	}
	return (*isolation.Rule)(nil)
}

var wrongDocs = []string{`[1]`, `["x"]`, `[[]]`, `[true]`, `{"resource":"a"}`, `"str"`, `42`, `true`, `{}`, `[{"resource":"a"},7]`,
	`[{"resource":"a"}] x`, `[{"resource":"a"},]`, `[{"resource":"a" "id":"b"}]`, `[{resource:"a"}]`, `[{"resource":"a",}]`,
	`[{"id":1.2.3}]`, `[{"x":01}]`, `[{"x":+1}]`, `[{"x":.5}]`, `[{"x":1.}]`, `[{"x":--1}]`, `[{"x":1e}]`, `[{"x":0x10}]`, `[{"x":nul}]`,
	`[{"x":True}]`, `[nulll]`, `[{"id":"a"}}`, `[{"id":"a"]`, " ", "\n\t ", `[`, `]`, `[{"id":"unterminated}]`, `[{"id":"a"}{"id":"b"}]`, `[,]`, `[{"":}]`}

func genMalformed(r *rng.R, c *wcase, rs []wrule) {
	mod := c.Mod
	c.Stream = "D-malformed"
	if len(rs) == 0 {
		if c.Real {
			rs = []wrule{genRealistic(r, mod, 0)}
		} else {
			rs = []wrule{genWrule(r, mod, 0)}
		}
	}
	base := modelEncode(mod, rs)
	sch := wireSchemas[mod]
	// re-render one rule list with field fi of rule 0 replaced by text
	with := func(fi int, text string) string {
		var objs []string
		for ri, rule := range rs {
			var ms []string
			for i, f := range sch {
				v := renderVal(f, rule[i])
				if ri == 0 && i == fi {
					v = text
				}
				ms = append(ms, `"`+f.Name+`":`+v)
			}
			objs = append(objs, "{"+strings.Join(ms, ",")+"}")
		}
		return "[" + strings.Join(objs, ",") + "]"
	}
	pickField := func(ty wtype) int {
		var is []int
		for i, f := range sch {
			if f.Ty == ty {
				is = append(is, i)
			}
		}
		if len(is) == 0 {
			return -1
		}
		return is[r.Intn(len(is))]
	}
	switch v := r.Intn(12); v {
	case 0, 1:
		c.Variant, c.Expect = "truncated", "err"
		c.Payload = base[:1+r.Intn(len(base)-1)]
	case 2:
		c.Variant, c.Expect = "wrong-member-type", "err"
		fi := r.Intn(len(sch))
		var t string
		switch sch[fi].Ty {
		case tStr:
			t = pickS(r, "5", "true", "[]", "{}", `["a"]`)
		case tInt:
			t = pickS(r, `"5"`, "true", "[1]", "{}")
		case tNum:
			t = pickS(r, `"1.5"`, "false", "[]", "{}")
		default:
			t = pickS(r, "5", `"x"`, "{}", "[1]", `["a"]`, `[{"valKind":"0"}]`, `[{"valStr":7}]`, `[{"threshold":1.5}]`, `[[]]`, "true")
		}
		c.Payload = with(fi, t)
	case 3:
		c.Variant, c.Expect = "int-out-of-range", "err"
		fi := pickField(tInt)
		if r.Bool() {
			c.Payload = with(fi, new(big.Int).Add(sch[fi].Hi, big.NewInt(1)).String())
		} else {
			c.Payload = with(fi, new(big.Int).Sub(sch[fi].Lo, big.NewInt(1)).String())
		}
	case 4:
		c.Variant, c.Expect = "int-not-an-integer", "err"
		c.Payload = with(pickField(tInt), pickS(r, "1.5", "1e2", "1.0", "1E0", "0.0", "01", "+1", "1.", ".5", "-", "1e"))
	case 5:
		c.Variant = "minus-zero-integer"
		fi := pickField(tInt)
		c.Payload = with(fi, "-0")
		if sch[fi].Lo.Sign() < 0 {
			c.Expect = "rules"
			c.Rules = cloneRules(rs)
			c.Rules[0][fi] = wval{I: big.NewInt(0)}
		} else {
			c.Expect = "err"
		}
	case 6:
		c.Variant = "document"
		switch r.Intn(8) {
		case 0:
			c.Payload, c.Expect = "", "nil"
		case 1:
			c.Payload, c.Expect = pickS(r, "null", " null ", "null\n"), "nilslice"
		case 2:
			c.Payload, c.Expect, c.Rules = pickS(r, "[]", " [ ] ", "[\n]"), "rules", nil
		case 3:
			c.Payload, c.Expect, c.Rules, c.Nils = pickS(r, "[null]", "[ null ]"), "rules", nil, []int{0}
		case 4:
			c.Payload, c.Expect, c.Rules, c.Nils = "[null,null]", "rules", nil, []int{0, 1}
		default:
			c.Payload, c.Expect = wrongDocs[r.Intn(len(wrongDocs))], "err"
		}
	case 7:
		c.Variant = "trailing"
		if r.Bool() {
			c.Payload, c.Expect = base+pickS(r, "x", "]", ",", "[]", "null", "0"), "err"
		} else {
			c.Payload, c.Expect, c.Rules = base+pickS(r, " ", "\n", " \t\r\n "), "rules", rs
		}
	case 8, 9:
		c.Variant, c.Expect = "byte-mutation", "unknown"
		b := []byte(base)
		i := r.Intn(len(b))
		ch := byte(32 + r.Intn(95))
		switch r.Intn(3) {
		case 0:
			b[i] = ch
		case 1:
			b = append(b[:i], b[i+1:]...)
		default:
			b = append(b[:i], append([]byte{ch}, b[i:]...)...)
		}
		c.Payload = string(b)
	case 10:
		c.Variant, c.Expect = "outside-the-model-subset", "unknown"
		si := pickField(tStr)
		switch r.Intn(5) {
		case 0:
			c.Payload = with(si, `"aAb"`)
		case 1:
			c.Payload = with(si, `"tab\there"`)
		case 2:
			c.Payload = with(si, "\"caf\xc3\xa9\"")
		case 3:
			c.Payload = with(si, "\"del\x7f\"")
		default:
			if fi := pickField(tNum); fi >= 0 {
				c.Payload = with(fi, pickS(r, "1e400", "-1e999", "1e-400"))
			} else {
				c.Payload = with(si, `"back\\slash"`)
			}
		}
	default:
		c.Variant = "element"
		switch r.Intn(3) {
		case 0: // a null element among the rules
			c.Expect, c.Rules = "rules", rs
			pos := r.Intn(len(rs) + 1)
			c.Nils = []int{pos}
			parts := strings.Split(strings.TrimSuffix(strings.TrimPrefix(modelEncodeSep(mod, rs), "\x00"), "\x00"), "\x00")
			if len(rs) == 0 {
				parts = nil
			}
			parts = append(parts[:pos], append([]string{"null"}, parts[pos:]...)...)
			c.Payload = "[" + strings.Join(parts, ",") + "]"
		case 1:
			c.Expect = "err"
			c.Payload = base[:len(base)-1] + "," + pickS(r, "7", `"x"`, "[]", "true") + "]"
		default: // the empty object: every field at its zero value
			c.Expect = "rules"
			c.Rules = append(cloneRules(rs), zeroRule(mod))
			c.Payload = base[:len(base)-1] + ",{}]"
		}
	}
}

// modelEncodeSep: the encoded rule objects joined by NUL (to splice elements in)
func modelEncodeSep(mod int, rs []wrule) string {
	var objs []string
	for _, r := range rs {
		s := modelEncode(mod, []wrule{r})
		objs = append(objs, s[1:len(s)-1])
	}
	return strings.Join(objs, "\x00")
}

func cloneRules(rs []wrule) []wrule {
	out := make([]wrule, len(rs))
	for i, r := range rs {
		out[i] = append(wrule(nil), r...)
	}
	return out
}

func zeroRule(mod int) wrule {
	var out wrule
	for _, f := range wireSchemas[mod] {
		switch f.Ty {
		case tStr:
			out = append(out, wval{})
		case tInt:
			out = append(out, wval{I: big.NewInt(0)})
		case tNum:
			out = append(out, wval{Lit: "0"})
		default:
			out = append(out, wval{})
		}
	}
	return out
}

// ---- running -------------------------------------------------------------------------------------------

func observeWire(m *module, mod int, payload []byte) (o wobs, ptrs []interface{}) {
	defer func() {
		if r := recover(); r != nil {
			o = wobs{Class: "panic"}
		}
	}()
	v, err := m.parser(payload)
	if err != nil {
		return wobs{Class: "err"}, nil
	}
	if v == nil {
		return wobs{Class: "nil"}, nil
	}
	es, isNil, ok := m.elems(v)
	if !ok {
		return wobs{Class: "panic"}, nil
	}
	o = wobs{Class: "val", IsNil: isNil}
	for _, e := range es {
		if e == nil {
			o.Rules = append(o.Rules, nil)
			o.Shown = append(o.Shown, "nil")
		} else {
			fs := fieldsOf(mod, e)
			o.Rules = append(o.Rules, fs)
			o.Shown = append(o.Shown, fmt.Sprint(fs))
		}
	}
	return o, es
}

// expectedList: the described rules with the null elements spliced in (nil entries)
func expectedList(c wcase) []wrule {
	var out []wrule
	ri := 0
	total := len(c.Rules) + len(c.Nils)
	isNil := map[int]bool{}
	for _, p := range c.Nils {
		isNil[p] = true
	}
	for i := 0; i < total; i++ {
		if isNil[i] {
			out = append(out, nil)
		} else {
			out = append(out, c.Rules[ri])
			ri++
		}
	}
	return out
}

func monitorWire(c wcase, m *module, o wobs, rep *emit.Report) {
	fail := func(clause, sig, detail string) {
		rep.Fail(c.ID, clause, sig, fmt.Sprintf("%s parser, stream %s %s, payload %q: %s", c.Module, c.Stream, c.Variant, clip(c.Payload), detail), c)
	}
	if o.Class == "panic" {
		fail("C18_wire_roundtrip", "parser-panicked-or-returned-foreign-type", "the parser panicked or returned a value that is not its module's rule slice")
		return
	}
	switch c.Expect {
	case "err":
		if o.Class == "nil" {
			fail("C18_reject_keeps", "undecodable-payload-classified-empty", "the parser returned (nil, nil) for an undecodable payload: the handler would clear the rules")
		} else if o.Class != "err" {
			fail("C18_reject_keeps", "undecodable-payload-decoded", fmt.Sprintf("the parser returned %d rules for an undecodable payload", len(o.Rules)))
		}
	case "nil":
		if o.Class != "nil" {
			fail("C18_empty_clears", "empty-payload-not-classified-empty", "the parser did not return (nil, nil) for the empty payload (class "+o.Class+")")
		}
	case "nilslice":
		if o.Class != "val" || len(o.Rules) != 0 {
			fail("C18_wire_roundtrip", "null-document-not-an-empty-rule-list", "class "+o.Class)
		}
	case "rules":
		want := expectedList(c)
		if o.Class != "val" {
			fail("C18_wire_roundtrip", "wire-rule-list-not-decoded", fmt.Sprintf("a payload describing %d rules was classified %s", len(want), o.Class))
			return
		}
		if len(o.Rules) != len(want) {
			fail("C18_wire_roundtrip", "wire-rule-count-differs", fmt.Sprintf("described %d elements, decoded %d", len(want), len(o.Rules)))
			return
		}
		for i, w := range want {
			if (w == nil) != (o.Rules[i] == nil) {
				fail("C18_wire_roundtrip", "wire-null-element-not-a-nil-rule", fmt.Sprintf("element %d", i))
				return
			}
			if w == nil {
				continue
			}
			exp := expectedFields(c.Mod, w)
			for j, f := range wireSchemas[c.Mod] {
				if !gvalEq(exp[j], o.Rules[i][j]) {
					fail("C18_wire_roundtrip", "wire-field-not-as-described", fmt.Sprintf("rule %d field %q: described %v, decoded %v", i, f.Name, exp[j], o.Rules[i][j]))
					return
				}
			}
		}
	}
}

// monitorApplied: C18_applied_exactly o C18_wire_roundtrip on the implementation — deliver the
// payload to a real handler over the real rule manager; exactly the valid described rules are in force
func monitorApplied(c wcase, m *module, rep *emit.Report) {
	if err := m.clear(); err != nil {
		panic(err)
	}
	h := datasource.NewDefaultPropertyHandler(m.parser, m.updater)
	ret := safeHandle(h, []byte(c.Payload))
	got := inForceFPs(m)
	if err := m.clear(); err != nil {
		panic(err)
	}
	want := []string{}
	for _, w := range expectedList(c) {
		if w == nil {
			continue
		}
		g := goRule(c.Mod, w, false)
		if m.valid(g) {
			want = append(want, fingerprint(g))
		}
	}
	sort.Strings(want)
	if ret != 0 {
		rep.Fail(c.ID, "C18_wire_applied", "wire-payload-rejected-by-handler", fmt.Sprintf("%s: Handle returned %d for a payload describing %d rules: %q", c.Module, ret, len(c.Rules), clip(c.Payload)), c)
		return
	}
	if !sameStrings(got, want) {
		rep.Fail(c.ID, "C18_wire_applied", "wire-payload-valid-rules-not-in-force", fmt.Sprintf("%s: in force %v, the valid described rules are %v", c.Module, got, want), c)
	}
}

func coqWire(c wcase, o wobs) string {
	b := []byte(c.Payload)
	enc := "None"
	if c.encOf {
		var rs []string
		for _, r := range c.Rules {
			rs = append(rs, coqWrule(c.Mod, r))
		}
		enc = "(Some " + emit.List(rs) + ")"
	}
	ft, it := oracleTables(b)
	return fmt.Sprintf("WCase %d %d %s %s %s %s %s %s", c.ID, c.Mod, coqBytes(b), emit.B(inSubset(b)), enc, ft, it, coqObs(o))
}

// goSchema reads json tags and field types of a Go wire struct by reflection
func goSchema(t reflect.Type) string {
	var fs []string
	for i := 0; i < t.NumField(); i++ {
		f := t.Field(i)
		name := f.Name
		if tag, ok := f.Tag.Lookup("json"); ok {
			if n := strings.Split(tag, ",")[0]; n == "-" {
				continue
			} else if n != "" {
				name = n
			}
		}
		var ty string
		switch f.Type.Kind() {
		case reflect.String:
			ty = "TStr"
		case reflect.Int32:
			ty = "i32"
		case reflect.Uint32:
			ty = "u32"
		case reflect.Int64, reflect.Int:
			ty = "i64"
		case reflect.Uint64, reflect.Uint:
			ty = "u64"
		case reflect.Float64:
			ty = "TNum"
		case reflect.Slice:
			ty = "TItems"
		default:
			ty = "TStr (* unexpected Go kind " + f.Type.Kind().String() + " *)"
			name = name + "?"
		}
		fs = append(fs, emit.Tuple(coqBytes([]byte(name)), ty))
	}
	return emit.List(fs)
}

func runWire(a cli.Args, root *rng.R, rep *emit.Report, sh *emit.Shards, only int) {
	ms := modules()
	n := a.Pick(0, 300, 4000)
	if a.Search {
		n *= 5
	}
	runOne := func(id int, corr bool) {
		c := genWire(root.Fork(uint64(id)), id)
		if !utf8ish(c.Payload) {
			c.Hex = fmt.Sprintf("%x", c.Payload)
		}
		m := ms[c.Mod]
		o, _ := observeWire(m, c.Mod, []byte(c.Payload))
		rep.Evaluations++
		monitorWire(c, m, o, rep)
		if c.Expect == "rules" && c.Real {
			monitorApplied(c, m, rep)
			rep.Count("wire_delivered_to_real_handler", 1)
		}
		rep.Count("wire_stream_"+c.Stream, 1)
		rep.Count("wire_module_"+c.Module, 1)
		rep.Count("wire_class_"+o.Class, 1)
		if c.Variant != "" {
			rep.Count("wire_variant_"+c.Variant, 1)
		}
		if !inSubset([]byte(c.Payload)) {
			rep.Count("wire_outside_model_subset_not_compared", 1)
		}
		rep.Count("wire_rules_described", len(c.Rules))
		if corr && sh != nil {
			sh.Add(c.ID, coqWire(c, o))
			rep.CorrCases++
			rep.CaseInputs[strconv.Itoa(c.ID)] = c
		}
		if only >= 0 {
			out, _ := json.MarshalIndent(map[string]interface{}{"input": c, "observed": o, "in_model_subset": inSubset([]byte(c.Payload)), "coq": coqWire(c, o)}, "", " ")
			fmt.Println(string(out))
		}
	}
	if only >= 0 {
		if only >= wireBase+90000 {
			return
		}
		runOne(only, false)
		return
	}
	nCorr := n
	if a.Search {
		nCorr = 0
	}
	for i := 0; i < n; i++ {
		runOne(wireBase+i, i < nCorr)
	}
	for i := 0; i < 5*len(fixedDocs); i++ {
		runOne(fixedBase+i, !a.Search)
	}
	runOne(fixedFloatID, !a.Search)
	runOne(fixedFloatID+1, !a.Search)
	// the Go wire structs' json tags and field types against the model's schemas
	if sh != nil {
		types := []reflect.Type{reflect.TypeOf(flow.Rule{}), reflect.TypeOf(system.Rule{}), reflect.TypeOf(cb.Rule{}),
			reflect.TypeOf(datasource.HotspotRule{}), reflect.TypeOf(isolation.Rule{}), reflect.TypeOf(datasource.SpecificValue{})}
		for k, t := range types {
			id := wireBase + 90000 + k
			sh.Add(id, fmt.Sprintf("SCase %d %d %s", id, k, goSchema(t)))
			rep.CorrCases++
			rep.CaseInputs[strconv.Itoa(id)] = map[string]string{"wire_struct": t.String(), "go_schema": goSchema(t)}
		}
	}
}

func utf8ish(s string) bool {
	for i := 0; i < len(s); i++ {
		if s[i] >= 0x7f || (s[i] < 32 && s[i] != '\n' && s[i] != '\t' && s[i] != '\r') {
			return false
		}
	}
	return true
}
