//go:build verif

package main

import (
	"fmt"
	"strconv"

	sentinel "github.com/alibaba/sentinel-golang/api"
	"github.com/alibaba/sentinel-golang/core/base"
	"github.com/alibaba/sentinel-golang/core/stat"

	"vh/internal/chainh"
	"vh/internal/vclock"
)

// Leg "many resources": the accounting of a resource must not depend on how many OTHER resource names
// the process has seen.  The node table is filled beyond base.DefaultMaxResourceAmount (the code only
// warns there), then resources seen for the first time are entered, nested and exited: every call must
// be counted on the node registered under the resource's name (pass / complete / gauge), repeated
// entries of a name on the same node.
type manyInput struct {
	ID      int `json:"id"`
	Fill    int `json:"filled_names"`
	Fresh   int `json:"fresh_resources"`
	PerName int `json:"entries_per_resource"`
}

func runManyResources(id int, clk *vclock.Clock) (*manyInput, []chainh.Failure, map[string]int) {
	in := &manyInput{ID: id, Fill: int(base.DefaultMaxResourceAmount) + 3, Fresh: 4, PerName: 3}
	st := map[string]int{"many_resources_filled": in.Fill}
	var fails []chainh.Failure
	fail := func(clause, sig, f string, a ...interface{}) {
		if len(fails) < 5 {
			fails = append(fails, chainh.Failure{Clause: clause, Signature: sig, Detail: fmt.Sprintf(f, a...)})
		}
	}
	chainh.SetCaseClock(clk, 800000+(id-manyBase))
	stat.ResetResourceNodeMap()
	defer stat.ResetResourceNodeMap()
	defer func() {
		if p := recover(); p != nil {
			fail("C01_outcome_unique", "panic-escaped", "panic in the many-resources leg: %v", p)
		}
	}()
	for i := 0; i < in.Fill; i++ {
		stat.GetOrCreateResourceNode("cm-"+strconv.Itoa(id)+"-fill-"+strconv.Itoa(i), base.ResTypeCommon)
	}
	for k := 0; k < in.Fresh; k++ {
		name := "cm-" + strconv.Itoa(id) + "-late-" + strconv.Itoa(k)
		var open []*base.SentinelEntry
		for j := 0; j < in.PerName; j++ {
			e, b := sentinel.Entry(name, sentinel.WithBatchCount(uint32(j+1)))
			if b != nil || e == nil {
				fail("C01_outcome_unique", "unexpected-outcome", "resource %s (first seen after %d names): entry %d not admitted without any rule", name, in.Fill, j)
				continue
			}
			open = append(open, e)
		}
		want := int64(0)
		for j := range open {
			want += int64(j + 1)
		}
		n := stat.GetResourceNode(name)
		v := chainh.NodeCounters(n)
		if n == nil || v.Pass != want || v.Gauge != int64(len(open)) {
			fail("C01_token_conservation", "pass-plus-block-differs-from-requested", "resource %s first seen after %d names: %d entries / %d tokens admitted, the node registered under its name (present=%v) reports pass %d, concurrency %d", name, in.Fill, len(open), want, n != nil, v.Pass, v.Gauge)
		}
		clk.AddMs(7)
		for _, e := range open {
			e.Exit()
		}
		v = chainh.NodeCounters(stat.GetResourceNode(name))
		if v.Gauge != 0 || v.Done != want {
			fail("C01_completion_exact", "completion-counters-differ", "resource %s first seen after %d names: after the exits its node reports concurrency %d, complete %d (expected 0, %d)", name, in.Fill, v.Gauge, v.Done, want)
		}
		st["many_resources_late_entries"] += len(open)
	}
	return in, fails, st
}
