//go:build verif

package main

import (
	"fmt"
	"runtime"
	"strconv"
	"sync"
	"sync/atomic"
	"time"

	sentinel "github.com/alibaba/sentinel-golang/api"
	"github.com/alibaba/sentinel-golang/core/base"
	"github.com/alibaba/sentinel-golang/core/hotspot"
	"github.com/alibaba/sentinel-golang/core/stat"

	"vh/internal/chainh"
	"vh/internal/rng"
	"vh/internal/vclock"
)

// Many-goroutine leg: G goroutines run fixed per-goroutine transaction lists (Entry, optional
// TraceError, Exit with/without error, repeated Exit, late TraceError; entries are held open
// for a varying number of later transactions, so exits are nested and out of order) against the
// default chain and one custom chain. Which entries are blocked is fixed by the input, so the
// totals are schedule independent: after all goroutines have finished (quiescence) the node
// sums must equal the sums of the per-goroutine ledgers and every gauge must be zero.

type txn struct {
	Res     int    `json:"res"`
	Inb     bool   `json:"inb,omitempty"`
	RType   int32  `json:"rtype,omitempty"`
	Batch   uint32 `json:"batch"`
	Kind    int    `json:"kind"` // 0 pass, 1 block (custom chain only), 2 rule evaluation panics
	Custom  bool   `json:"custom,omitempty"`
	Trace   int64  `json:"trace,omitempty"`
	ExitErr int64  `json:"exit_err,omitempty"`
	Double  bool   `json:"double,omitempty"`
	Hold    int    `json:"hold,omitempty"`
}

type concInput struct {
	ID   int     `json:"id"`
	Txns [][]txn `json:"txns"`
}

type tot struct{ pass, block, done, err int64 }

type cErr struct{ id int64 }

func (e *cErr) Error() string { return "vh conc error " + strconv.FormatInt(e.id, 10) }

type cPrep struct{}

func (cPrep) Order() uint32                  { return 1 }
func (cPrep) Prepare(ctx *base.EntryContext) { stat.DefaultResourceNodePrepareSlot.Prepare(ctx) }

type cCheck struct{}

func (cCheck) Order() uint32 { return 5 }
func (cCheck) Check(ctx *base.EntryContext) *base.TokenResult {
	switch ctx.Input.Flag {
	case 1:
		r := ctx.RuleCheckResult
		r.ResetToBlockedWithMessage(base.BlockTypeFlow, "vh")
		return r
	case 2:
		panic("vh: conc rule check panic")
	}
	return nil
}

type cStat struct{ pass, block, done, err int64 }

func (s *cStat) Order() uint32 { return 7 }
func (s *cStat) OnEntryPassed(ctx *base.EntryContext) {
	atomic.AddInt64(&s.pass, int64(ctx.Input.BatchCount))
}
func (s *cStat) OnEntryBlocked(ctx *base.EntryContext, _ *base.BlockError) {
	atomic.AddInt64(&s.block, int64(ctx.Input.BatchCount))
}
func (s *cStat) OnCompleted(ctx *base.EntryContext) {
	atomic.AddInt64(&s.done, int64(ctx.Input.BatchCount))
	if ctx.Err() != nil {
		atomic.AddInt64(&s.err, int64(ctx.Input.BatchCount))
	}
}

func concRes(id, k int) string { return "cc-" + strconv.Itoa(id) + "-" + strconv.Itoa(k) }

func genConc(r *rng.R, id int) *concInput {
	in := &concInput{ID: id}
	g := 4 + r.Intn(5)
	for i := 0; i < g; i++ {
		n := 40 + r.Intn(81)
		var ts []txn
		for j := 0; j < n; j++ {
			t := txn{Res: r.Intn(2), Inb: r.Chance(1, 2), Batch: uint32(r.PickI(1, 1, 2, 3, 0)), Custom: r.Chance(1, 2), Hold: int(r.PickI(0, 0, 1, 2, 5))}
			t.RType = int32(r.PickI(0, 0, 1, 2, 6)) // goroutines classify the shared resource names differently
			switch x := r.Intn(10); {
			case x < 6:
				t.Kind = 0
			case x < 8:
				t.Kind = 1
				t.Custom = true
			default:
				t.Kind = 2
			}
			if r.Chance(1, 4) {
				t.Trace = r.Range(1, 9)
			}
			if r.Chance(1, 4) {
				t.ExitErr = r.Range(1, 9)
			}
			t.Double = r.Chance(1, 3)
			ts = append(ts, t)
		}
		in.Txns = append(in.Txns, ts)
	}
	return in
}

func runConc(id int, r *rng.R, clk *vclock.Clock) (*concInput, []chainh.Failure, map[string]int) {
	in := genConc(r, id)
	st := map[string]int{"conc_cases": 1}
	var fails []chainh.Failure
	var fmu sync.Mutex
	fail := func(clause, sig, f string, a ...interface{}) {
		fmu.Lock()
		fails = append(fails, chainh.Failure{Clause: clause, Signature: sig, Detail: fmt.Sprintf(f, a...)})
		fmu.Unlock()
	}
	// after every sequential case's window; strictly increasing with the id
	chainh.SetCaseClock(clk, 500000+(id-concBase))
	names := []string{concRes(id, 0), concRes(id, 1)}
	var rules []*hotspot.Rule
	for _, n := range names {
		rules = append(rules, &hotspot.Rule{Resource: n, MetricType: hotspot.QPS, ControlBehavior: hotspot.Reject, ParamIndex: 0, Threshold: 1 << 40, DurationInSec: 1})
	}
	if _, err := hotspot.LoadRules(rules); err != nil {
		panic(err)
	}
	rec := &cStat{}
	sc := base.NewSlotChain()
	sc.AddStatSlot(rec)
	sc.AddRuleCheckSlot(cCheck{})
	sc.AddStatSlot(stat.DefaultSlot)
	sc.AddStatPrepareSlot(cPrep{})
	inb0 := chainh.NodeCounters(stat.InboundNode())

	ledgers := make([]map[int]*tot, len(in.Txns))
	recLedgers := make([]tot, len(in.Txns))
	var wg sync.WaitGroup
	for gi := range in.Txns {
		ledgers[gi] = map[int]*tot{-1: {}, 0: {}, 1: {}}
		wg.Add(1)
		go func(gi int) {
			defer wg.Done()
			defer func() {
				if e := recover(); e != nil {
					fail("C01_outcome_unique", "no-unique-outcome", "goroutine %d: a panic reached the caller: %v", gi, e)
				}
			}()
			type open struct {
				e    *base.SentinelEntry
				t    txn
				own  int64
				hold int
			}
			var live []*open
			led := ledgers[gi]
			apply := func(t txn, f func(*tot)) {
				f(led[t.Res])
				if t.Inb {
					f(led[-1])
				}
				if t.Custom {
					f(&recLedgers[gi])
				}
			}
			exit := func(o *open) {
				if o.t.ExitErr != 0 {
					o.own = o.t.ExitErr
					o.e.Exit(base.WithError(&cErr{o.t.ExitErr}))
				} else {
					o.e.Exit()
				}
				apply(o.t, func(k *tot) {
					k.done += int64(o.t.Batch)
					if o.own != 0 {
						k.err += int64(o.t.Batch)
					}
				})
				if o.t.Double {
					o.e.Exit(base.WithError(&cErr{99}))
					sentinel.TraceError(o.e, &cErr{98})
					o.e.Exit()
				}
			}
			for _, t := range in.Txns[gi] {
				tt := base.Outbound
				if t.Inb {
					tt = base.Inbound
				}
				opts := []sentinel.EntryOption{sentinel.WithBatchCount(t.Batch)}
				if t.Inb || gi%2 == 0 { // odd goroutines rely on the default (Outbound) of the pooled options
					opts = append(opts, sentinel.WithTrafficType(tt))
				}
				if t.RType != 0 {
					opts = append(opts, sentinel.WithResourceType(base.ResourceType(t.RType)))
				}
				if t.Custom {
					opts = append(opts, sentinel.WithSlotChain(sc), sentinel.WithFlag(int32(t.Kind)), sentinel.WithArgs(int64(gi)))
				} else if t.Kind == 2 {
					opts = append(opts, sentinel.WithArgs([]int{gi}))
				} else {
					opts = append(opts, sentinel.WithArgs(int64(gi)))
				}
				e, b := sentinel.Entry(names[t.Res], opts...)
				wantBlock := t.Custom && t.Kind == 1
				if (e == nil) == (b == nil) || (b != nil) != wantBlock {
					fail("C01_outcome_unique", "unexpected-outcome", "goroutine %d: Entry returned entry=%v block=%v, expected blocked=%v", gi, e != nil, b != nil, wantBlock)
					return
				}
				if b != nil {
					apply(t, func(k *tot) { k.block += int64(t.Batch) })
					continue
				}
				apply(t, func(k *tot) { k.pass += int64(t.Batch) })
				o := &open{e: e, t: t, hold: t.Hold}
				if t.Kind == 2 {
					o.own = -1
				}
				// the fresh entry must not carry anybody else's error or arguments
				gotPanicErr := e.Context().Err() != nil
				if gotPanicErr != (t.Kind == 2) {
					fail("C01_live_context_stable", "fresh-entry-carries-foreign-error", "goroutine %d: new entry's context error set=%v, expected %v", gi, gotPanicErr, t.Kind == 2)
					return
				}
				if t.Trace != 0 {
					sentinel.TraceError(e, &cErr{t.Trace})
					o.own = t.Trace
				}
				live = append(live, o)
				var keep []*open
				for _, l := range live {
					if l.hold <= 0 {
						exit(l)
					} else {
						l.hold--
						keep = append(keep, l)
					}
				}
				live = keep
				for _, l := range live {
					// a live entry's context still shows its own error
					ce := l.e.Context().Err()
					var got int64
					if v, ok := ce.(*cErr); ok {
						got = v.id
					} else if ce != nil {
						got = -1
					}
					if got != l.own {
						fail("C01_live_context_stable", "live-context-changed", "goroutine %d: live entry shows error %d, its own is %d", gi, got, l.own)
						return
					}
				}
			}
			for i := len(live) - 1; i >= 0; i-- {
				exit(live[i])
			}
		}(gi)
	}
	wg.Wait()
	// quiescent: compare totals
	sum := map[int]*tot{-1: {}, 0: {}, 1: {}}
	var recSum tot
	for gi := range ledgers {
		for k, v := range ledgers[gi] {
			sum[k].pass += v.pass
			sum[k].block += v.block
			sum[k].done += v.done
			sum[k].err += v.err
		}
		recSum.pass += recLedgers[gi].pass
		recSum.block += recLedgers[gi].block
		recSum.done += recLedgers[gi].done
		recSum.err += recLedgers[gi].err
		st["conc_txns"] += len(in.Txns[gi])
	}
	st["conc_goroutines"] += len(in.Txns)
	check := func(key int, v chainh.CntView) {
		w := sum[key]
		if v.Gauge != 0 {
			sig := "gauge-nonzero-at-quiescence"
			if v.Gauge < 0 {
				sig = "negative-gauge"
			}
			fail("C01_gauge", sig, "key %d: concurrency %d with no entry in flight", key, v.Gauge)
		}
		if v.Pass+v.Block != w.pass+w.block {
			fail("C01_token_conservation", "pass-plus-block-differs-from-requested", "key %d: pass %d + block %d, requested %d", key, v.Pass, v.Block, w.pass+w.block)
		} else if v.Pass != w.pass || v.Block != w.block {
			fail("C01_token_conservation", "outcome-miscounted", "key %d: pass %d block %d, ledger pass %d block %d", key, v.Pass, v.Block, w.pass, w.block)
		}
		if v.Done != w.done {
			fail("C01_completion_exact", "completion-counters-differ", "key %d: complete %d, ledger %d", key, v.Done, w.done)
		} else if v.Err != w.err {
			fail("C01_completion_exact", "error-attributed-to-wrong-entry", "key %d: error %d, ledger %d", key, v.Err, w.err)
		}
	}
	for k := 0; k < 2; k++ {
		check(k, chainh.NodeCounters(stat.GetResourceNode(names[k])))
	}
	iv := chainh.NodeCounters(stat.InboundNode())
	iv.Pass -= inb0.Pass
	iv.Block -= inb0.Block
	iv.Done -= inb0.Done
	iv.Err -= inb0.Err
	iv.Gauge -= inb0.Gauge
	check(-1, iv)
	got := tot{atomic.LoadInt64(&rec.pass), atomic.LoadInt64(&rec.block), atomic.LoadInt64(&rec.done), atomic.LoadInt64(&rec.err)}
	if got != recSum {
		fail("C01_completion_exact", "recorder-totals-differ", "recording statistic slot saw %+v, ledger %+v", got, recSum)
	}
	if _, err := hotspot.LoadRules(nil); err != nil {
		panic(err)
	}
	return in, fails, st
}

// ---- two goroutines exit the SAME entry -------------------------------------------------------
//
// A recording statistic slot parks inside OnCompleted of the first Exit until a second goroutine
// has started its Exit of the same entry (and has been given a moment to get into it); then it
// is released. Exit must be effective exactly once whatever the timing: one completion, gauge 0.

type parkStat struct {
	n       int64
	entered chan struct{}
	release chan struct{}
}

func (s *parkStat) Order() uint32                                           { return 7 }
func (s *parkStat) OnEntryPassed(ctx *base.EntryContext)                    {}
func (s *parkStat) OnEntryBlocked(_ *base.EntryContext, _ *base.BlockError) {}
func (s *parkStat) OnCompleted(ctx *base.EntryContext) {
	if atomic.AddInt64(&s.n, 1) == 1 {
		close(s.entered)
		<-s.release
	}
}

type onceInput struct {
	ID      int    `json:"id"`
	Inb     bool   `json:"inb"`
	Batch   uint32 `json:"batch"`
	Err1    int64  `json:"err1"`
	Err2    int64  `json:"err2"`
	Waiters int    `json:"second_callers"`
}

func runOnceRace(id int, r *rng.R, clk *vclock.Clock) (*onceInput, []chainh.Failure, map[string]int) {
	in := &onceInput{ID: id, Inb: r.Chance(1, 2), Batch: uint32(r.PickI(1, 2, 3)), Err1: r.PickI(0, 4), Err2: r.PickI(0, 5), Waiters: 1 + r.Intn(3)}
	st := map[string]int{"once_race_cases": 1}
	var fails []chainh.Failure
	fail := func(clause, sig, f string, a ...interface{}) {
		fails = append(fails, chainh.Failure{Clause: clause, Signature: sig, Detail: fmt.Sprintf(f, a...)})
	}
	chainh.SetCaseClock(clk, 600000+(id-onceBase))
	name := "co-" + strconv.Itoa(id)
	park := &parkStat{entered: make(chan struct{}), release: make(chan struct{})}
	sc := base.NewSlotChain()
	sc.AddStatPrepareSlot(cPrep{})
	sc.AddStatSlot(stat.DefaultSlot)
	sc.AddStatSlot(park)
	inb0 := chainh.NodeCounters(stat.InboundNode())
	tt := base.Outbound
	if in.Inb {
		tt = base.Inbound
	}
	e, b := sentinel.Entry(name, sentinel.WithSlotChain(sc), sentinel.WithTrafficType(tt), sentinel.WithBatchCount(in.Batch))
	if e == nil || b != nil {
		fail("C01_outcome_unique", "unexpected-outcome", "Entry on a chain without rules was not admitted")
		return in, fails, st
	}
	exit := func(err int64) {
		defer func() { recover() }()
		if err != 0 {
			e.Exit(base.WithError(&cErr{err}))
		} else {
			e.Exit()
		}
	}
	var wg sync.WaitGroup
	wg.Add(1)
	go func() { defer wg.Done(); exit(in.Err1) }()
	<-park.entered
	started := make(chan struct{}, in.Waiters)
	for i := 0; i < in.Waiters; i++ {
		wg.Add(1)
		go func() { defer wg.Done(); started <- struct{}{}; exit(in.Err2) }()
	}
	for i := 0; i < in.Waiters; i++ {
		<-started
	}
	time.Sleep(2 * time.Millisecond) // the second callers are now inside (or blocked in) Exit
	close(park.release)
	wg.Wait()
	if n := atomic.LoadInt64(&park.n); n != 1 {
		fail("C01_exit_idempotent", "concurrent-exit-completed-twice", "OnCompleted ran %d times for one entry exited from %d goroutines", n, 1+in.Waiters)
	}
	check := func(key string, v chainh.CntView) {
		if v.Gauge != 0 {
			sig := "gauge-nonzero-at-quiescence"
			if v.Gauge < 0 {
				sig = "negative-gauge"
			}
			fail("C01_gauge", sig, "%s: concurrency %d after concurrent exits of one entry", key, v.Gauge)
		}
		if v.Pass != int64(in.Batch) || v.Done != int64(in.Batch) {
			fail("C01_completion_exact", "completion-counters-differ", "%s: pass %d complete %d for one entry of batch %d", key, v.Pass, v.Done, in.Batch)
		}
		wantErr := int64(0)
		if in.Err1 != 0 {
			wantErr = int64(in.Batch)
		}
		if v.Err != wantErr {
			fail("C01_completion_exact", "error-attributed-to-wrong-entry", "%s: error count %d, the effective exit's error gives %d", key, v.Err, wantErr)
		}
	}
	check("resource", chainh.NodeCounters(stat.GetResourceNode(name)))
	if in.Inb {
		iv := chainh.NodeCounters(stat.InboundNode())
		iv.Pass -= inb0.Pass
		iv.Done -= inb0.Done
		iv.Err -= inb0.Err
		iv.Gauge -= inb0.Gauge
		check("inbound", iv)
	}
	return in, fails, st
}

// ---- first Entries of a resource that has no node yet ----------------------------------------
//
// Every round uses a fresh resource name; N goroutines are released at once on the first Entry of
// that resource and keep their entries open. All of them must be visible on THE node of the
// resource: gauge = pass = N while open, gauge 0 and complete = N after the exits.

type freshInput struct {
	ID     int `json:"id"`
	Rounds int `json:"rounds"`
	N      int `json:"goroutines"`
}

func runFreshNodeRace(id, rounds int, clk *vclock.Clock) (*freshInput, []chainh.Failure, map[string]int) {
	in := &freshInput{ID: id, Rounds: rounds, N: 8}
	st := map[string]int{"fresh_node_rounds": rounds}
	var fails []chainh.Failure
	fail := func(clause, sig, f string, a ...interface{}) {
		if len(fails) < 5 {
			fails = append(fails, chainh.Failure{Clause: clause, Signature: sig, Detail: fmt.Sprintf(f, a...)})
		}
	}
	chainh.SetCaseClock(clk, 700000+(id-freshBase))
	for rd := 0; rd < rounds; rd++ {
		name := "cf-" + strconv.Itoa(id) + "-" + strconv.Itoa(rd)
		entries := make([]*base.SentinelEntry, in.N)
		var ready, goFlag int32
		var wg sync.WaitGroup
		for g := 0; g < in.N; g++ {
			wg.Add(1)
			go func(g int) {
				defer wg.Done()
				atomic.AddInt32(&ready, 1)
				for atomic.LoadInt32(&goFlag) == 0 {
					runtime.Gosched()
				}
				e, _ := sentinel.Entry(name)
				entries[g] = e
			}(g)
		}
		for atomic.LoadInt32(&ready) != int32(in.N) {
			runtime.Gosched()
		}
		atomic.StoreInt32(&goFlag, 1)
		wg.Wait()
		admitted := int64(0)
		for _, e := range entries {
			if e != nil {
				admitted++
			}
		}
		v := chainh.NodeCounters(stat.GetResourceNode(name))
		if admitted != int64(in.N) {
			fail("C01_outcome_unique", "unexpected-outcome", "round %d: %d of %d entries admitted without any rule", rd, admitted, in.N)
		}
		if v.Gauge != admitted {
			fail("C01_gauge", "gauge-differs-from-live-entries", "round %d: %d entries of the fresh resource %s are open, its node reports concurrency %d", rd, admitted, name, v.Gauge)
		}
		if v.Pass != admitted {
			fail("C01_token_conservation", "pass-plus-block-differs-from-requested", "round %d: %d tokens admitted on the fresh resource %s, its node counts pass %d", rd, admitted, name, v.Pass)
		}
		for _, e := range entries {
			if e != nil {
				e.Exit()
			}
		}
		v = chainh.NodeCounters(stat.GetResourceNode(name))
		if v.Gauge != 0 || v.Done != admitted {
			fail("C01_completion_exact", "completion-counters-differ", "round %d: after the exits the node of %s reports concurrency %d, complete %d (expected 0, %d)", rd, name, v.Gauge, v.Done, admitted)
		}
		if len(fails) > 0 {
			break
		}
	}
	stat.ResetResourceNodeMap()
	return in, fails, st
}
