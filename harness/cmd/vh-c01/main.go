//go:build verif

// vh-c01: correspondence + monitor harness for property C01 (Entry/Exit accounting is conserved
// and correctly attributed). Sequential histories over the real default chain and custom chains
// (shared with vh-c16: package chainh) are compared with the Coq model; an independent ledger
// monitor states C01 on the implementation's traces; a many-goroutine leg (conc.go) compares
// quiescent totals.
package main

import (
	"encoding/json"
	"fmt"
	"os"
	"strconv"

	"github.com/alibaba/sentinel-golang/core/hotspot"
	"github.com/alibaba/sentinel-golang/core/stat"

	"vh/internal/chainh"
	"vh/internal/cli"
	"vh/internal/emit"
	"vh/internal/env"
	"vh/internal/rng"
	"vh/internal/vclock"
)

// ids >= concBase are many-goroutine cases
const concBase = 1000000

// ids >= onceBase: two goroutines exit the same entry; ids >= freshBase: racing first entries of
// fresh resources
const (
	onceBase  = 2000000
	freshBase = 3000000
	manyBase  = 4000000 // a resource first seen when the node table already holds more than DefaultMaxResourceAmount names
)

func main() {
	a := cli.Parse()
	// one statistic geometry for both nodes' read views: 20 x 500 ms = 10 s, so that the sums
	// read through GetSum cover a whole case (cases last < 9 s of virtual time and start 100 s apart)
	env.Init(env.Options{MetricSampleCount: 20, MetricIntervalMs: 10000})
	clk := vclock.New(1700000000000)
	clk.Install()
	root := rng.New(a.Seed)
	rep := emit.NewReport("C01", a.Seed, a.Tier)
	rep.Rule = "sequential: 1-3 chains per case - the real default chain (3 of 5 cases; a hotspot rule on parameter 0 of every resource, so that an unhashable argument makes the built-in rule evaluation panic) and custom accounting chains (node-prepare slot first, 0-2 further prepare slots that may panic, 0-5 rule-check slots that pass/return nil/wait/block/panic, 0-3 recording statistic slots, the real stat.DefaultSlot), 1 in 10 custom chains of the known-finding class (a prepare slot may panic before the node is prepared); 8-41 operations: Entry on 1-3 resources (inbound/outbound, batch in {0,1,2,3,7,2^32-1}, 0-3 args incl. unhashable ones), nested and out-of-order Exit with/without error, repeated/late/void Exit, TraceError and TraceCallee on live and exited entries, exit handlers (ok/err), clock ticks, snapshots (node sums, gauge, err/args/address of every live entry's context); the pool choice is observed by pointer identity. concurrent: 4-8 goroutines x 40-120 transactions over the default chain and a custom chain, quiescent totals only; 2-4 goroutines exiting the same entry while the first is parked inside OnCompleted; rounds of 8 goroutines released at once on the first Entry of a fresh resource (no node yet). Non-trivial = the case has an admitted, a blocked and a panic-passed entry and a late call on an exited entry; distinct by full input (context reuse depends on sync.Pool and is only counted in the distribution)."
	nCorr := a.Pick(a.N, 150, 2500)
	nMon := a.Pick(a.Mon, 3000, 50000)
	nConc := a.Pick(0, 12, 300)
	nOnce := a.Pick(0, 10, 200)
	nFresh := a.Pick(0, 2000, 20000) // rounds of 8 goroutines
	if a.Search {
		nCorr = 0
		nMon *= 5
		nConc *= 3
		nOnce *= 3
		nFresh *= 3
	}
	var sh *emit.Shards
	if a.Only < 0 && !a.Search {
		var err error
		pre := fmt.Sprintf("(* constants of the implementation *)\nDefinition impl_stat_slot_order : Z := %d.\nDefinition impl_prepare_slot_order : Z := %d.\nDefinition impl_hotspot_slot_order : Z := %d.\n",
			stat.StatSlotOrder, stat.PrepareSlotOrder, hotspot.RuleCheckSlotOrder)
		sh, err = emit.NewShards(a.Out, "Corr.Run_C01", a.Shards, pre)
		if err != nil {
			panic(err)
		}
	}
	dist := emit.NewDistinct()
	runOne := func(id int, corr bool) {
		c := chainh.Gen(root.Fork(uint64(id)), id, chainh.ProfC01)
		obs := chainh.Run(c, clk)
		rep.Evaluations++
		_, _, st16 := chainh.MonitorC16(c, obs)
		fails, st := chainh.MonitorC01(c, obs, chainh.EntryFacts(c))
		for _, f := range fails {
			rep.Fail(c.ID, f.Clause, f.Signature, f.Detail, c)
		}
		for k, v := range st {
			rep.Count(k, v)
		}
		for _, k := range []string{"blocked", "entered", "panic_in_entry", "effective_exit", "late_or_void_exit"} {
			rep.Count(k, st16[k])
		}
		for _, o := range c.Ops {
			rep.Count("op_"+o.Kind, 1)
			if o.Kind == "entry" {
				if o.Inb {
					rep.Count("entry_inbound", 1)
				}
				if c.Chains[o.Chain].Default {
					rep.Count("entry_default_chain", 1)
				}
				rep.Count("entry_batch_"+strconv.FormatUint(uint64(o.Batch), 10), 1)
				rep.Count("entry_rtype_"+strconv.Itoa(int(o.RType)), 1)
				if c.Long {
					rep.Count("entry_in_long_hold_case", 1)
				}
				if o.Dflt {
					rep.Count("entry_default_options_omitted", 1)
				}
			}
		}
		reuse := 0
		for i, ob := range obs {
			if c.Ops[i].Kind == "entry" && ob.Pick >= 0 {
				reuse++
			}
		}
		rep.Count("entry_reusing_pooled_context", reuse)
		for _, ch := range c.Chains {
			if ch.Default {
				rep.Count("chains_default", 1)
			} else {
				rep.Count("chains_custom", 1)
			}
		}
		if st16["blocked"] > 0 && st16["entered"] > 0 && st["passed_by_panic"] > 0 && st["late_exit"]+st["late_trace"] > 0 {
			b, _ := json.Marshal(c)
			dist.Add(string(b))
		}
		if corr && sh != nil {
			sh.Add(id, chainh.Coq(c, obs))
			rep.CorrCases++
			rep.CaseInputs[strconv.Itoa(id)] = c
			rep.Sample(map[string]interface{}{"input": c, "observed": obs})
		}
		if a.Only >= 0 {
			out, _ := json.MarshalIndent(map[string]interface{}{"input": c, "observed": obs}, "", " ")
			fmt.Println(string(out))
			fmt.Println(chainh.Coq(c, obs))
		}
	}
	runConcOne := func(id int) {
		in, fails, st := runConc(id, root.Fork(uint64(id)), clk)
		rep.Evaluations++
		for _, f := range fails {
			rep.Fail(id, f.Clause, f.Signature, f.Detail, in)
		}
		for k, v := range st {
			rep.Count(k, v)
		}
		if a.Only >= 0 {
			out, _ := json.MarshalIndent(map[string]interface{}{"input": in, "stats": st}, "", " ")
			fmt.Println(string(out))
		}
	}
	report := func(id int, in interface{}, fails []chainh.Failure, st map[string]int) {
		rep.Evaluations++
		for _, f := range fails {
			rep.Fail(id, f.Clause, f.Signature, f.Detail, in)
		}
		for k, v := range st {
			rep.Count(k, v)
		}
		if a.Only >= 0 {
			out, _ := json.MarshalIndent(map[string]interface{}{"input": in, "stats": st}, "", " ")
			fmt.Println(string(out))
		}
	}
	runOnceOne := func(id int) {
		in, fails, st := runOnceRace(id, root.Fork(uint64(id)), clk)
		report(id, in, fails, st)
	}
	runManyOne := func(id int) {
		in, fails, st := runManyResources(id, clk)
		report(id, in, fails, st)
	}
	runFreshOne := func(id, rounds int) {
		in, fails, st := runFreshNodeRace(id, rounds, clk)
		report(id, in, fails, st)
	}
	if a.Only >= 0 {
		if a.Only >= manyBase {
			runManyOne(a.Only)
		} else if a.Only >= freshBase {
			runFreshOne(a.Only, 3*nFresh)
		} else if a.Only >= onceBase {
			runOnceOne(a.Only)
		} else if a.Only >= concBase {
			runConcOne(a.Only)
		} else {
			runOne(a.Only, false)
		}
		for _, f := range rep.MonitorFailures {
			fmt.Printf("MONITOR-FAIL clause=%s signature=%s %s\n", f.Clause, f.Signature, f.Detail)
		}
		return
	}
	for id := 0; id < nMon; id++ {
		runOne(id, id < nCorr)
	}
	for i := 0; i < nConc; i++ {
		runConcOne(concBase + i)
	}
	for i := 0; i < nOnce; i++ {
		runOnceOne(onceBase + i)
	}
	runFreshOne(freshBase, nFresh)
	runManyOne(manyBase)
	rep.DistinctNontrivial = dist.N()
	rep.Consts["stat.StatSlotOrder"] = stat.StatSlotOrder
	rep.Consts["stat.PrepareSlotOrder"] = stat.PrepareSlotOrder
	rep.Consts["hotspot.RuleCheckSlotOrder"] = hotspot.RuleCheckSlotOrder
	if sh != nil {
		rep.Shards = sh.Close()
	}
	if err := rep.Write(a.Out); err != nil {
		fmt.Fprintln(os.Stderr, err)
		os.Exit(2)
	}
}
