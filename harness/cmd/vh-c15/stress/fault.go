//go:build verif

// Fault mode (-mode fault): "a rule load that fails must not take the module down".
//
// For every module with generator hooks (flow, hotspot, circuitbreaker), both load paths
// (LoadRules, LoadRulesOfResource) and every way a user generator can misbehave (panic, nil
// result, error result): set up a good resource, perform the failing load, then run traffic,
// getters, further loads and clears on UNRELATED resources of the same module.  Every one of
// these calls must return (a watchdog turns a call that does not return into a reported
// failure carrying the op sequence - the harness itself never hangs), no panic may leave the
// public API, and the good resource keeps its rule and its decision.
//
// All of it is sequential: the outcome does not depend on timing.  The watchdog limit only
// matters when a call never returns.
package main

import (
	"errors"
	"fmt"
	"strings"
	"time"

	sentinel "github.com/alibaba/sentinel-golang/api"
	"github.com/alibaba/sentinel-golang/core/base"
	"github.com/alibaba/sentinel-golang/core/circuitbreaker"
	"github.com/alibaba/sentinel-golang/core/flow"
	"github.com/alibaba/sentinel-golang/core/hotspot"
	"github.com/alibaba/sentinel-golang/core/stat"
)

const customStrategy = 17 // outside every module's built-in strategy / control behaviour range

var watchdogLimit = 10 * time.Second

// watched runs f on its own goroutine; ok=false when it did not return within the limit
// (the goroutine is abandoned), pan != nil when it panicked
func watched(f func()) (ok bool, pan interface{}) {
	done := make(chan interface{}, 1)
	go func() {
		defer func() { done <- recover() }()
		f()
	}()
	select {
	case p := <-done:
		return true, p
	case <-time.After(watchdogLimit):
		return false, nil
	}
}

// faultKind: how the generator of the custom strategy misbehaves for a rule whose id starts with it
var faultKinds = []string{"panic", "nil", "error"}

func faultOf(id string) string {
	for _, k := range faultKinds {
		if strings.HasPrefix(id, k) {
			return k
		}
	}
	return ""
}

type fmod struct {
	name     string
	faults   []string
	register func() error
	// good: a rule of a built-in strategy that blocks every request of batch `batch`; bad: a rule of the custom strategy
	loadRes  func(res, id string, bad bool) error
	loadAll  func(specs [][3]string) error // (res, id, "bad"|"")
	clearRes func(res string) error
	rulesOf  func(res string) []string
	allRules func() []string
	try      func(res string) (blocked bool, by string)
	// expected decision on the good resource
	goodBlocked bool
	goodBy      string
}

func flowFmod() *fmod {
	mk := func(res, id string, bad bool) *flow.Rule {
		r := &flow.Rule{ID: id, Resource: res, TokenCalculateStrategy: flow.Direct, ControlBehavior: flow.Reject, Threshold: 1, StatIntervalInMs: 1000}
		if bad {
			r.TokenCalculateStrategy, r.ControlBehavior = customStrategy, customStrategy
		}
		return r
	}
	m := flowModule()
	return &fmod{name: "flow", faults: []string{"panic", "error"},
		register: func() error {
			return flow.VerifSetGenerator(customStrategy, customStrategy, func(r *flow.Rule) error {
				switch faultOf(r.ID) {
				case "panic":
					panic("c15 fault: flow generator panics for rule " + r.ID)
				case "error":
					return errors.New("c15 fault: flow generator fails for rule " + r.ID)
				}
				return nil
			})
		},
		loadRes: func(res, id string, bad bool) error {
			_, e := flow.LoadRulesOfResource(res, []*flow.Rule{mk(res, id, bad)})
			return e
		},
		loadAll: func(specs [][3]string) error {
			rs := []*flow.Rule{}
			for _, s := range specs {
				rs = append(rs, mk(s[0], s[1], s[2] == "bad"))
			}
			_, e := flow.LoadRules(rs)
			return e
		},
		clearRes: m.clearRes, rulesOf: m.rulesOf, allRules: m.allRules, try: m.try, goodBlocked: true, goodBy: "g"}
}

// a user-implemented hotspot controller would need the whole interface; the faults of interest
// happen before one exists
func hotspotFmod() *fmod {
	mk := func(res, id string, bad bool) *hotspot.Rule {
		r := &hotspot.Rule{ID: id, Resource: res, MetricType: hotspot.QPS, ControlBehavior: hotspot.Reject, ParamIndex: 0, Threshold: 1, DurationInSec: 1, SpecificItems: map[interface{}]int64{}}
		if bad {
			r.ControlBehavior = customStrategy
		}
		return r
	}
	m := hotspotModule()
	return &fmod{name: "hotspot", faults: []string{"panic", "nil"},
		register: func() error {
			return hotspot.SetTrafficShapingGenerator(customStrategy, func(r *hotspot.Rule, reuse *hotspot.ParamsMetric) hotspot.TrafficShapingController {
				if faultOf(r.ID) == "panic" {
					panic("c15 fault: hotspot generator panics for rule " + r.ID)
				}
				return nil
			})
		},
		loadRes: func(res, id string, bad bool) error {
			_, e := hotspot.LoadRulesOfResource(res, []*hotspot.Rule{mk(res, id, bad)})
			return e
		},
		loadAll: func(specs [][3]string) error {
			rs := []*hotspot.Rule{}
			for _, s := range specs {
				rs = append(rs, mk(s[0], s[1], s[2] == "bad"))
			}
			_, e := hotspot.LoadRules(rs)
			return e
		},
		clearRes: m.clearRes, rulesOf: m.rulesOf, allRules: m.allRules, try: m.try, goodBlocked: true, goodBy: "g"}
}

func breakerFmod() *fmod {
	mk := func(res, id string, bad bool) *circuitbreaker.Rule {
		r := &circuitbreaker.Rule{Id: id, Resource: res, Strategy: circuitbreaker.ErrorCount, RetryTimeoutMs: 1000, MinRequestAmount: 1000000, StatIntervalMs: 1000, Threshold: 1000000}
		if bad {
			r.Strategy = customStrategy
		}
		return r
	}
	ids := func(rs []circuitbreaker.Rule) []string {
		out := []string{}
		for _, r := range rs {
			out = append(out, r.Id)
		}
		return out
	}
	return &fmod{name: "circuitbreaker", faults: []string{"panic", "nil", "error"},
		register: func() error {
			return circuitbreaker.SetCircuitBreakerGenerator(customStrategy, func(r *circuitbreaker.Rule, reuse interface{}) (circuitbreaker.CircuitBreaker, error) {
				switch faultOf(r.Id) {
				case "panic":
					panic("c15 fault: circuit breaker generator panics for rule " + r.Id)
				case "error":
					return nil, errors.New("c15 fault: circuit breaker generator fails for rule " + r.Id)
				}
				return nil, nil
			})
		},
		loadRes: func(res, id string, bad bool) error {
			_, e := circuitbreaker.LoadRulesOfResource(res, []*circuitbreaker.Rule{mk(res, id, bad)})
			return e
		},
		loadAll: func(specs [][3]string) error {
			rs := []*circuitbreaker.Rule{}
			for _, s := range specs {
				rs = append(rs, mk(s[0], s[1], s[2] == "bad"))
			}
			_, e := circuitbreaker.LoadRules(rs)
			return e
		},
		clearRes: func(res string) error { return circuitbreaker.ClearRulesOfResource(res) },
		rulesOf:  func(res string) []string { return ids(circuitbreaker.GetRulesOfResource(res)) },
		allRules: func() []string { return ids(circuitbreaker.GetRules()) },
		try: func(res string) (bool, string) {
			e, b := sentinel.Entry(res)
			if b != nil {
				return true, "?" + b.BlockType().String()
			}
			sentinel.TraceError(e, errors.New("x"))
			e.Exit()
			return false, ""
		},
		goodBlocked: false, goodBy: ""}
}

func has(l []string, x string) bool {
	for _, y := range l {
		if y == x {
			return true
		}
	}
	return false
}

// one scenario; returns false when a call did not return (the module's lock is gone: the
// remaining scenarios of the module would only repeat the report)
func faultScenario(m *fmod, path, fault string) bool {
	p := fmt.Sprintf("c15f-%s-%s-%s-", m.name, path, fault)
	good, bad, other := p+"good", p+"bad", p+"other"
	badID := fault + "-rule"
	var seq []string
	alive := true
	// step runs one public-API call under the watchdog
	step := func(what string, f func() string) {
		if !alive {
			return
		}
		seq = append(seq, what)
		var got string
		ok, pan := watched(func() { got = f() })
		switch {
		case !ok:
			alive = false
			fail(m.name, "no-deadlock", m.name+"-api-call-never-returns-after-failed-load",
				fmt.Sprintf("module %s, failing load = %s with a generator that %s: the call `%s` did not return within %s; op sequence: %s",
					m.name, path, faultText(fault), what, watchdogLimit, strings.Join(seq, " ; ")))
		case pan != nil:
			fail(m.name, "no-panic", m.name+"-panic-escaped-public-api-around-failed-load",
				fmt.Sprintf("module %s, failing load = %s with a generator that %s: `%s` panicked: %v; op sequence: %s", m.name, path, faultText(fault), what, pan, strings.Join(seq, " ; ")))
		case got != "":
			fail(m.name, "independence", m.name+"-failed-load-changed-another-resource",
				fmt.Sprintf("module %s, failing load = %s with a generator that %s: after `%s`: %s; op sequence: %s", m.name, path, faultText(fault), what, got, strings.Join(seq, " ; ")))
		}
	}
	checkGood := func(when string) {
		step("Entry/Exit("+good+") "+when, func() string {
			b, by := m.try(good)
			if b != m.goodBlocked || by != m.goodBy {
				return fmt.Sprintf("decision on %s: blocked=%v by=%q, expected blocked=%v by=%q (its rule g was loaded before and is in every later load)", good, b, by, m.goodBlocked, m.goodBy)
			}
			return ""
		})
		step("GetRulesOfResource("+good+") "+when, func() string {
			if got := m.rulesOf(good); !eq(got, []string{"g"}) {
				return fmt.Sprintf("GetRulesOfResource(%s) = %v, expected [g]", good, got)
			}
			return ""
		})
	}
	step("LoadRulesOfResource("+good+", [g])", func() string {
		if e := m.loadRes(good, "g", false); e != nil {
			return "loading the good rule failed: " + e.Error()
		}
		return ""
	})
	checkGood("before the failing load")
	if path == "LoadRules" {
		step("LoadRules([g@"+good+", "+badID+"@"+bad+"])", func() string {
			m.loadAll([][3]string{{good, "g", ""}, {bad, badID, "bad"}}) // an error result is fine
			return ""
		})
	} else {
		step("LoadRulesOfResource("+bad+", ["+badID+"])", func() string {
			m.loadRes(bad, badID, true) // an error result is fine
			return ""
		})
	}
	checkGood("after the failing load")
	step("GetRules()", func() string {
		if got := m.allRules(); !has(got, "g") {
			return fmt.Sprintf("GetRules() = %v does not contain g", got)
		}
		return ""
	})
	step("Entry/Exit("+bad+")", func() string { m.try(bad); return "" })
	step("LoadRulesOfResource("+other+", [o])", func() string {
		if e := m.loadRes(other, "o", false); e != nil {
			return "a later load of another resource failed: " + e.Error()
		}
		if got := m.rulesOf(other); !eq(got, []string{"o"}) {
			return fmt.Sprintf("GetRulesOfResource(%s) = %v after loading [o]", other, got)
		}
		return ""
	})
	step("ClearRulesOfResource("+other+")", func() string {
		if e := m.clearRes(other); e != nil {
			return "clearing another resource failed: " + e.Error()
		}
		return ""
	})
	step("statistics getters of "+good, func() string {
		if n := stat.GetResourceNode(good); n != nil {
			n.GetQPS(base.MetricEventPass)
			if c := n.CurrentConcurrency(); c != 0 {
				return fmt.Sprintf("concurrency of %s = %d with no live entry", good, c)
			}
		}
		return ""
	})
	checkGood("at the end")
	count("fault:"+m.name+":"+path+":"+fault, 1)
	count("fault:ops", len(seq))
	return alive
}

func faultText(f string) string {
	switch f {
	case "panic":
		return "panics"
	case "nil":
		return "returns nil (and a nil error)"
	}
	return "returns an error"
}

func runFaults(mods string) {
	for _, m := range []*fmod{flowFmod(), hotspotFmod(), breakerFmod()} {
		if !strings.Contains(","+mods+",", ","+m.name+",") {
			continue
		}
		if err := m.register(); err != nil {
			mu.Lock()
			res.Calibrate = append(res.Calibrate, m.name+": cannot register the custom generator: "+err.Error())
			mu.Unlock()
			continue
		}
		alive := true
		for _, path := range []string{"LoadRulesOfResource", "LoadRules"} {
			for _, fault := range m.faults {
				if alive {
					alive = faultScenario(m, path, fault)
				}
			}
		}
	}
}
