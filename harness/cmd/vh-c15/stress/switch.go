//go:build verif

// Rule-switch atomicity with lists of EQUAL verdict (round 3d).
//
// For every module whose Check reads a rule list, the old and the new list are chosen so that
// both give the same verdict for the probe traffic while a decision computed from a MIXTURE of
// the two gives the other one:
//
//	flow / isolation / hotspot / circuitbreaker:  old = [A1 pass, A2 block], new = [B1 block, B2 pass]
//	    (both block, by a2 resp. b1; the mixture (A1, B2) passes)
//	system:  L_T = { "blk-T": a rule of metric type T that blocks every inbound request }
//	             + { "ok-U": a rule of every other metric type U that never blocks }
//	    (every L_T blocks, by blk-T; a check that reads the rules of different metric types at
//	     different moments can see neither blk-T of the old nor blk-T' of the new list and pass)
//
// Two legs use them:
//   - the real-thread stress (main.go: stressModule for the four list modules, stressSystemBlock
//     here): many switches, many racing requests, every decision must be one of the two verdicts;
//   - the deterministic leg (-mode switch, runSwitch): ONE request is parked inside its Entry, at
//     the k-th clock read it performs (the statistics behind the rule checks read util.Clock), the
//     switch is performed completely while it is parked, then it is released; for every k, both
//     directions, every module, every ordered pair of system metric types.  No timing is involved.
package main

import (
	"fmt"
	"runtime"
	"sort"
	"strings"
	"sync"
	"sync/atomic"
	"time"

	sentinel "github.com/alibaba/sentinel-golang/api"
	"github.com/alibaba/sentinel-golang/core/base"
	"github.com/alibaba/sentinel-golang/core/circuitbreaker"
	"github.com/alibaba/sentinel-golang/core/system"
	"github.com/alibaba/sentinel-golang/core/system_metric"
	"github.com/alibaba/sentinel-golang/util"
)

// ---- circuit breaker as a list module: generators of constant breakers ------------------------

const (
	cbAlwaysPass  circuitbreaker.Strategy = 101
	cbAlwaysBlock circuitbreaker.Strategy = 102
)

type constBreaker struct {
	rule *circuitbreaker.Rule
	pass bool
}

func (c *constBreaker) BoundRule() *circuitbreaker.Rule { return c.rule }
func (c *constBreaker) BoundStat() interface{}          { return nil }
func (c *constBreaker) TryPass(*base.EntryContext) bool { return c.pass }
func (c *constBreaker) CurrentState() circuitbreaker.State {
	if c.pass {
		return circuitbreaker.Closed
	}
	return circuitbreaker.Open
}
func (c *constBreaker) OnRequestComplete(uint64, error) {}

var cbIDs = map[string]uint32{"a1": 1, "a2": 2, "b1": 3, "b2": 4, "f": 5, "p": 6, "c": 7}

func breakerModule() *module {
	for _, s := range []circuitbreaker.Strategy{cbAlwaysPass, cbAlwaysBlock} {
		pass := s == cbAlwaysPass
		if err := circuitbreaker.SetCircuitBreakerGenerator(s, func(r *circuitbreaker.Rule, _ interface{}) (circuitbreaker.CircuitBreaker, error) {
			return &constBreaker{rule: r, pass: pass}, nil
		}); err != nil {
			mu.Lock()
			res.Calibrate = append(res.Calibrate, "circuitbreaker: cannot register the constant generators: "+err.Error())
			mu.Unlock()
		}
	}
	mk := func(ss []spec) []*circuitbreaker.Rule {
		out := make([]*circuitbreaker.Rule, 0, len(ss))
		for _, s := range ss {
			st := cbAlwaysPass
			if s.block {
				st = cbAlwaysBlock
			}
			// the id is encoded in a field the manager compares (an equal rule keeps its old breaker, and with it the old rule object)
			out = append(out, &circuitbreaker.Rule{Id: s.id, Resource: s.res, Strategy: st, RetryTimeoutMs: 1000 + cbIDs[s.id], MinRequestAmount: 1, StatIntervalMs: 1000, Threshold: 1})
		}
		return out
	}
	ids := func(rs []circuitbreaker.Rule) []string {
		out := []string{}
		for _, r := range rs {
			out = append(out, r.Id)
		}
		return out
	}
	return &module{name: "circuitbreaker",
		loadAll:  func(r []spec) error { _, e := circuitbreaker.LoadRules(mk(r)); return e },
		loadRes:  func(res string, r []spec) error { _, e := circuitbreaker.LoadRulesOfResource(res, mk(r)); return e },
		clearRes: func(res string) error { return circuitbreaker.ClearRulesOfResource(res) },
		rulesOf:  func(res string) []string { return ids(circuitbreaker.GetRulesOfResource(res)) },
		allRules: func() []string { return ids(circuitbreaker.GetRules()) },
		try: func(res string) (bool, string) {
			e, b := sentinel.Entry(res)
			if b != nil {
				if r, ok := b.TriggeredRule().(*circuitbreaker.Rule); ok && r != nil {
					return true, r.Id
				}
				return true, "?" + b.BlockType().String()
			}
			e.Exit()
			return false, ""
		}}
}

// ---- system: the family L_T -------------------------------------------------------------------

var sysTypes = []system.MetricType{system.Load, system.AvgRT, system.Concurrency, system.InboundQPS, system.CpuUsage}

func sysPrepare() {
	// the load / cpu collectors are off: give the two gauges values that the blocking rules exceed
	system_metric.SetSystemLoad(1e6)
	system_metric.SetSystemCpuUsage(0.99)
}

// sysList: L_T
func sysList(t system.MetricType) []*system.Rule {
	out := []*system.Rule{}
	for _, u := range sysTypes {
		r := &system.Rule{MetricType: u, Strategy: system.NoAdaptive}
		if u == t {
			r.ID, r.TriggerCount = "blk-"+u.String(), 0 // qps/rt/concurrency: v < 0 never holds; load/cpu: gauge > 0 always
		} else {
			r.ID, r.TriggerCount = "ok-"+u.String(), big
			if u == system.CpuUsage {
				r.TriggerCount = 1 // the valid maximum; the gauge is 0.99
			}
		}
		out = append(out, r)
	}
	return out
}

func sysIDs(t system.MetricType) string {
	ids := []string{}
	for _, r := range sysList(t) {
		ids = append(ids, r.ID)
	}
	sort.Strings(ids)
	return strings.Join(ids, ",")
}

// a sequence of metric types in which every ordered pair (T, T'), T != T', occurs as neighbours
func sysTour() []system.MetricType {
	out := []system.MetricType{}
	for _, a := range sysTypes {
		for _, b := range sysTypes {
			if a != b {
				out = append(out, a, b)
			}
		}
	}
	return out
}

const sysRes = "c15-sys-inbound"

func sysTry() (blocked bool, by string) {
	e, blk := sentinel.Entry(sysRes, sentinel.WithTrafficType(base.Inbound))
	if blk != nil {
		if r, ok := blk.TriggeredRule().(*system.Rule); ok && r != nil {
			return true, r.ID
		}
		return true, "?" + blk.BlockType().String()
	}
	e.Exit()
	return false, ""
}

// every list of the family blocks every inbound request: so must every request that races a switch
func stressSystemBlock(iters int, wg *sync.WaitGroup, start chan struct{}) {
	sysPrepare()
	tour := sysTour()
	spawn := func(name string, f func()) {
		wg.Add(1)
		go func() { defer wg.Done(); <-start; guard("system/"+name, f) }()
	}
	system.LoadRules(sysList(tour[0]))
	for _, t := range sysTypes { // calibration, sequential
		system.LoadRules(sysList(t))
		if b, by := sysTry(); !b || by != "blk-"+t.String() {
			mu.Lock()
			res.Calibrate = append(res.Calibrate, fmt.Sprintf("system list L_%s: blocked=%v by=%q, expected blocked by blk-%s", t, b, by, t))
			mu.Unlock()
		}
	}
	system.LoadRules(sysList(tour[0]))
	for g := 0; g < 3; g++ {
		spawn("traffic-block", func() {
			for i := 0; i < iters; i++ {
				b, by := sysTry()
				if !b || !strings.HasPrefix(by, "blk-") {
					fail("system", "old-or-new", "system-decision-neither-old-nor-new",
						fmt.Sprintf("inbound request on %s: blocked=%v by=%q while the system rules are switched between lists L_T = {blk-T blocks everything} + {ok-U never blocks, U != T}: every list blocks every request", sysRes, b, by))
				} else {
					count("system:sw:"+by, 1)
				}
			}
		})
	}
	spawn("churn-block", func() {
		for i := 0; i < iters; i++ {
			system.LoadRules(sysList(tour[i%len(tour)]))
			tick()
			if i%4 == 0 {
				runtime.Gosched()
			}
		}
		count("system:loads", iters)
	})
	spawn("getters-block", func() {
		valid := map[string]bool{}
		for _, t := range sysTypes {
			valid[sysIDs(t)] = true
		}
		for i := 0; i < iters/2; i++ {
			ids := []string{}
			for _, x := range system.GetRules() {
				ids = append(ids, x.ID)
			}
			sort.Strings(ids)
			if j := strings.Join(ids, ","); !valid[j] {
				fail("system", "getter-old-or-new", "system-getter-neither-old-nor-new", "GetRules ids = "+j)
			}
			tick()
		}
		count("system:getter-rounds", iters/2)
	})
}

// ---- deterministic leg: a request parked inside its Entry while the switch happens -----------

// parkClock is a real clock whose CurrentTimeMillis parks the caller at the k-th call after arm(k)
// (one shot).  Only the probe goroutine runs between arm and the park, so the caller is the probe.
type parkClock struct {
	armed   int32
	left    int64
	calls   int64
	parked  chan struct{}
	release chan struct{}
}

func (c *parkClock) Now() time.Time          { return time.Now() }
func (c *parkClock) Sleep(d time.Duration)   { time.Sleep(d) }
func (c *parkClock) CurrentTimeNano() uint64 { return uint64(time.Now().UnixNano()) }
func (c *parkClock) CurrentTimeMillis() uint64 {
	atomic.AddInt64(&c.calls, 1)
	if atomic.LoadInt32(&c.armed) == 1 && atomic.AddInt64(&c.left, -1) < 0 {
		if atomic.CompareAndSwapInt32(&c.armed, 1, 0) {
			c.parked <- struct{}{}
			<-c.release
		}
	}
	return uint64(time.Now().UnixNano() / 1e6)
}

func (c *parkClock) arm(k int) {
	c.parked, c.release = make(chan struct{}, 1), make(chan struct{})
	atomic.StoreInt64(&c.left, int64(k))
	atomic.StoreInt32(&c.armed, 1)
}
func (c *parkClock) disarm() { atomic.StoreInt32(&c.armed, 0) }

type verdict struct {
	blocked bool
	by      string
}

// parkedSwitch: with `before` in force, start one request, park it at its k-th clock read, run
// `sw` (the complete switch) while it is parked, release it.  reached=false: the request finished
// before its k-th clock read.
func parkedSwitch(clk *parkClock, k int, try func() (bool, string), sw func()) (v verdict, reached, ok bool) {
	clk.arm(k)
	done := make(chan verdict, 1)
	pan := make(chan interface{}, 1)
	go func() {
		defer func() {
			if r := recover(); r != nil {
				pan <- r
			}
		}()
		b, by := try()
		done <- verdict{b, by}
	}()
	select {
	case <-clk.parked:
		reached = true
		swDone := make(chan struct{})
		go func() { defer close(swDone); defer func() { recover() }(); sw() }()
		select {
		case <-swDone:
		case <-time.After(watchdogLimit):
			// the parked request holds a lock the switch needs: not a violation by itself; let it go on
		}
		close(clk.release)
		select {
		case <-swDone:
		case <-time.After(watchdogLimit):
			return v, reached, false
		}
	case v = <-done:
		clk.disarm()
		return v, false, true
	case r := <-pan:
		clk.disarm()
		fail("api", "no-panic", "panic-escaped-public-api", fmt.Sprintf("parked-switch probe: %v", r))
		return v, false, false
	}
	select {
	case v = <-done:
		return v, true, true
	case r := <-pan:
		fail("api", "no-panic", "panic-escaped-public-api", fmt.Sprintf("parked-switch probe: %v", r))
		return v, true, false
	case <-time.After(watchdogLimit):
		return v, true, false
	}
}

const maxPark = 40 // more clock reads than one Entry/Exit performs

func runSwitch(mods string) {
	clk := &parkClock{}
	util.SetClock(clk)
	want := func(m string) bool { return strings.Contains(","+mods+",", ","+m+",") }
	// list modules
	for _, m := range []*module{flowModule(), isolationModule(), hotspotModule(), breakerModule()} {
		if !want(m.name) {
			continue
		}
		sw := "c15w-" + m.name + "-sw"
		fb := "c15w-" + m.name + "-fixed"
		oldL := []spec{{"a1", sw, false}, {"a2", sw, true}}
		newL := []spec{{"b1", sw, true}, {"b2", sw, false}}
		fixed := []spec{{"f", fb, true}}
		lists := [2][]spec{oldL, newL}
		wantBy := [2]string{"a2", "b1"}
		for _, path := range []string{"LoadRulesOfResource", "LoadRules"} {
			load := func(l []spec) {
				if path == "LoadRules" {
					m.loadAll(append(append([]spec{}, l...), fixed...))
				} else {
					m.loadRes(sw, l)
				}
			}
			for dir := 0; dir < 2; dir++ {
				from, to := lists[dir], lists[1-dir]
				for k := 0; k < maxPark; k++ {
					load(from)
					if b, by := m.try(sw); !b || by != wantBy[dir] {
						mu.Lock()
						res.Calibrate = append(res.Calibrate, fmt.Sprintf("%s: list %v gives blocked=%v by=%q, expected blocked by %s", m.name, idsOf(from), b, by, wantBy[dir]))
						mu.Unlock()
						break
					}
					v, reached, ok := parkedSwitch(clk, k, func() (bool, string) { return m.try(sw) }, func() { load(to) })
					if !ok {
						fail(m.name, "no-deadlock", m.name+"-request-or-switch-never-returns", fmt.Sprintf("module %s: request on %s parked at its clock read #%d while %s(%v -> %v): the request or the load did not return", m.name, sw, k, path, idsOf(from), idsOf(to)))
						break
					}
					if !reached {
						break
					}
					count("switch:"+m.name+":parked", 1)
					if !(v.blocked && (v.by == "a2" || v.by == "b1")) {
						fail(m.name, "old-or-new", m.name+"-decision-neither-old-nor-new",
							fmt.Sprintf("module %s, resource %s: rules %v in force; one request started and parked at its clock read #%d; %s switched the rules to %v (completed); request released: blocked=%v by=%q. Old list => blocked by %s, new list => blocked by %s: the decision mixes the two lists",
								m.name, sw, idsOf(from), k, path, idsOf(to), v.blocked, v.by, wantBy[dir], wantBy[1-dir]))
					}
					// the neighbour is never affected
					if b, by := m.try(fb); path == "LoadRules" && (!b || by != "f") {
						fail(m.name, "independence", m.name+"-update-of-r-changed-decision-on-other-resource", fmt.Sprintf("resource %s: blocked=%v by=%q, its only rule f blocks", fb, b, by))
					}
				}
			}
		}
	}
	// system: every ordered pair of metric types
	if want("system") {
		sysPrepare()
		for _, a := range sysTypes {
			for _, b := range sysTypes {
				if a == b {
					continue
				}
				for k := 0; k < maxPark; k++ {
					system.LoadRules(sysList(a))
					if bl, by := sysTry(); !bl || by != "blk-"+a.String() {
						mu.Lock()
						res.Calibrate = append(res.Calibrate, fmt.Sprintf("system list L_%s: blocked=%v by=%q", a, bl, by))
						mu.Unlock()
						break
					}
					v, reached, ok := parkedSwitch(clk, k, sysTry, func() { system.LoadRules(sysList(b)) })
					if !ok {
						fail("system", "no-deadlock", "system-request-or-switch-never-returns", fmt.Sprintf("inbound request parked at its clock read #%d while system.LoadRules(L_%s -> L_%s): the request or the load did not return", k, a, b))
						break
					}
					if !reached {
						break
					}
					count("switch:system:parked", 1)
					if !(v.blocked && (v.by == "blk-"+a.String() || v.by == "blk-"+b.String())) {
						fail("system", "old-or-new", "system-decision-neither-old-nor-new",
							fmt.Sprintf("system rules L_%s = [%s] in force (blk-%s blocks every inbound request); one inbound request on %s started and parked at its clock read #%d; system.LoadRules(L_%s = [%s]) completed (blk-%s blocks every inbound request); request released: blocked=%v by=%q - neither list admits it",
								a, sysIDs(a), a, sysRes, k, b, sysIDs(b), b, v.blocked, v.by))
					}
				}
			}
		}
		system.ClearRules()
	}
}
