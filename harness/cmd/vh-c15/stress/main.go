//go:build verif

// C15 stress program. Built with -race by vh-c15. Mixes traffic, rule churn and getters over
// all modules for a FIXED number of iterations per goroutine, and classifies every decision
// taken during churn as "old list" / "new list" (anything else is a failure). The race
// detector's reports go to the GORACE log; this program only reports its own observations
// as one JSON document on stdout.
//
// Switching resources alternate between two 2-rule lists that are chosen so that a decision
// computed from a mixture of the two lists is visibly different from both:
//
//	old = [A1 pass , A2 block]   -> blocked by A2
//	new = [B1 block, B2 pass ]   -> blocked by B1
//	mixture (A1, B2)             -> PASS (consistent with neither)
//
// Fixed resources keep one rule list for the whole run while their neighbours churn.
package main

import (
	"encoding/json"
	"errors"
	"flag"
	"fmt"
	"os"
	"runtime"
	"sort"
	"strings"
	"sync"
	"sync/atomic"
	"time"

	sentinel "github.com/alibaba/sentinel-golang/api"
	"github.com/alibaba/sentinel-golang/core/base"
	"github.com/alibaba/sentinel-golang/core/circuitbreaker"
	"github.com/alibaba/sentinel-golang/core/flow"
	"github.com/alibaba/sentinel-golang/core/hotspot"
	"github.com/alibaba/sentinel-golang/core/isolation"
	"github.com/alibaba/sentinel-golang/core/outlier"
	"github.com/alibaba/sentinel-golang/core/stat"
	"github.com/alibaba/sentinel-golang/core/system"
	"vh/internal/env"
)

type failure struct {
	Module    string `json:"module"`
	Clause    string `json:"clause"`
	Signature string `json:"signature"`
	Detail    string `json:"detail"`
}

type result struct {
	Iters     int            `json:"iters"`
	Counts    map[string]int `json:"counts"`
	Failures  []failure      `json:"failures"`
	Panics    []string       `json:"panics"`
	Calibrate []string       `json:"calibration_errors"`
}

var (
	mu  sync.Mutex
	res = result{Counts: map[string]int{}}
)

// progress: operations completed so far; running: goroutines (by name) that have not finished.
// stallWatch turns a run in which nothing completes any more (a deadlock of the code under test)
// into a reported failure instead of a hung process.
var (
	progress int64
	running  = map[string]int{}
)

func tick() { atomic.AddInt64(&progress, 1) }

func count(k string, n int) {
	tick()
	mu.Lock()
	res.Counts[k] += n
	mu.Unlock()
}

const stallLimit = 20 // seconds without a single completed operation

func stallWatch(done <-chan struct{}) {
	last, idle := int64(-1), 0
	for {
		select {
		case <-done:
			return
		case <-time.After(time.Second):
		}
		cur := atomic.LoadInt64(&progress)
		if cur != last {
			last, idle = cur, 0
			continue
		}
		idle++
		if idle < stallLimit {
			continue
		}
		mu.Lock()
		names := []string{}
		for n, c := range running {
			if c > 0 {
				names = append(names, fmt.Sprintf("%s x%d", n, c))
			}
		}
		sort.Strings(names)
		mu.Unlock()
		fail("api", "no-deadlock", "stress-stalled-no-operation-completes", fmt.Sprintf("no public-API call completed for %d s (%d operations before); goroutines that never finished: %s", stallLimit, cur, strings.Join(names, ", ")))
		mu.Lock()
		finishLocked()
		os.Exit(0)
	}
}

func fail(module, clause, sig, detail string) {
	mu.Lock()
	if len(res.Failures) < 50 {
		res.Failures = append(res.Failures, failure{module, clause, sig, detail})
	}
	res.Counts["failure:"+sig]++
	mu.Unlock()
}

// a module seen through the shape every rule manager shares
type module struct {
	name      string
	loadAll   func(rules []spec) error
	loadRes   func(res string, rules []spec) error
	clearRes  func(res string) error
	rulesOf   func(res string) []string // ids reported by GetRulesOfResource
	allRules  func() []string           // ids reported by GetRules
	try       func(res string) (blocked bool, by string)
	blockSpec func(id, res string) spec
	passSpec  func(id, res string) spec
}

type spec struct {
	id, res string
	block   bool
}

const big = 1e9

// rules of different ids must differ in a field the managers compare (they ignore ID when they
// decide to reuse a controller): the id is encoded in the threshold. Every request asks for a
// batch of 100, so a threshold below 100 blocks and a threshold around 1e9 passes, always.
func idOffset(id string) int {
	switch id {
	case "a1", "a2":
		return 0
	case "b1", "b2":
		return 1
	case "f", "p":
		return 2
	}
	return 3
}

const batch = 100

func flowModule() *module {
	mk := func(ss []spec) []*flow.Rule {
		out := make([]*flow.Rule, 0, len(ss))
		for _, s := range ss {
			thr := float64(big + idOffset(s.id))
			if s.block {
				thr = float64(1 + idOffset(s.id))
			}
			out = append(out, &flow.Rule{ID: s.id, Resource: s.res, TokenCalculateStrategy: flow.Direct, ControlBehavior: flow.Reject, Threshold: thr, StatIntervalInMs: 1000})
		}
		return out
	}
	ids := func(rs []flow.Rule) []string {
		out := []string{}
		for _, r := range rs {
			out = append(out, r.ID)
		}
		return out
	}
	return &module{name: "flow",
		loadAll:  func(r []spec) error { _, e := flow.LoadRules(mk(r)); return e },
		loadRes:  func(res string, r []spec) error { _, e := flow.LoadRulesOfResource(res, mk(r)); return e },
		clearRes: func(res string) error { return flow.ClearRulesOfResource(res) },
		rulesOf:  func(res string) []string { return ids(flow.GetRulesOfResource(res)) },
		allRules: func() []string { return ids(flow.GetRules()) },
		try: func(res string) (bool, string) {
			e, b := sentinel.Entry(res, sentinel.WithBatchCount(batch))
			if b != nil {
				if r, ok := b.TriggeredRule().(*flow.Rule); ok && r != nil {
					return true, r.ID
				}
				return true, "?" + b.BlockType().String()
			}
			e.Exit()
			return false, ""
		}}
}

func isolationModule() *module {
	mk := func(ss []spec) []*isolation.Rule {
		out := make([]*isolation.Rule, 0, len(ss))
		for _, s := range ss {
			thr := uint32(1000000 + idOffset(s.id))
			if s.block {
				thr = uint32(1 + idOffset(s.id))
			}
			out = append(out, &isolation.Rule{ID: s.id, Resource: s.res, MetricType: isolation.Concurrency, Threshold: thr})
		}
		return out
	}
	ids := func(rs []isolation.Rule) []string {
		out := []string{}
		for _, r := range rs {
			out = append(out, r.ID)
		}
		return out
	}
	return &module{name: "isolation",
		loadAll:  func(r []spec) error { _, e := isolation.LoadRules(mk(r)); return e },
		loadRes:  func(res string, r []spec) error { _, e := isolation.LoadRulesOfResource(res, mk(r)); return e },
		clearRes: func(res string) error { return isolation.ClearRulesOfResource(res) },
		rulesOf:  func(res string) []string { return ids(isolation.GetRulesOfResource(res)) },
		allRules: func() []string { return ids(isolation.GetRules()) },
		try: func(res string) (bool, string) {
			e, b := sentinel.Entry(res, sentinel.WithBatchCount(batch))
			if b != nil {
				if r, ok := b.TriggeredRule().(*isolation.Rule); ok && r != nil {
					return true, r.ID
				}
				return true, "?" + b.BlockType().String()
			}
			e.Exit()
			return false, ""
		}}
}

var hsArg int64

func hotspotModule() *module {
	mk := func(ss []spec) []*hotspot.Rule {
		out := make([]*hotspot.Rule, 0, len(ss))
		for _, s := range ss {
			thr := int64(big + idOffset(s.id))
			if s.block {
				thr = int64(1 + idOffset(s.id))
			}
			mt := hotspot.QPS
			if s.id == "p" {
				// the never-blocking neighbour is a CONCURRENCY rule, entered with many different
				// argument values from several goroutines: exercises the per-value counter cache
				// (ConcurrencyStatSlot / LruCacheMap.Get/AddIfAbsent) under the race detector
				mt = hotspot.Concurrency
			}
			out = append(out, &hotspot.Rule{ID: s.id, Resource: s.res, MetricType: mt, ControlBehavior: hotspot.Reject,
				ParamIndex: 0, Threshold: thr, DurationInSec: 1, SpecificItems: map[interface{}]int64{}})
		}
		return out
	}
	ids := func(rs []hotspot.Rule) []string {
		out := []string{}
		for _, r := range rs {
			out = append(out, r.ID)
		}
		return out
	}
	return &module{name: "hotspot",
		loadAll:  func(r []spec) error { _, e := hotspot.LoadRules(mk(r)); return e },
		loadRes:  func(res string, r []spec) error { _, e := hotspot.LoadRulesOfResource(res, mk(r)); return e },
		clearRes: func(res string) error { return hotspot.ClearRulesOfResource(res) },
		rulesOf:  func(res string) []string { return ids(hotspot.GetRulesOfResource(res)) },
		allRules: func() []string { return ids(hotspot.GetRules()) },
		try: func(res string) (bool, string) {
			var arg interface{} = "k"
			if strings.HasSuffix(res, "fixed-pass") {
				arg = int(atomic.AddInt64(&hsArg, 1) % 16)
			}
			e, b := sentinel.Entry(res, sentinel.WithArgs(arg), sentinel.WithBatchCount(batch))
			if b != nil {
				if r, ok := b.TriggeredRule().(*hotspot.Rule); ok && r != nil {
					return true, r.ID
				}
				return true, "?" + b.BlockType().String()
			}
			e.Exit()
			return false, ""
		}}
}

func guard(name string, f func()) {
	mu.Lock()
	running[name]++
	mu.Unlock()
	defer func() {
		r := recover()
		mu.Lock()
		running[name]--
		if r != nil {
			res.Panics = append(res.Panics, fmt.Sprintf("%s: %v", name, r))
		}
		mu.Unlock()
	}()
	f()
}

func eq(a, b []string) bool {
	if len(a) != len(b) {
		return false
	}
	for i := range a {
		if a[i] != b[i] {
			return false
		}
	}
	return true
}

func idsOf(ss []spec) []string {
	out := []string{}
	for _, s := range ss {
		out = append(out, s.id)
	}
	return out
}

// the standard stress of one module with the shared shape
func stressModule(m *module, iters int, wg *sync.WaitGroup, start chan struct{}) {
	p := "c15-" + m.name + "-"
	sw, fb, fp, clr := p+"sw", p+"fixed-block", p+"fixed-pass", p+"clr"
	oldL := []spec{{"a1", sw, false}, {"a2", sw, true}}
	newL := []spec{{"b1", sw, true}, {"b2", sw, false}}
	fixed := []spec{{"f", fb, true}, {"p", fp, false}}
	clrL := []spec{{"c", clr, true}}
	all := func(sel []spec, withClr bool) []spec {
		out := append([]spec{}, sel...)
		out = append(out, fixed...)
		if withClr {
			out = append(out, clrL...)
		}
		return out
	}

	// calibration, sequential: the two lists really give the decisions the classifier expects
	cal := func(what string, want bool, wantBy string, resName string) {
		b, by := m.try(resName)
		if b != want || by != wantBy {
			mu.Lock()
			res.Calibrate = append(res.Calibrate, fmt.Sprintf("%s %s: blocked=%v by=%q, expected blocked=%v by=%q", m.name, what, b, by, want, wantBy))
			mu.Unlock()
		}
	}
	if err := m.loadAll(all(oldL, true)); err != nil {
		res.Calibrate = append(res.Calibrate, m.name+": "+err.Error())
	}
	cal("old list", true, "a2", sw)
	cal("fixed-block", true, "f", fb)
	cal("fixed-pass", false, "", fp)
	if err := m.loadRes(sw, newL); err != nil {
		res.Calibrate = append(res.Calibrate, m.name+": "+err.Error())
	}
	cal("new list", true, "b1", sw)
	cal("fixed-block after update of neighbour", true, "f", fb)
	if !eq(m.rulesOf(sw), idsOf(newL)) {
		res.Calibrate = append(res.Calibrate, fmt.Sprintf("%s: GetRulesOfResource = %v", m.name, m.rulesOf(sw)))
	}

	spawn := func(name string, f func()) {
		wg.Add(1)
		go func() {
			defer wg.Done()
			<-start
			guard(m.name+"/"+name, f)
		}()
	}
	// traffic on the switching resource
	for g := 0; g < 2; g++ {
		spawn("traffic-sw", func() {
			for i := 0; i < iters; i++ {
				b, by := m.try(sw)
				switch {
				case b && by == "a2":
					count(m.name+":sw:old", 1)
				case b && by == "b1":
					count(m.name+":sw:new", 1)
				default:
					fail(m.name, "old-or-new", m.name+"-decision-neither-old-nor-new", fmt.Sprintf("resource %s: blocked=%v by=%q; old list => blocked by a2, new list => blocked by b1", sw, b, by))
				}
			}
		})
	}
	// traffic on the neighbours whose rules never change
	spawn("traffic-fixed-block", func() {
		for i := 0; i < iters; i++ {
			if b, by := m.try(fb); !b || by != "f" {
				fail(m.name, "independence", m.name+"-update-of-r-changed-decision-on-other-resource", fmt.Sprintf("resource %s: blocked=%v by=%q, its only rule f blocks", fb, b, by))
			} else {
				count(m.name+":fixed-block:ok", 1)
			}
		}
	})
	// two goroutines: concurrent entries/exits on one resource (for hotspot: one per-value counter cache)
	for g := 0; g < 2; g++ {
		spawn("traffic-fixed-pass", func() {
			for i := 0; i < iters/2; i++ {
				if b, by := m.try(fp); b {
					fail(m.name, "independence", m.name+"-update-of-r-changed-decision-on-other-resource", fmt.Sprintf("resource %s: blocked by %q, its only rule p passes", fp, by))
				} else {
					count(m.name+":fixed-pass:ok", 1)
				}
			}
		})
	}
	spawn("traffic-clr", func() {
		for i := 0; i < iters; i++ {
			m.try(clr)
			tick()
		}
		count(m.name+":clr:entries", iters)
	})
	// churn: per-resource loads
	spawn("churn-res", func() {
		for i := 0; i < iters/2; i++ {
			l := oldL
			if i%2 == 0 {
				l = newL
			}
			if err := m.loadRes(sw, l); err != nil {
				fail(m.name, "load", m.name+"-load-error", err.Error())
			}
			tick()
			if i%3 == 0 {
				m.clearRes(clr)
			} else if i%3 == 1 {
				m.loadRes(clr, clrL)
			}
			runtime.Gosched()
		}
		count(m.name+":loads-of-resource", iters/2)
	})
	// churn: whole-map loads (always carrying the neighbours' unchanged rules)
	spawn("churn-all", func() {
		for i := 0; i < iters/4; i++ {
			l := oldL
			if i%2 == 0 {
				l = newL
			}
			if err := m.loadAll(all(l, i%4 < 2)); err != nil {
				fail(m.name, "load", m.name+"-load-error", err.Error())
			}
			tick()
			runtime.Gosched()
		}
		count(m.name+":loads-all", iters/4)
	})
	// getters: the reported list of the switching resource is the old or the new one
	spawn("getters", func() {
		for i := 0; i < iters/2; i++ {
			got := m.rulesOf(sw)
			if !eq(got, idsOf(oldL)) && !eq(got, idsOf(newL)) {
				fail(m.name, "getter-old-or-new", m.name+"-getter-neither-old-nor-new", fmt.Sprintf("GetRulesOfResource(%s) = %v", sw, got))
			}
			allIds := m.allRules()
			sort.Strings(allIds)
			j := strings.Join(allIds, ",")
			if !(strings.Contains(j, "a1,a2") || strings.Contains(j, "b1,b2")) || !strings.Contains(j, "f") || !strings.Contains(j, "p") {
				fail(m.name, "getter-old-or-new", m.name+"-getall-neither-old-nor-new", fmt.Sprintf("GetRules ids = %v", allIds))
			}
			tick()
			got2 := m.rulesOf(fb)
			if !eq(got2, []string{"f"}) {
				fail(m.name, "independence", m.name+"-getter-of-other-resource-changed", fmt.Sprintf("GetRulesOfResource(%s) = %v", fb, got2))
			}
		}
		count(m.name+":getter-rounds", iters/2)
	})
}

func stressBreaker(iters int, wg *sync.WaitGroup, start chan struct{}) {
	r := "c15-cb"
	mk := func(id string, thr float64) []*circuitbreaker.Rule {
		return []*circuitbreaker.Rule{{Id: id, Resource: r, Strategy: circuitbreaker.ErrorCount, RetryTimeoutMs: 5, MinRequestAmount: 1, StatIntervalMs: 1000, Threshold: thr},
			{Id: id + "-slow", Resource: r, Strategy: circuitbreaker.SlowRequestRatio, RetryTimeoutMs: 5, MinRequestAmount: 10, StatIntervalMs: 1000, MaxAllowedRtMs: 1000, Threshold: 0.9}}
	}
	spawn := func(name string, f func()) {
		wg.Add(1)
		go func() { defer wg.Done(); <-start; guard("cb/"+name, f) }()
	}
	// per-resource loads only: the whole-map loads of this module are done by stressModule(breakerModule())
	circuitbreaker.LoadRulesOfResource(r, mk("x", 5))
	for g := 0; g < 2; g++ {
		spawn("traffic", func() {
			for i := 0; i < iters; i++ {
				e, b := sentinel.Entry(r)
				if b != nil {
					count("cb:blocked", 1)
					continue
				}
				if i%3 == 0 {
					sentinel.TraceError(e, errors.New("boom"))
				}
				e.Exit()
				count("cb:passed", 1)
			}
		})
	}
	spawn("churn", func() {
		for i := 0; i < iters/2; i++ {
			switch i % 4 {
			case 0:
				circuitbreaker.LoadRulesOfResource(r, mk("x", 5))
			case 1:
				circuitbreaker.LoadRulesOfResource(r, mk("y", 50))
			case 2:
				circuitbreaker.ClearRulesOfResource(r)
			case 3:
				circuitbreaker.LoadRulesOfResource(r, mk("x", 5))
			}
			runtime.Gosched()
		}
		count("cb:loads", iters/2)
	})
	spawn("getters", func() {
		for i := 0; i < iters/2; i++ {
			rs := circuitbreaker.GetRulesOfResource(r)
			if len(rs) != 0 && len(rs) != 2 {
				fail("circuitbreaker", "getter-old-or-new", "circuitbreaker-getter-neither-old-nor-new", fmt.Sprintf("GetRulesOfResource = %d rules", len(rs)))
			}
			circuitbreaker.GetRules()
		}
		count("cb:getter-rounds", iters/2)
	})
}

func stressSystem(iters int, wg *sync.WaitGroup, start chan struct{}) {
	r := "c15-sys-inbound"
	a := []*system.Rule{{ID: "q", MetricType: system.InboundQPS, TriggerCount: big}, {ID: "c", MetricType: system.Concurrency, TriggerCount: big}}
	b := []*system.Rule{{ID: "rt", MetricType: system.AvgRT, TriggerCount: big}}
	spawn := func(name string, f func()) {
		wg.Add(1)
		go func() { defer wg.Done(); <-start; guard("system/"+name, f) }()
	}
	system.LoadRules(a)
	spawn("traffic", func() {
		for i := 0; i < iters; i++ {
			e, blk := sentinel.Entry(r, sentinel.WithTrafficType(base.Inbound))
			if blk != nil {
				fail("system", "old-or-new", "system-decision-neither-old-nor-new", "inbound request blocked although every rule of both lists passes: "+blk.Error())
				continue
			}
			e.Exit()
			count("system:passed", 1)
		}
	})
	spawn("churn", func() {
		for i := 0; i < iters/2; i++ {
			switch i % 3 {
			case 0:
				system.LoadRules(b)
			case 1:
				system.LoadRules(a)
			case 2:
				system.ClearRules()
			}
			runtime.Gosched()
		}
		count("system:loads", iters/2)
	})
	for g := 0; g < 2; g++ {
		spawn("getters", func() {
			for i := 0; i < iters/2; i++ {
				rs := system.GetRules()
				ids := []string{}
				for _, x := range rs {
					ids = append(ids, x.ID)
				}
				sort.Strings(ids)
				j := strings.Join(ids, ",")
				if j != "" && j != "c,q" && j != "rt" {
					fail("system", "getter-old-or-new", "system-getter-neither-old-nor-new", "GetRules ids = "+j)
				}
			}
			count("system:getter-rounds", iters/2)
		})
	}
}

func stressOutlier(iters int, wg *sync.WaitGroup, start chan struct{}) {
	r := "c15-outlier"
	sc := base.NewSlotChain()
	sc.AddStatPrepareSlot(stat.DefaultResourceNodePrepareSlot)
	sc.AddRuleCheckSlot(outlier.DefaultSlot)
	sc.AddStatSlot(stat.DefaultSlot)
	sc.AddStatSlot(outlier.DefaultMetricStatSlot)
	mk := func(thr float64) *outlier.Rule {
		return &outlier.Rule{Rule: &circuitbreaker.Rule{Resource: r, Strategy: circuitbreaker.ErrorCount, RetryTimeoutMs: 5, MinRequestAmount: 1, StatIntervalMs: 1000, Threshold: thr},
			EnableActiveRecovery: false, MaxEjectionPercent: 0.5, RecoveryIntervalMs: 1000, RecycleIntervalS: 3600, MaxRecoveryAttempts: 3}
	}
	spawn := func(name string, f func()) {
		wg.Add(1)
		go func() { defer wg.Done(); <-start; guard("outlier/"+name, f) }()
	}
	outlier.LoadRules([]*outlier.Rule{mk(3)})
	addrs := make([]string, 48)
	for i := range addrs {
		addrs[i] = fmt.Sprintf("10.0.0.%d:80", i+1)
	}
	for g := 0; g < 2; g++ {
		g := g
		spawn("traffic", func() {
			for i := 0; i < iters; i++ {
				e, b := sentinel.Entry(r, sentinel.WithSlotChain(sc))
				if b != nil {
					count("outlier:blocked", 1)
					continue
				}
				sentinel.TraceCallee(e, addrs[(i+g)%len(addrs)])
				if i%2 == 0 {
					sentinel.TraceError(e, errors.New("node down"))
				}
				e.Exit()
				count("outlier:passed", 1)
			}
		})
	}
	spawn("churn", func() {
		for i := 0; i < iters/4; i++ {
			switch i % 4 {
			case 0:
				outlier.LoadRuleOfResource(r, mk(5))
			case 1:
				outlier.LoadRules([]*outlier.Rule{mk(3)})
			case 2:
				outlier.ClearRuleOfResource(r) // node breakers are dropped and re-added by the traffic
			case 3:
				outlier.LoadRuleOfResource(r, mk(3))
			}
			runtime.Gosched()
		}
		count("outlier:loads", iters/4)
	})
	spawn("getters", func() {
		for i := 0; i < iters/2; i++ {
			outlier.GetRules()
		}
		count("outlier:getter-rounds", iters/2)
	})
}

func stressStat(iters int, wg *sync.WaitGroup, start chan struct{}) {
	wg.Add(1)
	go func() {
		defer wg.Done()
		<-start
		guard("stat/getters", func() {
			for i := 0; i < iters/2; i++ {
				for _, n := range stat.ResourceNodeList() {
					n.GetQPS(base.MetricEventPass)
					n.GetQPS(base.MetricEventBlock)
					n.CurrentConcurrency()
					n.AvgRT()
				}
				stat.InboundNode().GetQPS(base.MetricEventPass)
				if n := stat.GetResourceNode("c15-flow-sw"); n != nil {
					n.GetSum(base.MetricEventComplete)
					n.MinRT()
				}
				stat.GetOrCreateResourceNode(fmt.Sprintf("c15-node-%d", i%7), base.ResTypeCommon)
			}
			count("stat:getter-rounds", iters/2)
		})
	}()
}

func main() {
	iters := flag.Int("iters", 2000, "iterations per traffic goroutine")
	mods := flag.String("modules", "flow,isolation,hotspot,circuitbreaker,system,outlier,stat", "modules to stress")
	mode := flag.String("mode", "stress", "stress | fault (failing loads, fault.go) | shared (concurrent calls on one object, shared.go) | switch (request parked inside Entry while the rules are switched, switch.go)")
	sysmode := flag.String("sysmode", "block", "system rules of the stress run: block (lists that each block every inbound request) | admit (lists that each admit every request, and ClearRules)")
	flag.Parse()
	res.Iters = *iters
	env.Init(env.Options{})
	if *mode == "fault" || *mode == "shared" || *mode == "switch" {
		switch *mode {
		case "fault":
			runFaults(*mods)
		case "switch":
			runSwitch(*mods)
		default:
			runShared(*iters)
		}
		finish()
		return
	}
	var wg sync.WaitGroup
	start := make(chan struct{})
	for _, m := range strings.Split(*mods, ",") {
		switch m {
		case "flow":
			stressModule(flowModule(), *iters, &wg, start)
		case "isolation":
			stressModule(isolationModule(), *iters, &wg, start)
		case "hotspot":
			stressModule(hotspotModule(), *iters, &wg, start)
		case "circuitbreaker":
			stressModule(breakerModule(), *iters, &wg, start)
			stressBreaker(*iters, &wg, start)
		case "system":
			if *sysmode == "admit" {
				stressSystem(*iters, &wg, start)
			} else {
				stressSystemBlock(*iters, &wg, start)
			}
		case "outlier":
			stressOutlier(*iters, &wg, start)
		case "stat":
			stressStat(*iters, &wg, start)
		}
	}
	close(start)
	allDone := make(chan struct{})
	go stallWatch(allDone)
	wg.Wait()
	close(allDone)
	// quiescence: every entry of the run has exited
	gaugesZero("c15-", "after the stress run (traffic, churn and getters finished)")
	finish()
}

func finish() {
	mu.Lock()
	finishLocked()
}

func finishLocked() {
	if res.Failures == nil {
		res.Failures = []failure{}
	}
	b, _ := json.MarshalIndent(res, "", " ")
	os.Stdout.Write(b)
	os.Stdout.Write([]byte("\n"))
	if len(res.Calibrate) > 0 {
		os.Exit(3)
	}
}
