//go:build verif

// Shared-object mode (-mode shared): concurrent calls of the public API on ONE object, under
// the race detector, with invariants checked at quiescence.
//
//	same entry:    Exit || Exit (2-4 goroutines);  Exit || Exit(WithError) ;
//	               TraceError / SetError from several goroutines BEFORE the exits (ordered by a
//	               barrier) and late ones racing with the exits only on an already exited entry
//	same resource: the entries of one round are created concurrently on one resource while the
//	               resource's isolation rule is reloaded and read
//
// Facts asserted (true under every schedule on correct code):
//   - every exit handler of an entry ran exactly once, however many goroutines called Exit;
//   - no two LIVE entries share an EntryContext (a context handed back to the pool twice is
//     handed out twice);
//   - at quiescence every resource's concurrency gauge is zero and completions = passes;
//   - nothing panics, nothing hangs (watchdog), the race detector stays silent.
//
// To make overlapping exits likely without depending on them, the first run of the exit
// handler parks until every other goroutine of the round has announced its Exit call (plus a
// short sleep).  On correct code the late callers wait for (or skip) the first one and the
// handler runs once whatever the timing.
package main

import (
	"errors"
	"fmt"
	"sync"
	"sync/atomic"
	"time"

	sentinel "github.com/alibaba/sentinel-golang/api"
	"github.com/alibaba/sentinel-golang/core/base"
	"github.com/alibaba/sentinel-golang/core/isolation"
	"github.com/alibaba/sentinel-golang/core/stat"
)

func sharedExitRound(res string, round int) {
	k := 2 + round%3
	e, b := sentinel.Entry(res)
	if b != nil || e == nil {
		fail("api", "shared-entry", "entry-blocked-without-rule", fmt.Sprintf("Entry(%s) blocked although no blocking rule is loaded", res))
		return
	}
	var ran, ran2 int32
	release := make(chan struct{})
	e.WhenExit(func(_ *base.SentinelEntry, _ *base.EntryContext) error {
		if atomic.AddInt32(&ran, 1) == 1 {
			<-release
			time.Sleep(300 * time.Microsecond)
		}
		return nil
	})
	e.WhenExit(func(_ *base.SentinelEntry, _ *base.EntryContext) error {
		atomic.AddInt32(&ran2, 1)
		return nil
	})
	// errors traced BEFORE the exits, from several goroutines one after the other (each write
	// happens-before the next through the channel)
	tok := make(chan struct{}, 1)
	tok <- struct{}{}
	var pre sync.WaitGroup
	for g := 0; g < 2; g++ {
		pre.Add(1)
		go func(g int) {
			defer pre.Done()
			<-tok
			guard("shared/trace", func() {
				if g == 0 {
					sentinel.TraceError(e, errors.New("traced"))
				} else {
					e.SetError(errors.New("set"))
				}
			})
			tok <- struct{}{}
		}(g)
	}
	pre.Wait()
	started := make(chan struct{}, k)
	var wg sync.WaitGroup
	for g := 0; g < k; g++ {
		wg.Add(1)
		go func(g int) {
			defer wg.Done()
			guard("shared/exit", func() {
				started <- struct{}{}
				if g%2 == 1 {
					e.Exit(base.WithError(errors.New("late")))
				} else {
					e.Exit()
				}
			})
		}(g)
	}
	for g := 0; g < k; g++ {
		<-started
	}
	close(release)
	wg.Wait()
	// late calls on the exited entry: must be no-ops
	guard("shared/late", func() {
		e.Exit()
		sentinel.TraceError(e, errors.New("after exit"))
	})
	input := fmt.Sprintf("one entry of %s, %d goroutines call Exit concurrently (odd ones with WithError), then Exit and TraceError once more", res, k)
	if n := atomic.LoadInt32(&ran); n != 1 {
		fail("api", "exit-once", "exit-handler-ran-more-than-once-under-concurrent-exit", fmt.Sprintf("%s: first exit handler ran %d times, want 1", input, n))
	}
	if n := atomic.LoadInt32(&ran2); n != 1 {
		fail("api", "exit-once", "exit-handler-ran-more-than-once-under-concurrent-exit", fmt.Sprintf("%s: second exit handler ran %d times, want 1", input, n))
	}
	count("shared:exit-rounds", 1)
	count("shared:concurrent-exits", k)
}

// liveContextsDistinct: n entries alive at once, created from `par` goroutines on the given
// resources; no two of them may hold the same context
func liveContextsDistinct(resources []string, n, par int, what string) {
	type le struct {
		e   *base.SentinelEntry
		res string
	}
	var lmu sync.Mutex
	var live []le
	var wg sync.WaitGroup
	for g := 0; g < par; g++ {
		wg.Add(1)
		go func(g int) {
			defer wg.Done()
			guard("shared/live", func() {
				for i := g; i < n; i += par {
					r := resources[i%len(resources)]
					e, b := sentinel.Entry(r)
					if b != nil || e == nil {
						continue
					}
					lmu.Lock()
					live = append(live, le{e, r})
					lmu.Unlock()
				}
			})
		}(g)
	}
	wg.Wait()
	seen := map[*base.EntryContext]string{}
	for _, l := range live {
		c := l.e.Context()
		if other, dup := seen[c]; dup {
			fail("api", "context-unique", "two-live-entries-share-one-context", fmt.Sprintf("%s: two live entries (%s, %s) hold the same pooled EntryContext", what, other, l.res))
		}
		seen[c] = l.res
		if c != nil && c.Resource != nil && c.Resource.Name() != l.res {
			fail("api", "context-unique", "live-entry-context-names-another-resource", fmt.Sprintf("%s: the context of a live entry of %s names resource %s", what, l.res, c.Resource.Name()))
		}
	}
	for _, l := range live {
		l.e.Exit()
	}
	count("shared:live-entries-compared", len(live))
}

func gaugesZero(prefix, what string) {
	for _, n := range stat.ResourceNodeList() {
		name := n.ResourceName()
		if len(name) < len(prefix) || name[:len(prefix)] != prefix {
			continue
		}
		if c := n.CurrentConcurrency(); c != 0 {
			fail("api", "gauge-zero", "concurrency-gauge-nonzero-at-quiescence", fmt.Sprintf("%s: concurrency of %s = %d with no live entry", what, name, c))
		}
		count("quiescent-gauges-checked", 1)
	}
}

func runShared(rounds int) {
	resX, resY, resZ := "c15s-x", "c15s-y", "c15s-z"
	// an isolation rule that never blocks, reloaded and read while entries are created: its
	// decision input is the very gauge the exits maintain
	mkIso := func(thr uint32) []*isolation.Rule {
		return []*isolation.Rule{{ID: "iso", Resource: resX, MetricType: isolation.Concurrency, Threshold: thr}}
	}
	isolation.LoadRulesOfResource(resX, mkIso(1000000))
	stop := make(chan struct{})
	var bg sync.WaitGroup
	bg.Add(1)
	go func() {
		defer bg.Done()
		guard("shared/churn", func() {
			for i := 0; ; i++ {
				select {
				case <-stop:
					return
				default:
				}
				isolation.LoadRulesOfResource(resX, mkIso(uint32(1000000+i%2)))
				isolation.GetRulesOfResource(resX)
				if n := stat.GetResourceNode(resX); n != nil {
					n.CurrentConcurrency()
				}
				time.Sleep(50 * time.Microsecond)
			}
		})
	}()
	done := make(chan struct{})
	go func() {
		defer close(done)
		for r := 0; r < rounds; r++ {
			sharedExitRound(resX, r)
			if r%8 == 7 {
				liveContextsDistinct([]string{resX, resY, resZ}, 12, 3, "after concurrent exits of one entry")
			}
		}
		liveContextsDistinct([]string{resX, resY, resZ}, 48, 4, "after concurrent exits of one entry")
	}()
	select {
	case <-done:
	case <-time.After(60 * time.Second):
		fail("api", "no-deadlock", "concurrent-exit-of-one-entry-never-returns", "the concurrent-Exit rounds did not finish within 60s")
	}
	close(stop)
	bg.Wait()
	gaugesZero("c15s-", "after the concurrent-Exit rounds")
}
