//go:build verif

package main

import (
	"errors"
	"fmt"
	"strconv"
	"sync/atomic"

	sentinel "github.com/alibaba/sentinel-golang/api"
	"github.com/alibaba/sentinel-golang/core/base"
	"github.com/alibaba/sentinel-golang/core/circuitbreaker"
	"github.com/alibaba/sentinel-golang/util"
	"github.com/alibaba/sentinel-golang/util/vhook"

	"vh/internal/sched"
	"vh/internal/vclock"
)

// ---- case data ----------------------------------------------------------------------------

const (
	sSlow     = 0
	sErrRatio = 1
	sErrCount = 2

	stClosed   = 0
	stHalfOpen = 1
	stOpen     = 2
)

var stratCoq = []string{"SlowRatio", "ErrRatio", "ErrCount"}
var stratKey = []string{"slow_ratio", "error_ratio", "error_count"}
var stateCoq = []string{"Closed", "HalfOpen", "Open"}

type ruleT struct {
	Strategy    int     `json:"strategy"`
	Threshold   float64 `json:"threshold"`
	MinAmount   uint64  `json:"min_request_amount"`
	RetryMs     uint32  `json:"retry_timeout_ms"`
	ProbeNum    uint64  `json:"probe_num"`
	MaxRtMs     uint64  `json:"max_allowed_rt_ms"`
	IntervalMs  uint32  `json:"stat_interval_ms"`
	BucketCount uint32  `json:"bucket_count"`
}

// opT is one operation of a goroutine. try: sentinel.Entry on the resource (Blocked: a rule-check
// slot ordered after the breaker slot rejects the request, so the entry exits as blocked).
// complete: OnRequestComplete(Rt, Err) - through SentinelEntry.Exit of the oldest entry this
// goroutine still holds when ViaExit is set and there is one (Rt is then the entry's age),
// otherwise directly on the breaker object. Rt/Direct are filled in by the run.
type opT struct {
	Kind    string `json:"kind"` // try | complete
	Blocked bool   `json:"later_block,omitempty"`
	Rt      uint64 `json:"rt,omitempty"`
	Err     bool   `json:"err,omitempty"`
	ViaExit bool   `json:"via_exit,omitempty"`
	Direct  bool   `json:"direct,omitempty"`
}

type evT struct {
	Kind string `json:"kind"` // run | tick
	Tid  int    `json:"tid,omitempty"`
	Dt   uint64 `json:"dt,omitempty"`
}

type caseT struct {
	ID     int     `json:"id"`
	Name   string  `json:"name,omitempty"`
	T0     uint64  `json:"t0_ms"`
	Rule   ruleT   `json:"rule"`
	Progs  [][]opT `json:"programs"`
	Events []evT   `json:"events"`
}

type callT struct {
	Tid  int   `json:"tid"`
	From int   `json:"from"`
	To   int   `json:"to"`
	Snap snapT `json:"snapshot"`
}

type snapT struct {
	Kind string  `json:"kind"` // none | float | int | other
	F    float64 `json:"f,omitempty"`
	Z    int64   `json:"z,omitempty"`
	Repr string  `json:"repr,omitempty"`
}

// stepT is what the controller sees of one Run event.
type stepT struct {
	Ev    int      `json:"event"`
	Tid   int      `json:"tid"`
	At    int      `json:"at"`    // label the goroutine was parked at
	Label int      `json:"label"` // label it parks at afterwards (-1 = finished)
	StB   int      `json:"state_before"`
	StA   int      `json:"state_after"`
	Clk   uint64   `json:"clock_ms"`
	Op    int      `json:"op"` // index of the operation the goroutine was executing
	Calls []callT  `json:"listener_calls,omitempty"`
	Res   []bool   `json:"results,omitempty"` // TryPass results that became known in this step
}

type obsT struct {
	Steps   []stepT  `json:"steps"`
	Results [][]bool `json:"results"` // per goroutine, at the end of the schedule
	Calls   []callT  `json:"listener_log"`
	Done    []bool   `json:"done"`
}

// ---- plumbing around the implementation -----------------------------------------------------

// laterSlot is a rule-check slot ordered after the circuit-breaker slot; it rejects the request
// iff the entry's first argument is `true`.
type laterSlot struct{}

func (*laterSlot) Order() uint32 { return 6000 }

func (*laterSlot) Check(ctx *base.EntryContext) *base.TokenResult {
	result := ctx.RuleCheckResult
	if ctx.Input == nil || len(ctx.Input.Args) == 0 {
		return result
	}
	if b, ok := ctx.Input.Args[0].(bool); !ok || !b {
		return result
	}
	if result == nil {
		result = base.NewTokenResultBlockedWithMessage(base.BlockTypeUnknown, "later")
	} else {
		result.ResetToBlockedWithMessage(base.BlockTypeUnknown, "later")
	}
	return result
}

func stateOf(s circuitbreaker.State) int {
	switch s {
	case circuitbreaker.Closed:
		return stClosed
	case circuitbreaker.HalfOpen:
		return stHalfOpen
	case circuitbreaker.Open:
		return stOpen
	}
	return -1
}

// runCtx is the run the listener currently attributes calls to. Exactly one managed goroutine
// runs at a time, so curTid identifies the caller.
type runCtx struct {
	res    string
	curTid int
	calls  []callT
}

var cur *runCtx

type listener struct{}

func (listener) note(rule circuitbreaker.Rule, from circuitbreaker.State, to int, s snapT) {
	if st := stress; st != nil {
		if f := stateOf(from); rule.Resource == st.res && f >= 0 {
			atomic.AddInt64(&st.cnt[f][to], 1)
		}
		return
	}
	if cur == nil || rule.Resource != cur.res {
		return
	}
	cur.calls = append(cur.calls, callT{Tid: cur.curTid, From: stateOf(from), To: to, Snap: s})
}

func (l listener) OnTransformToClosed(prev circuitbreaker.State, rule circuitbreaker.Rule) {
	l.note(rule, prev, stClosed, snapT{Kind: "none"})
}

func (l listener) OnTransformToOpen(prev circuitbreaker.State, rule circuitbreaker.Rule, snapshot interface{}) {
	var s snapT
	switch v := snapshot.(type) {
	case float64:
		s = snapT{Kind: "float", F: v, Repr: strconv.FormatFloat(v, 'g', -1, 64)}
	case uint64:
		s = snapT{Kind: "int", Z: int64(v)}
	case int:
		s = snapT{Kind: "int", Z: int64(v)}
	default:
		s = snapT{Kind: "other", Repr: fmt.Sprintf("%T", snapshot)}
	}
	l.note(rule, prev, stOpen, s)
}

func (l listener) OnTransformToHalfOpen(prev circuitbreaker.State, rule circuitbreaker.Rule) {
	l.note(rule, prev, stHalfOpen, snapT{Kind: "none"})
}

func toRule(res string, ru ruleT) *circuitbreaker.Rule {
	var s circuitbreaker.Strategy
	switch ru.Strategy {
	case sSlow:
		s = circuitbreaker.SlowRequestRatio
	case sErrRatio:
		s = circuitbreaker.ErrorRatio
	default:
		s = circuitbreaker.ErrorCount
	}
	return &circuitbreaker.Rule{
		Id: "0", Resource: res, Strategy: s,
		RetryTimeoutMs: ru.RetryMs, MinRequestAmount: ru.MinAmount,
		StatIntervalMs: ru.IntervalMs, StatSlidingWindowBucketCount: ru.BucketCount,
		MaxAllowedRtMs: ru.MaxRtMs, Threshold: ru.Threshold, ProbeNum: ru.ProbeNum,
	}
}

// active yield points: the breaker's state word, deadline and probe counter, the listener
// calls, and the harness's own operation boundary (300). The counter yields (310-313,
// 315-317) and those of core/stat/base are left inactive: the counter phase is one step.
func activeYield(id int) bool {
	return id == 300 || (id >= 301 && id <= 307) || id == 314
}

// ctl wraps the scheduler's controller: while the controlling goroutine itself reads the state
// word (every managed goroutine is parked then) the yield returns at once, which spares the
// scheduler's goroutine-identity lookup (a stack walk).
type ctl struct {
	inner  vhook.Controller
	direct bool
}

func (c *ctl) OnYield(id int) {
	if c.direct {
		return
	}
	c.inner.OnYield(id)
}

type held struct {
	e     *base.SentinelEntry
	start uint64
}

// view is what an online schedule policy may look at.
type view struct {
	n       int
	done    func(i int) bool
	at      func(i int) int
	state   int
	clk     uint64
	steps   []stepT
	lastRun int
}

// policy returns the next event, or ok=false to stop.
type policy func(v *view) (evT, bool)

type harness struct {
	clk   *vclock.Clock
	chain *base.SlotChain
}

func resName(id int) string { return "c12-" + strconv.Itoa(id) }

// run executes a case on the implementation. If pol is nil the case's Events are executed,
// otherwise events are drawn from pol and recorded in c.Events. The programs' Rt/Direct fields
// are filled in.
func (h *harness) run(c *caseT, pol policy) obsT {
	res := resName(c.ID)
	h.clk.SetMs(c.T0)
	if _, err := circuitbreaker.LoadRulesOfResource(res, []*circuitbreaker.Rule{toRule(res, c.Rule)}); err != nil {
		panic(fmt.Sprintf("case %d: LoadRulesOfResource: %v", c.ID, err))
	}
	ctrls := circuitbreaker.VerifRuleControllers(res)
	if len(ctrls) != 1 {
		panic(fmt.Sprintf("case %d: %d breakers in force, want 1", c.ID, len(ctrls)))
	}
	cb := ctrls[0].Ctrl.(circuitbreaker.CircuitBreaker)
	rc := &runCtx{res: res, curTid: -1}
	cur = rc
	s := sched.New(activeYield)
	wrap := &ctl{inner: s}
	vhook.SetController(wrap)
	state := func() int {
		wrap.direct = true
		x := stateOf(cb.CurrentState())
		wrap.direct = false
		return x
	}
	n := len(c.Progs)
	results := make([][]bool, n)
	helds := make([][]held, n)
	for i := 0; i < n; i++ {
		i := i
		prog := c.Progs[i]
		s.Spawn(func() {
			for k := range prog {
				if k > 0 {
					vhook.Yield(300)
				}
				op := &prog[k]
				switch op.Kind {
				case "try":
					start := util.CurrentTimeMillis()
					e, b := sentinel.Entry(res, sentinel.WithSlotChain(h.chain), sentinel.WithArgs(op.Blocked))
					if b == nil {
						helds[i] = append(helds[i], held{e, start})
						results[i] = append(results[i], true)
					} else {
						// TryPass returned false iff the block is the circuit breaker's
						results[i] = append(results[i], b.BlockType() != base.BlockTypeCircuitBreaking)
					}
				default:
					if op.ViaExit && len(helds[i]) > 0 {
						hd := helds[i][0]
						helds[i] = helds[i][1:]
						op.Rt = util.CurrentTimeMillis() - hd.start
						op.Direct = false
						if op.Err {
							sentinel.TraceError(hd.e, errors.New("e"))
						}
						hd.e.Exit()
					} else {
						op.Direct = true
						var err error
						if op.Err {
							err = errors.New("e")
						}
						cb.OnRequestComplete(op.Rt, err)
					}
				}
			}
		})
	}
	var o obsT
	opIdx := make([]int, n)
	nres := make([]int, n)
	v := &view{n: n, done: s.IsDone, at: s.At, lastRun: -1}
	for i := 0; i < n; i++ {
		if len(c.Progs[i]) == 0 {
			s.Step(i) // finishes immediately; not part of the schedule
		}
	}
	online := pol != nil
	if online {
		c.Events = nil
	}
	for ei := 0; ; ei++ {
		var e evT
		if online {
			v.state = state()
			v.clk = h.clk.CurrentTimeMillis()
			v.steps = o.Steps
			var ok bool
			if e, ok = pol(v); !ok {
				break
			}
			c.Events = append(c.Events, e)
		} else {
			if ei >= len(c.Events) {
				break
			}
			e = c.Events[ei]
		}
		if e.Kind == "tick" {
			h.clk.AddMs(e.Dt)
			continue
		}
		st := stepT{Ev: ei, Tid: e.Tid, At: s.At(e.Tid), StB: state(), Clk: h.clk.CurrentTimeMillis(), Op: opIdx[e.Tid]}
		if s.IsDone(e.Tid) {
			st.At = sched.Done
		}
		if st.At == sched.Start {
			st.At = 300 // parked in front of the first operation
		}
		rc.curTid = e.Tid
		ncalls := len(rc.calls)
		l := s.Step(e.Tid)
		rc.curTid = -1
		if l == -2 {
			panic(fmt.Sprintf("case %d: goroutine %d blocked outside a yield point", c.ID, e.Tid))
		}
		if p := s.Panic(e.Tid); p != nil {
			panic(fmt.Sprintf("case %d: goroutine %d panicked: %v", c.ID, e.Tid, p))
		}
		st.Label = l
		st.StA = state()
		st.Calls = append([]callT(nil), rc.calls[ncalls:]...)
		st.Res = append([]bool(nil), results[e.Tid][nres[e.Tid]:]...)
		nres[e.Tid] = len(results[e.Tid])
		if l == 300 {
			opIdx[e.Tid]++
		}
		o.Steps = append(o.Steps, st)
		v.lastRun = e.Tid
	}
	// the observations of the case are cut here
	for i := 0; i < n; i++ {
		o.Results = append(o.Results, append([]bool{}, results[i]...))
		o.Done = append(o.Done, s.IsDone(i))
	}
	o.Calls = append([]callT{}, rc.calls...)
	// clean-up: let every goroutine finish, exit the entries still held, drop the rule
	cur = nil
	for i := 0; i < n; i++ {
		s.Finish(i)
		if p := s.Panic(i); p != nil {
			panic(fmt.Sprintf("case %d: goroutine %d panicked: %v", c.ID, i, p))
		}
	}
	s.Close()
	for i := range helds {
		for _, hd := range helds[i] {
			hd.e.Exit()
		}
	}
	if err := circuitbreaker.ClearRulesOfResource(res); err != nil {
		panic(err)
	}
	return o
}
