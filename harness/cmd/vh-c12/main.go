//go:build verif

// vh-c12: correspondence + monitor harness for property C12 (circuit breaker transitions under
// concurrency). One case = one resource with one circuit-breaking rule, 2-4 goroutines each
// performing a short program of requests (sentinel.Entry; optionally rejected by a later slot)
// and completions (SentinelEntry.Exit of an entry the goroutine holds, or OnRequestComplete on
// the breaker obtained through circuitbreaker.VerifRuleControllers), and a schedule of single
// steps and clock ticks executed by the deterministic scheduler: a goroutine is parked at the
// yield point in front of every atomic access to the breaker's state word (301 load, 302 CAS),
// retry deadline (303 load, 304 store) and probe counter (305 add, 306 reset, 314 load), in
// front of the listener calls (307), and between operations (300, the harness's own).
//
// Case ids: 0..2 recorded witnesses of the known findings; 10000000*(si+1)+k the k-th schedule of
// scenario si of gen.go, enumerated exhaustively (stateless DFS, optionally pre-emption bounded);
// 1000000000+k random programs with online random schedules.
package main

import (
	"encoding/json"
	"fmt"
	"os"
	"runtime"
	"strconv"

	sentinel "github.com/alibaba/sentinel-golang/api"
	"github.com/alibaba/sentinel-golang/core/circuitbreaker"
	"github.com/alibaba/sentinel-golang/core/stat"

	"vh/internal/cli"
	"vh/internal/emit"
	"vh/internal/env"
	"vh/internal/rng"
	"vh/internal/vclock"
)

const (
	exploreBase = 10000000   // scenario si: ids exploreBase*(si+1) ...
	randomBase  = 1000000000 // random cases
)

func coqSnap(s snapT) string {
	switch s.Kind {
	case "none":
		return "None"
	case "float":
		return "(Some (SF " + emit.F(s.F) + "))"
	case "int":
		return "(Some (SZ " + emit.Z(s.Z) + "))"
	}
	return "(Some (SZ (-1)))"
}

func coqState(s int) string {
	if s < 0 || s >= len(stateCoq) {
		return "Closed"
	}
	return stateCoq[s]
}

func coqCase(c caseT, o obsT) string {
	ru := c.Rule
	cfg := fmt.Sprintf("(rule_cfg %s %s %d %d %d %d %d %d)", stratCoq[ru.Strategy], emit.F(ru.Threshold),
		ru.MinAmount, ru.RetryMs, ru.ProbeNum, ru.MaxRtMs, ru.IntervalMs, ru.BucketCount)
	var progs, evs, obs, results, calls []string
	for _, p := range c.Progs {
		var ops []string
		for _, op := range p {
			if op.Kind == "try" {
				ops = append(ops, "OTry "+emit.B(op.Blocked))
			} else {
				ops = append(ops, fmt.Sprintf("OComplete %d %s", op.Rt, emit.B(op.Err)))
			}
		}
		progs = append(progs, emit.List(ops))
	}
	for _, e := range c.Events {
		if e.Kind == "tick" {
			evs = append(evs, "Tick "+emit.U(e.Dt))
		} else {
			evs = append(evs, fmt.Sprintf("Run %d", e.Tid))
		}
	}
	for _, s := range o.Steps {
		obs = append(obs, emit.Tuple(emit.Z(int64(s.Label)), coqState(s.StA)))
	}
	for _, r := range o.Results {
		var bs []string
		for _, b := range r {
			bs = append(bs, emit.B(b))
		}
		results = append(results, emit.List(bs))
	}
	for _, k := range o.Calls {
		calls = append(calls, fmt.Sprintf("LCall %d (TEv %s %s %s)", k.Tid, coqState(k.From), coqState(k.To), coqSnap(k.Snap)))
	}
	return fmt.Sprintf("Conc %d %s %d %s %s %s %s %s", c.ID, cfg, c.T0, emit.List(progs), emit.List(evs), emit.List(obs), emit.List(results), emit.List(calls))
}

type driver struct {
	a    cli.Args
	h    *harness
	rep  *emit.Report
	dist *emit.Distinct
	sh   *emit.Shards
}

func (d *driver) account(c caseT, o obsT, class string, corr bool) {
	rep := d.rep
	rep.Evaluations++
	st := monitor(c, o, rep)
	rep.Count("cases_"+class, 1)
	rep.Count("goroutines_"+strconv.Itoa(len(c.Progs)), 1)
	rep.Count("strategy_"+stratKey[c.Rule.Strategy], 1)
	rep.Count("probe_num_"+strconv.FormatUint(c.Rule.ProbeNum, 10), 1)
	rep.Count("steps", len(o.Steps))
	nt := 0
	for _, e := range c.Events {
		if e.Kind == "tick" {
			nt++
		}
	}
	rep.Count("ticks", nt)
	rep.Count("ticks_inside_an_operation", st.ticksInsideOperation)
	ntr := 0
	for k, n := range st.edges {
		rep.Count(edgeKeys[k], n)
		ntr += n
	}
	rep.Count("cas_lost", st.lostCas)
	rep.Count("requests_admitted", st.admitted)
	rep.Count("requests_rejected", st.rejected)
	rep.Count("finding_F1_stale_deadline_window", st.f1)
	rep.Count("finding_F2_check_and_cas_in_different_phases", st.f2)
	if st.interleaved && ntr > 0 {
		rep.Count("cases_nontrivial", 1)
		b, _ := json.Marshal(c)
		d.dist.Add(string(b))
	}
	if corr && d.sh != nil {
		d.sh.Add(c.ID, coqCase(c, o))
		rep.CorrCases++
		rep.CaseInputs[strconv.Itoa(c.ID)] = c
		if c.ID < nWitness || rep.CorrCases%97 == 0 {
			rep.Sample(map[string]interface{}{"input": c, "observed": o})
		}
	}
	if d.a.Only >= 0 {
		out, _ := json.MarshalIndent(map[string]interface{}{"input": c, "observed": o, "coq": coqCase(c, o)}, "", " ")
		fmt.Println(string(out))
	}
}

// explore enumerates the schedules of scenario sc; ids start at base. visit returns false to stop.
func (d *driver) explore(sc scenario, base, limit int, visit func(c caseT, o obsT, k int) bool) (n int, exhausted bool) {
	var choices []int
	for {
		c := caseT{ID: base + n, Name: sc.Name, T0: t0Of(base + n), Rule: sc.Rule, Progs: copyProgs(sc.Progs)}
		x := &explorer{sc: sc, choices: choices, last: -1}
		o := d.h.run(&c, x.next)
		cont := visit(c, o, n)
		n++
		choices = x.following()
		if choices == nil {
			return n, true
		}
		if !cont || n >= limit {
			return n, false
		}
	}
}

func (d *driver) random(id int) (caseT, obsT) {
	r := rng.New(d.a.Seed).Fork(uint64(id))
	ru := genRule(r)
	c := caseT{ID: id, T0: t0Of(id) + uint64(r.Range(0, 5000)), Rule: ru, Progs: genProgs(r, ru)}
	o := d.h.run(&c, randomPolicy(r, ru))
	return c, o
}

func main() {
	a := cli.Parse()
	// one goroutine runs at a time anyway; a single P makes the hand-over between the controller
	// and a managed goroutine a direct switch instead of a cross-thread wake-up
	runtime.GOMAXPROCS(1)
	env.Init(env.Options{})
	clk := vclock.New(1700000000000)
	clk.Install()
	chain := sentinel.BuildDefaultSlotChain()
	chain.AddRuleCheckSlot(&laterSlot{})
	circuitbreaker.RegisterStateChangeListeners(listener{})
	rep := emit.NewReport("C12", a.Seed, a.Tier)
	d := &driver{a: a, h: &harness{clk: clk, chain: chain}, rep: rep, dist: emit.NewDistinct()}
	thorough := a.Tier == "thorough"

	rep.Rule = "One resource with one circuit-breaking rule and 2-4 goroutines, each with a program of 1-5 operations (request through sentinel.Entry, optionally rejected by a later slot so that the probe's exit hook rolls back; completion through SentinelEntry.Exit of a held entry or OnRequestComplete on the breaker), executed under the deterministic scheduler with one step per atomic access to the state word / retry deadline / probe counter / listener call, interleaved with clock ticks. Three generators: recorded witnesses of the known findings; exhaustive enumeration of all (or all <=k-pre-emption) interleavings, with a tick at every position, of 12 small scenarios around Closed->Open, Open->HalfOpen, HalfOpen->Open, HalfOpen->Closed and the rollback; random programs over all three strategies with online random schedules and ticks around the retry timeout. Non-trivial = some goroutine takes a step while another one is inside an operation AND the state word changes at least once; distinct by full input JSON (programs + schedule)."

	scs := scenarios()
	// ---- replay of one case
	if a.Only >= 0 {
		switch {
		case a.Only < nWitness:
			c := witness(a.Only)
			o := d.h.run(&c, nil)
			d.account(c, o, "witness", false)
		case a.Only >= stressBase:
			d.stressRun(a.Only, 200000)
		case a.Only >= randomBase:
			c, o := d.random(a.Only)
			d.account(c, o, "random", false)
		default:
			si := a.Only/exploreBase - 1
			if si >= 0 && si < len(scs) {
				d.explore(scs[si], exploreBase*(si+1), 1<<30, func(c caseT, o obsT, k int) bool {
					if c.ID == a.Only {
						d.account(c, o, "explored", false)
						return false
					}
					return true
				})
			}
		}
		for _, f := range rep.MonitorFailures {
			fmt.Printf("MONITOR-FAIL clause=%s signature=%s %s\n", f.Clause, f.Signature, f.Detail)
		}
		return
	}

	// ---- sizes
	perScenario := a.Pick(0, 1500, 60000) // explored schedules per scenario
	corrExplored := a.Pick(0, 110, 1500)   // of which go to Coq (spread evenly)
	nRandomCorr := a.Pick(a.N, 130, 1500)
	nRandom := a.Pick(a.Mon, 4000, 120000)
	if a.Search {
		nRandomCorr, corrExplored = 0, 0
		nRandom *= 5
		perScenario *= 3
	}
	if !a.Search {
		var err error
		d.sh, err = emit.NewShards(a.Out, "Corr.Run_C12", a.Shards, "Open Scope Z_scope.\n")
		if err != nil {
			fmt.Fprintln(os.Stderr, err)
			os.Exit(2)
		}
	}
	// ---- witnesses
	for id := 0; id < nWitness; id++ {
		c := witness(id)
		o := d.h.run(&c, nil)
		d.account(c, o, "witness", true)
	}
	// ---- exploration: scenario si occupies the ids exploreBase*(si+1) + k, k = position of the
	// schedule in the depth-first enumeration
	nUsed := 0
	for _, sc := range scs {
		if thorough || sc.Quick {
			nUsed++
		}
	}
	for si, sc := range scs {
		if !(thorough || sc.Quick) {
			continue
		}
		stride := 1
		if corrExplored > 0 {
			per := corrExplored / nUsed
			if per < 1 {
				per = 1
			}
			stride = perScenario / per
			if stride < 1 {
				stride = 1
			}
		}
		n, exhausted := d.explore(sc, exploreBase*(si+1), perScenario, func(c caseT, o obsT, k int) bool {
			d.account(c, o, "explored", !a.Search && k%stride == 0)
			return true
		})
		if exhausted {
			rep.Count("scenarios_exhausted", 1)
			rep.Notes = append(rep.Notes, fmt.Sprintf("scenario %d %q: all %d schedules checked", si, sc.Name, n))
		} else {
			rep.Count("scenarios_cut", 1)
			rep.Notes = append(rep.Notes, fmt.Sprintf("scenario %d %q: the first %d schedules checked", si, sc.Name, n))
		}
	}
	// ---- random
	for k := 0; k < nRandom; k++ {
		c, o := d.random(randomBase + k)
		d.account(c, o, "random", k < nRandomCorr)
		if k%2000 == 1999 {
			stat.ResetResourceNodeMap()
		}
	}
	// ---- parallel runs
	nStress := a.Pick(0, 6000, 100000)
	if a.Search {
		nStress *= 5
	}
	d.stressRun(stressBase, nStress)
	d.stressRun(stressBase+1, nStress)
	rep.DistinctNontrivial = d.dist.N()
	rep.Consts["circuitbreaker.Closed"] = int(circuitbreaker.Closed)
	rep.Consts["circuitbreaker.HalfOpen"] = int(circuitbreaker.HalfOpen)
	rep.Consts["circuitbreaker.Open"] = int(circuitbreaker.Open)
	rep.Consts["circuitbreaker.RuleCheckSlotOrder"] = circuitbreaker.RuleCheckSlotOrder
	rep.Consts["circuitbreaker.StatSlotOrder"] = circuitbreaker.StatSlotOrder
	if d.sh != nil {
		rep.Shards = d.sh.Close()
	}
	if err := os.MkdirAll(a.Out, 0o755); err != nil {
		fmt.Fprintln(os.Stderr, err)
		os.Exit(2)
	}
	if err := rep.Write(a.Out); err != nil {
		fmt.Fprintln(os.Stderr, err)
		os.Exit(2)
	}
}
