//go:build verif

package main

import (
	"errors"
	"fmt"
	"runtime"
	"sync"
	"sync/atomic"

	sentinel "github.com/alibaba/sentinel-golang/api"
	"github.com/alibaba/sentinel-golang/core/base"
	"github.com/alibaba/sentinel-golang/core/circuitbreaker"
)

// Parallel runs (no scheduler): the deterministic scheduler takes for granted that what follows
// a yield point is ONE atomic access - a compare-and-swap rewritten as a load followed by a
// store is invisible to it. Here G goroutines are released together on real threads against one
// breaker, (A) each reporting a failing completion to a closed breaker, (B) each issuing a
// request to an open breaker whose timeout has expired. Whatever the interleaving, a correct
// breaker reports exactly one Closed->Open (A) resp. one Open->HalfOpen and admits exactly one
// request (B), so these runs can never raise an alarm on correct code; how likely they are to
// expose a broken CAS depends on the machine.

const stressBase = 2000000000

type stressT struct {
	res string
	cnt [3][3]int64
}

var stress *stressT

type stressCase struct {
	ID     int    `json:"id"`
	Shape  string `json:"shape"`
	G      int    `json:"goroutines"`
	Trials int    `json:"trials"`
}

func (h *harness) stressTrial(id, trial int, shapeB bool, g int) (detail string) {
	res := "c12s-" + fmt.Sprint(id) + "-" + fmt.Sprint(trial)
	h.clk.SetMs(t0Of(trial))
	ru := baseRule(100, 0)
	if _, err := circuitbreaker.LoadRulesOfResource(res, []*circuitbreaker.Rule{toRule(res, ru)}); err != nil {
		panic(err)
	}
	defer circuitbreaker.ClearRulesOfResource(res)
	cb := circuitbreaker.VerifRuleControllers(res)[0].Ctrl.(circuitbreaker.CircuitBreaker)
	st := &stressT{res: res}
	stress = st
	defer func() { stress = nil }()
	if shapeB {
		cb.OnRequestComplete(0, errors.New("e"))
		h.clk.AddMs(100)
	}
	var ready int32
	var admitted int32
	var wg sync.WaitGroup
	var entries = make([]*base.SentinelEntry, g)
	for i := 0; i < g; i++ {
		i := i
		wg.Add(1)
		go func() {
			defer wg.Done()
			atomic.AddInt32(&ready, 1)
			for atomic.LoadInt32(&ready) < int32(g) {
			}
			if shapeB {
				e, b := sentinel.Entry(res, sentinel.WithSlotChain(h.chain))
				if b == nil {
					atomic.AddInt32(&admitted, 1)
					entries[i] = e
				}
			} else {
				cb.OnRequestComplete(0, errors.New("e"))
			}
		}()
	}
	wg.Wait()
	final := stateOf(cb.CurrentState())
	co := atomic.LoadInt64(&st.cnt[stClosed][stOpen])
	oh := atomic.LoadInt64(&st.cnt[stOpen][stHalfOpen])
	for _, e := range entries {
		if e != nil {
			e.Exit()
		}
	}
	if shapeB {
		if oh != 1 || admitted != 1 || final != stHalfOpen || co != 1 {
			return fmt.Sprintf("%d parallel requests to an open breaker past its timeout: %d admitted, %d Open->HalfOpen reports, %d Closed->Open reports, final state %s (want 1, 1, 1, HalfOpen)", g, admitted, oh, co, stName(final))
		}
	} else if co != 1 || final != stOpen {
		return fmt.Sprintf("%d parallel failing completions on a closed breaker: %d Closed->Open reports, final state %s (want 1, Open)", g, co, stName(final))
	}
	return ""
}

// stressRun performs the trials of stress case id (even: shape A, odd: shape B).
func (d *driver) stressRun(id, trials int) {
	g := 4
	old := runtime.GOMAXPROCS(8)
	defer runtime.GOMAXPROCS(old)
	shapeB := id%2 == 1
	c := stressCase{ID: id, Shape: "A: parallel failing completions on a closed breaker", G: g, Trials: trials}
	if shapeB {
		c.Shape = "B: parallel requests to an open breaker past its timeout"
	}
	d.rep.Evaluations += trials
	d.rep.Count("parallel_trials", trials)
	for k := 0; k < trials; k++ {
		if msg := d.h.stressTrial(id, k, shapeB, g); msg != "" {
			d.rep.Fail(id, "C12_transition_unique", "parallel-run-transition-performed-or-reported-more-than-once", fmt.Sprintf("trial %d: %s", k, msg), c)
			return
		}
	}
}
