//go:build verif

package main

import (
	"vh/internal/rng"
)

// ---- building blocks ---------------------------------------------------------------------------

func try() opT         { return opT{Kind: "try"} }
func tryBlocked() opT  { return opT{Kind: "try", Blocked: true} }
func comp(err bool) opT { return opT{Kind: "complete", Err: err} }
func compExit(err bool) opT {
	return opT{Kind: "complete", Err: err, ViaExit: true}
}

func run(tid int) evT     { return evT{Kind: "run", Tid: tid} }
func tick(dt uint64) evT  { return evT{Kind: "tick", Dt: dt} }
func runN(tid, n int) []evT {
	var e []evT
	for i := 0; i < n; i++ {
		e = append(e, run(tid))
	}
	return e
}
func cat(xs ...[]evT) []evT {
	var e []evT
	for _, x := range xs {
		e = append(e, x...)
	}
	return e
}
func one(e evT) []evT { return []evT{e} }

func copyProgs(p [][]opT) [][]opT {
	out := make([][]opT, len(p))
	for i := range p {
		out[i] = append([]opT(nil), p[i]...)
	}
	return out
}

func t0Of(id int) uint64 { return 1700000000000 + uint64(id%100000)*100000 + uint64(id%977) }

// error-count breaker that opens on the first error
func baseRule(retry uint32, probe uint64) ruleT {
	return ruleT{Strategy: sErrCount, Threshold: 1, MinAmount: 1, RetryMs: retry, ProbeNum: probe, IntervalMs: 1000, BucketCount: 1}
}

// ---- fixed witnesses ----------------------------------------------------------------------------

const (
	idD11     = 0
	idABA     = 1
	idD11Half = 2
	nWitness  = 3
)

// witness(id): the recorded schedules of the two known findings (and the half-open variant of
// the first), always part of a run.
func witness(id int) caseT {
	switch id {
	case idD11:
		// DESIGN section 8, D11. A: completion with an error (opens the breaker). B: a request.
		// A performs Closed->Open and is parked in front of its deadline store; B, at the same
		// clock value, finds the deadline still 0 and probes.
		return caseT{ID: id, Name: "D11-stale-deadline-after-closed-open", T0: t0Of(id), Rule: baseRule(5000, 0),
			Progs:  [][]opT{{comp(true)}, {try()}},
			Events: cat(runN(0, 4), runN(1, 5), runN(0, 2))}
	case idABA:
		// X checks the deadline of the first open phase (expired) and is parked in front of its
		// CAS; Y probes, its probe fails and re-opens the breaker (deadline stored); X's CAS
		// succeeds in the new open phase, 0 ms after it began.
		return caseT{ID: id, Name: "deadline-check-and-cas-in-different-open-phases", T0: t0Of(id), Rule: baseRule(100, 0),
			Progs: [][]opT{{comp(true), try()}, {try(), compExit(true)}},
			Events: cat(runN(0, 6), one(tick(100)), runN(0, 3), runN(1, 5), runN(1, 6), runN(0, 2))}
	default:
		// the same window after HalfOpen->Open: the failed probe's completion is parked between
		// its CAS and the deadline store; the next request reads the first phase's deadline.
		return caseT{ID: id, Name: "D11-stale-deadline-after-halfopen-open", T0: t0Of(id), Rule: baseRule(100, 0),
			Progs: [][]opT{{comp(true), try(), compExit(true)}, {try()}},
			Events: cat(runN(0, 6), one(tick(100)), runN(0, 5), runN(0, 4), runN(1, 5), runN(0, 2))}
	}
}

// ---- exhaustive exploration of small scenarios ------------------------------------------------------

type preT struct {
	Op   int    // >= 0: run this goroutine to the end of its current operation
	Tick uint64 // Op < 0: advance the clock
}

type scenario struct {
	Name     string
	Rule     ruleT
	Progs    [][]opT
	Prefix   []preT
	Ticks    []uint64 // sizes of the ticks that may be inserted at any position
	MaxTicks int
	Preempt  int // bound on pre-emptions (switching away from a goroutine that could continue); < 0: none
	Quick    bool
}

func scenarios() []scenario {
	const T = 100
	opened := []preT{{Op: 0}, {Op: -1, Tick: T}}
	halfOpen := []preT{{Op: 0}, {Op: -1, Tick: T}, {Op: 1}}
	return []scenario{
		{Name: "open/open: two failing completions race for Closed->Open", Rule: baseRule(T, 0),
			Progs: [][]opT{{comp(true)}, {comp(true)}}, Ticks: []uint64{T}, MaxTicks: 1, Preempt: -1, Quick: true},
		{Name: "open/request: a failing completion opens while requests arrive", Rule: baseRule(T, 0),
			Progs: [][]opT{{comp(true)}, {try(), try()}}, Ticks: []uint64{T - 1, T}, MaxTicks: 1, Preempt: -1, Quick: true},
		{Name: "probe/probe: two requests at the deadline", Rule: baseRule(T, 0),
			Progs: [][]opT{{comp(true)}, {try()}, {try()}}, Prefix: opened, Ticks: []uint64{1}, MaxTicks: 1, Preempt: -1, Quick: true},
		{Name: "probe/probe/probe: three requests at the deadline", Rule: baseRule(T, 0),
			Progs: [][]opT{{comp(true)}, {try()}, {try()}, {try()}}, Prefix: opened, Preempt: 3},
		{Name: "close/close/request: two successful completions and a request while half-open", Rule: baseRule(T, 0),
			Progs: [][]opT{{comp(true), comp(false)}, {try(), compExit(false)}, {try()}}, Prefix: halfOpen, Preempt: 2, Quick: true},
		{Name: "reopen/close/request: a failing and a successful completion and requests while half-open", Rule: baseRule(T, 0),
			Progs: [][]opT{{comp(true), comp(true)}, {try(), compExit(false)}, {try(), try()}}, Prefix: halfOpen,
			Ticks: []uint64{T}, MaxTicks: 1, Preempt: 2, Quick: true},
		{Name: "rollback/request/reopen: a probe rejected by a later slot, a request and a failing completion", Rule: baseRule(T, 0),
			Progs: [][]opT{{comp(true), comp(true)}, {tryBlocked()}, {try()}}, Prefix: opened, Preempt: 2, Quick: true},
		{Name: "check/probe/reopen: a request between its deadline check and its CAS while a probe fails", Rule: baseRule(T, 0),
			Progs: [][]opT{{comp(true), try()}, {try(), compExit(true)}}, Prefix: opened, Ticks: []uint64{T}, MaxTicks: 1, Preempt: 3, Quick: true},
		{Name: "probe number 2: completions and requests while half-open", Rule: baseRule(T, 2),
			Progs: [][]opT{{comp(true), comp(false)}, {try(), compExit(false)}, {try(), compExit(true)}}, Prefix: halfOpen, Preempt: 2, Quick: true},
		{Name: "open/open/request: three goroutines around Closed->Open", Rule: baseRule(T, 0),
			Progs: [][]opT{{comp(true)}, {comp(true)}, {try()}}, Ticks: []uint64{T}, MaxTicks: 1, Preempt: 3},
		{Name: "reopen/reopen/request: two failing completions while half-open and a request", Rule: baseRule(T, 0),
			Progs: [][]opT{{comp(true), comp(true)}, {try(), compExit(true)}, {try(), try()}}, Prefix: halfOpen,
			Ticks: []uint64{T - 1, T}, MaxTicks: 1, Preempt: 3},
		{Name: "rollback/rollback-lost: blocked probe against a closing completion", Rule: baseRule(T, 0),
			Progs: [][]opT{{comp(true), comp(false)}, {tryBlocked(), try()}, {try()}}, Prefix: opened, Ticks: []uint64{T}, MaxTicks: 1, Preempt: 3},
	}
}

// explorer enumerates, run after run, the schedules of a scenario (stateless depth-first
// search: a run follows the recorded choices, then always takes the first option).
type explorer struct {
	sc       scenario
	choices  []int // choices to replay
	taken    []int
	counts   []int
	pre      int // position in the prefix
	preSteps int // steps taken for the current prefix entry
	ticks    int
	preempts int
	lastTick bool
	last     int // goroutine of the latest explored run event, -1 = none
}

func (x *explorer) next(v *view) (evT, bool) {
	for x.pre < len(x.sc.Prefix) {
		p := x.sc.Prefix[x.pre]
		if p.Op < 0 {
			x.pre++
			return tick(p.Tick), true
		}
		if v.done(p.Op) || (x.preSteps > 0 && v.at(p.Op) == 300) {
			x.pre++
			x.preSteps = 0
			continue
		}
		x.preSteps++
		return run(p.Op), true
	}
	var opts []evT
	last := x.last
	lastEnabled := last >= 0 && !v.done(last)
	if x.sc.Preempt >= 0 && x.preempts >= x.sc.Preempt && lastEnabled {
		opts = append(opts, run(last))
	} else {
		for i := 0; i < v.n; i++ {
			if !v.done(i) {
				opts = append(opts, run(i))
			}
		}
	}
	if len(opts) == 0 {
		return evT{}, false
	}
	if x.ticks < x.sc.MaxTicks && !x.lastTick {
		for _, d := range x.sc.Ticks {
			opts = append(opts, tick(d))
		}
	}
	k := len(x.taken)
	ch := 0
	if k < len(x.choices) {
		ch = x.choices[k]
	}
	if ch >= len(opts) {
		ch = 0
	}
	x.taken = append(x.taken, ch)
	x.counts = append(x.counts, len(opts))
	e := opts[ch]
	if e.Kind == "tick" {
		x.ticks++
		x.lastTick = true
	} else {
		x.lastTick = false
		if lastEnabled && e.Tid != last {
			x.preempts++
		}
		x.last = e.Tid
	}
	return e, true
}

// following returns the choice vector of the next schedule, nil when the scenario is exhausted.
func (x *explorer) following() []int {
	for k := len(x.taken) - 1; k >= 0; k-- {
		if x.taken[k]+1 < x.counts[k] {
			out := append([]int(nil), x.taken[:k]...)
			return append(out, x.taken[k]+1)
		}
	}
	return nil
}

// ---- random cases ------------------------------------------------------------------------------------

func genRule(r *rng.R) ruleT {
	var ru ruleT
	ru.Strategy = int(r.PickI(sErrCount, sErrCount, sErrRatio, sSlow))
	switch ru.Strategy {
	case sErrCount:
		ru.Threshold = r.PickF(1, 1, 2, 3)
	default:
		ru.Threshold = r.PickF(0, 0.3, 0.5, 0.5, 1)
	}
	ru.MinAmount = uint64(r.PickI(0, 1, 1, 2, 3))
	ru.RetryMs = uint32(r.PickI(1, 5, 100, 100, 5000))
	ru.ProbeNum = uint64(r.PickI(0, 0, 0, 1, 2))
	ru.MaxRtMs = uint64(r.PickI(0, 5, 50))
	ru.IntervalMs = uint32(r.PickI(1000, 1000, 200, 10000, 7))
	ru.BucketCount = uint32(r.PickI(0, 1, 2, 4, 3))
	return ru
}

func genProgs(r *rng.R, ru ruleT) [][]opT {
	n := 2 + r.Intn(2)
	progs := make([][]opT, n)
	errPct := int(r.PickI(50, 70, 90))
	for i := range progs {
		k := 2 + r.Intn(4)
		for j := 0; j < k; j++ {
			if r.Chance(45, 100) {
				progs[i] = append(progs[i], opT{Kind: "try", Blocked: r.Chance(12, 100)})
			} else {
				op := opT{Kind: "complete", Err: r.Chance(errPct, 100), ViaExit: r.Chance(1, 2)}
				op.Rt = uint64(r.PickI(0, 1, int64(ru.MaxRtMs), int64(ru.MaxRtMs)+1, 100))
				progs[i] = append(progs[i], op)
			}
		}
	}
	return progs
}

// randomPolicy draws the schedule online: mostly single steps of a random goroutine (with a
// preference for staying on the same one), clock ticks of sizes around the retry timeout and
// around the time left until the last opening's timeout expires.
func randomPolicy(r *rng.R, ru ruleT) policy {
	T := uint64(ru.RetryMs)
	var openedAt uint64
	haveOpen := false
	seen := 0
	events := 0
	return func(v *view) (evT, bool) {
		for ; seen < len(v.steps); seen++ {
			s := v.steps[seen]
			if s.StB != s.StA && s.StA == stOpen {
				openedAt, haveOpen = s.Clk, true
			}
		}
		var live []int
		for i := 0; i < v.n; i++ {
			if !v.done(i) {
				live = append(live, i)
			}
		}
		if len(live) == 0 || events >= 160 {
			return evT{}, false
		}
		events++
		// a goroutine parked between the deadline store and the state CAS of a transition to Open
		// (either order): let the clock move right there, by about a retry timeout
		for _, i := range live {
			if a := v.at(i); (a == 302 || a == 304) && r.Chance(12, 100) {
				return tick(uint64(r.PickI(1, int64(T), int64(T), int64(T)+1))), true
			}
		}
		if r.Chance(22, 100) {
			var dt uint64
			switch r.Intn(8) {
			case 0:
				dt = 0
			case 1:
				dt = 1
			case 2:
				dt = T
			case 3:
				dt = T + 1
			case 4:
				if T > 0 {
					dt = T - 1
				}
			case 5, 6:
				// up to (or just around) the moment the timeout of the last opening expires
				if haveOpen && openedAt+T > v.clk {
					dt = openedAt + T - v.clk
					switch r.Intn(3) {
					case 0:
						if dt > 0 {
							dt--
						}
					case 1:
						dt++
					}
				} else {
					dt = uint64(r.Range(0, 3))
				}
			default:
				dt = uint64(ru.IntervalMs) / 2
			}
			return tick(dt), true
		}
		if v.lastRun >= 0 && !v.done(v.lastRun) && r.Chance(55, 100) {
			return run(v.lastRun), true
		}
		return run(live[r.Intn(len(live))]), true
	}
}
