//go:build verif

package main

import (
	"fmt"

	"vh/internal/emit"
)

// The monitor states property C12 on the implementation's own trace (the controller's view of
// every step: which yield point the goroutine left, the state word before and after, the
// clock, the listener calls and TryPass results that appeared). It keeps its own ledger and
// does not use the Coq model.
//
//   C12_transition_unique  the state word changes only in a step that starts at the CAS yield
//                          point (302), along a legal edge; every listener call is made by the
//                          goroutine that performed a not-yet-reported change, with that
//                          change's (previous, new) pair, oldest first; when an operation ends
//                          all changes its goroutine performed have been reported.
//   C12_single_probe       a TryPass that returns true either loaded Closed (or HalfOpen with
//                          ProbeNum > 0) at its state load, or performed the Open->HalfOpen
//                          change itself; and the goroutine that performed it is admitted. With
//                          ProbeNum = 0 nothing else is admitted while the breaker is half-open.
//   C12_full_timeout       an Open->HalfOpen change (the admission of the probe) happens at a
//                          clock value >= (clock at which the state word was last seen to go to
//                          Open by a completion) + RetryTimeoutMs: no admission before a full
//                          retry timeout since the breaker was observed Open. Where the deadline
//                          is computed and stored relative to the CAS does not enter the clause;
//                          it only decides whether a violation is one of the two recorded
//                          findings (classified at the end of the trace, when it is known whether
//                          the opener stored its deadline after its CAS, in the same operation).

const (
	// D11: the deadline checked was read after the opening CAS and before the store of the deadline
	// that the opener performs AFTER its CAS in the same operation (or is still on its way to when
	// the trace ends)
	sigF1 = "probe-admitted-on-stale-deadline-between-open-cas-and-deadline-store"
	// the deadline was checked in an earlier open phase than the one in which the CAS succeeded: the
	// breaker went HalfOpen and was re-opened between the check and the CAS
	sigF2 = "probe-cas-succeeds-in-later-open-phase-than-its-deadline-check"
)

var knownSeen = map[string]int{}

type casT struct {
	tid, from, to int
	clk           uint64
	step          int
	op            int // index of the performer's operation
	byComplete    bool
	reported      bool
	storeStep     int // step index of the performer's deadline store (304) after an opening; -1 = not yet
}

type tryInfo struct {
	loadState int // state word before the step that started at 301
	loadStep  int // index of that step
	chkStep   int // step index of the 303 step, -1
	ownCas    int // index into the ledger of the Open->HalfOpen change it performed, -1
}

type caseStats struct {
	edges                [5]int // C->O, O->H, H->O failed probe / threshold, H->O rollback, H->C
	lostCas              int
	f1, f2               int
	interleaved          bool
	admitted, rejected   int
	probeRaceLosers      int
	ticksInsideOperation int
}

var edgeKeys = [5]string{"transition_closed_open", "transition_open_halfopen",
	"transition_halfopen_open_by_completion", "transition_halfopen_open_rollback", "transition_halfopen_closed"}

func edgeOK(a, b int) bool {
	return (a == stClosed && b == stOpen) || (a == stOpen && b == stHalfOpen) ||
		(a == stHalfOpen && b == stOpen) || (a == stHalfOpen && b == stClosed)
}

func stName(s int) string {
	if s < 0 || s >= len(stateCoq) {
		return fmt.Sprintf("state(%d)", s)
	}
	return stateCoq[s]
}

func monitor(c caseT, o obsT, rep *emit.Report) (st caseStats) {
	fail := func(clause, sig, format string, a ...interface{}) {
		// the report keeps at most 200 failures: occurrences of the recorded findings beyond the
		// first few must not crowd out anything else
		if sig == sigF1 || sig == sigF2 {
			knownSeen[sig]++
			if knownSeen[sig] > 4 {
				return
			}
		}
		rep.Fail(c.ID, clause, sig, fmt.Sprintf(format, a...), c)
	}
	T := uint64(c.Rule.RetryMs)
	n := len(c.Progs)
	var ledger []casT
	lastOpening := -1
	type earlyT struct { // an Open->HalfOpen change before the full timeout: classified after the loop
		si, tid, opening, chkStep, loadStep int
		clk                       uint64
	}
	var early []earlyT
	tries := make([]map[int]*tryInfo, n)
	for i := range tries {
		tries[i] = map[int]*tryInfo{}
	}
	getTry := func(tid, op int) *tryInfo {
		t := tries[tid][op]
		if t == nil {
			t = &tryInfo{loadState: -1, chkStep: -1, ownCas: -1}
			tries[tid][op] = t
		}
		return t
	}
	inOp := make([]bool, n) // goroutine is between the first access of an operation and its end
	opKind := func(tid, op int) string {
		if op < len(c.Progs[tid]) {
			return c.Progs[tid][op].Kind
		}
		return ""
	}
	for si, s := range o.Steps {
		if s.At == -1 {
			continue
		}
		kind := opKind(s.Tid, s.Op)
		// interleaving measure
		for j := 0; j < n; j++ {
			if j != s.Tid && inOp[j] {
				st.interleaved = true
			}
		}
		inOp[s.Tid] = s.Label != 300 && s.Label != -1
		// ---- C12_transition_unique: changes of the state word
		if s.StB != s.StA {
			switch {
			case s.At != 302:
				fail("C12_transition_unique", "state-word-changed-outside-cas-step",
					"step %d: goroutine %d left yield %d and the state word went %s->%s", si, s.Tid, s.At, stName(s.StB), stName(s.StA))
			case !edgeOK(s.StB, s.StA):
				fail("C12_transition_unique", "illegal-transition", "step %d: goroutine %d: %s->%s", si, s.Tid, stName(s.StB), stName(s.StA))
			}
			ledger = append(ledger, casT{tid: s.Tid, from: s.StB, to: s.StA, clk: s.Clk, step: si, op: s.Op, byComplete: kind == "complete", storeStep: -1})
			li := len(ledger) - 1
			switch {
			case s.StB == stClosed && s.StA == stOpen:
				st.edges[0]++
			case s.StB == stOpen && s.StA == stHalfOpen:
				st.edges[1]++
			case s.StB == stHalfOpen && s.StA == stOpen && kind == "complete":
				st.edges[2]++
			case s.StB == stHalfOpen && s.StA == stOpen:
				st.edges[3]++
			case s.StB == stHalfOpen && s.StA == stClosed:
				st.edges[4]++
			}
			if s.StB == stOpen && s.StA == stHalfOpen && kind == "try" {
				ti := getTry(s.Tid, s.Op)
				ti.ownCas = li
				// ---- C12_full_timeout
				if lastOpening >= 0 {
					op := ledger[lastOpening]
					if s.Clk < op.clk+T {
						early = append(early, earlyT{si: si, tid: s.Tid, opening: lastOpening, chkStep: ti.chkStep, loadStep: ti.loadStep, clk: s.Clk})
					}
				} else {
					fail("C12_full_timeout", "half-open-without-opening", "step %d: Open->HalfOpen although no completion opened the breaker", si)
				}
			}
			if s.StA == stOpen && kind == "complete" {
				lastOpening = li
			}
		} else if s.At == 302 {
			st.lostCas++
			if kind == "try" && s.StB != stOpen {
				st.probeRaceLosers++
			}
		}
		if s.At == 304 {
			// the deadline store of the goroutine's latest opening
			for k := len(ledger) - 1; k >= 0; k-- {
				if ledger[k].tid == s.Tid && ledger[k].to == stOpen && ledger[k].byComplete {
					if ledger[k].storeStep < 0 && ledger[k].op == s.Op {
						ledger[k].storeStep = si
					}
					break
				}
			}
		}
		if kind == "try" {
			ti := getTry(s.Tid, s.Op)
			if s.At == 301 && ti.loadState < 0 {
				ti.loadState = s.StB
				ti.loadStep = si
			}
			if s.At == 303 {
				ti.chkStep = si
			}
		}
		// ---- C12_transition_unique: listener calls
		for _, call := range s.Calls {
			k := -1
			for j := range ledger {
				if ledger[j].tid == call.Tid && !ledger[j].reported {
					k = j
					break
				}
			}
			switch {
			case call.Tid != s.Tid:
				fail("C12_transition_unique", "listener-call-attributed-to-other-goroutine", "step %d", si)
			case k < 0:
				fail("C12_transition_unique", "listener-call-without-own-unreported-transition",
					"step %d: goroutine %d reported %s->%s but has performed no unreported change of the state word", si, s.Tid, stName(call.From), stName(call.To))
			case ledger[k].from != call.From || ledger[k].to != call.To:
				fail("C12_transition_unique", "listener-call-with-wrong-previous-or-new-state",
					"step %d: goroutine %d reported %s->%s, its oldest unreported change is %s->%s", si, s.Tid, stName(call.From), stName(call.To), stName(ledger[k].from), stName(ledger[k].to))
				ledger[k].reported = true
			default:
				ledger[k].reported = true
			}
		}
		// ---- C12_single_probe: results
		if len(s.Res) > 0 {
			if kind != "try" || len(s.Res) != 1 {
				fail("C12_single_probe", "unexpected-result", "step %d: %d results in a %q operation", si, len(s.Res), kind)
			} else {
				ti := getTry(s.Tid, s.Op)
				if s.Res[0] {
					st.admitted++
					switch {
					case ti.ownCas >= 0:
					case ti.loadState == stClosed:
					case ti.loadState == stHalfOpen && c.Rule.ProbeNum > 0:
					case ti.loadState == stHalfOpen:
						fail("C12_single_probe", "admitted-while-half-open-without-being-the-probe",
							"step %d: goroutine %d operation %d was admitted; it loaded HalfOpen, ProbeNum = 0", si, s.Tid, s.Op)
					default:
						fail("C12_single_probe", "admitted-while-open-without-own-half-open-transition",
							"step %d: goroutine %d operation %d was admitted; it loaded %s and did not perform Open->HalfOpen", si, s.Tid, s.Op, stName(ti.loadState))
					}
				} else {
					st.rejected++
					if ti.ownCas >= 0 {
						fail("C12_single_probe", "half-open-transition-performer-not-admitted",
							"step %d: goroutine %d operation %d performed Open->HalfOpen and was rejected", si, s.Tid, s.Op)
					}
					if ti.loadState == stClosed {
						fail("C12_single_probe", "rejected-although-closed", "step %d: goroutine %d operation %d loaded Closed and was rejected", si, s.Tid, s.Op)
					}
				}
			}
		}
		// ---- end of an operation: everything it changed has been reported
		if s.Label == 300 || s.Label == -1 {
			for j := range ledger {
				if ledger[j].tid == s.Tid && !ledger[j].reported {
					fail("C12_transition_unique", "transition-not-reported-by-its-performer",
						"step %d: goroutine %d ended operation %d; its change %s->%s (step %d) was not reported", si, s.Tid, s.Op, stName(ledger[j].from), stName(ledger[j].to), ledger[j].step)
					ledger[j].reported = true
				}
			}
		}
	}
	// ---- C12_full_timeout: classification of the early probes
	// the opener is still on its way to the deadline store that follows its CAS: since the CAS it
	// has neither left the store's yield point, nor reached the listener calls, nor ended the operation
	storePending := func(op casT) bool {
		for k := op.step + 1; k < len(o.Steps); k++ {
			s := o.Steps[k]
			if s.At == -1 || s.Tid != op.tid {
				continue
			}
			if s.At == 304 || s.At == 307 || s.At == 300 || s.Op != op.op {
				return false
			}
		}
		l := o.Steps[op.step].Label
		for k := op.step + 1; k < len(o.Steps); k++ {
			if s := o.Steps[k]; s.At != -1 && s.Tid == op.tid {
				l = s.Label
			}
		}
		return l == 304 || l == 306
	}
	for _, e := range early {
		op := ledger[e.opening]
		sig := "probe-admitted-before-retry-timeout"
		switch {
		case e.chkStep >= 0 && e.chkStep < op.step:
			// the check belongs to an earlier open phase only if the breaker left Open between the
			// request's load of the state word and the opening
			for _, l := range ledger {
				if l.step > e.loadStep && l.step < op.step && l.to == stHalfOpen {
					sig = sigF2
				}
			}
			if sig == sigF2 {
				st.f2++
			}
		case e.chkStep > op.step && ((op.storeStep >= 0 && e.chkStep < op.storeStep) || (op.storeStep < 0 && storePending(op))):
			sig = sigF1
			st.f1++
		}
		fail("C12_full_timeout", sig,
			"step %d: goroutine %d went Open->HalfOpen (probe admitted) at clock %d; the state word was seen to go to Open at clock %d (step %d, goroutine %d), retry timeout %d ms: %d ms before a full timeout had elapsed (deadline checked at step %d; opener's deadline store after its CAS at step %d)",
			e.si, e.tid, e.clk, op.clk, op.step, op.tid, T, op.clk+T-e.clk, e.chkStep, op.storeStep)
	}
	// ticks while some goroutine is inside an operation
	{
		in := make([]bool, n)
		k := 0
		for ei, e := range c.Events {
			if e.Kind == "tick" {
				for j := 0; j < n; j++ {
					if in[j] && e.Dt > 0 {
						st.ticksInsideOperation++
						break
					}
				}
				continue
			}
			if k < len(o.Steps) && o.Steps[k].Ev == ei {
				in[e.Tid] = o.Steps[k].Label != 300 && o.Steps[k].Label != -1
				k++
			}
		}
	}
	return
}
