//go:build verif

package main

import (
	"bytes"
	_ "embed"
	"encoding/json"
	"fmt"
	"os"
	"os/exec"
	"path/filepath"
	"sort"
	"strings"

	"vh/internal/cli"
	"vh/internal/emit"
)

//go:embed driver_main.go.txt
var driverMain string

//go:embed driver_go.mod.txt
var driverGoMod string

// the entry points the dynamic driver can reach, and whether the framework hands the
// handler's error back to the middleware
var dynAdapters = []struct {
	Sig     string
	Dir     string
	HasErr  bool
	ResPref string
}{
	{"gin/middleware.go:SentinelMiddleware", "gin", false, "g"},
	{"echo/middleware.go:SentinelMiddleware", "echo", true, "e"},
	{"grpc/server.go:NewUnaryServerInterceptor", "grpc", true, "/svc/us"},
	{"grpc/server.go:NewStreamServerInterceptor", "grpc", true, "/svc/ss"},
	{"grpc/client.go:NewUnaryClientInterceptor", "grpc", true, "/svc/uc"},
	{"grpc/client.go:NewStreamClientInterceptor", "grpc", true, "/svc/sc"},
}

type dynCase struct {
	ID       int    `json:"id"`
	Adapter  string `json:"adapter"`
	Blocked  bool   `json:"blocked"`
	Handler  string `json:"handler"`
	Fallback bool   `json:"fallback"`
	Resource string `json:"resource"`
}

type dynObs struct {
	dynCase
	HandlerCalls  int   `json:"handler_calls"`
	FallbackCalls int   `json:"fallback_calls"`
	Rejected      int   `json:"rejected"`
	PanicOut      bool  `json:"panic_out"`
	Pass          int64 `json:"pass"`
	Block         int64 `json:"block"`
	Complete      int64 `json:"complete"`
	Error         int64 `json:"error"`
	Gauge         int32 `json:"gauge"`
	NodeMissing   bool  `json:"node_missing"`
}

func goEnv() []string {
	env := os.Environ()
	return append(env, "GOFLAGS=-mod=mod", "GOPROXY=off", "GOSUMDB=off", "GOTOOLCHAIN=local", "CGO_ENABLED=0")
}

// prepareDriver writes the driver module: main.go, go.mod bound to the tree under test,
// go.sum assembled from the tree's own go.sum files, and verbatim copies of the adapter
// packages (the adapter modules pin the released sentinel-golang v1.0.2; copying their
// non-test sources into the driver module compiles them against the working tree instead)
func prepareDriver(dir, repo string) (string, error) {
	if err := os.RemoveAll(filepath.Join(dir, "internal")); err != nil {
		return "", err
	}
	if err := os.MkdirAll(dir, 0o755); err != nil {
		return "", err
	}
	if err := os.WriteFile(filepath.Join(dir, "main.go"), []byte(driverMain), 0o644); err != nil {
		return "", err
	}
	if err := os.WriteFile(filepath.Join(dir, "go.mod"), []byte(strings.ReplaceAll(driverGoMod, "{repo}", repo)), 0o644); err != nil {
		return "", err
	}
	sums := map[string]bool{}
	for _, f := range []string{"go.sum", "pkg/adapters/gin/go.sum", "pkg/adapters/echo/go.sum", "pkg/adapters/grpc/go.sum"} {
		b, err := os.ReadFile(filepath.Join(repo, f))
		if err != nil {
			continue
		}
		for _, l := range strings.Split(string(b), "\n") {
			if strings.TrimSpace(l) != "" {
				sums[l] = true
			}
		}
	}
	var lines []string
	for l := range sums {
		lines = append(lines, l)
	}
	sort.Strings(lines)
	if err := os.WriteFile(filepath.Join(dir, "go.sum"), []byte(strings.Join(lines, "\n")+"\n"), 0o644); err != nil {
		return "", err
	}
	for _, a := range []string{"gin", "echo", "grpc"} {
		dst := filepath.Join(dir, "internal", a+"adapter")
		if err := os.MkdirAll(dst, 0o755); err != nil {
			return "", err
		}
		files, _ := filepath.Glob(filepath.Join(repo, "pkg", "adapters", a, "*.go"))
		for _, f := range files {
			if strings.HasSuffix(f, "_test.go") {
				continue
			}
			b, err := os.ReadFile(f)
			if err != nil {
				return "", err
			}
			if err := os.WriteFile(filepath.Join(dst, filepath.Base(f)), b, 0o644); err != nil {
				return "", err
			}
		}
	}
	bin := filepath.Join(dir, "c19driver")
	cmd := exec.Command("go", "build", "-o", bin, ".")
	cmd.Dir = dir
	cmd.Env = goEnv()
	if out, err := cmd.CombinedOutput(); err != nil {
		return "", fmt.Errorf("%v: %s", err, out)
	}
	return bin, nil
}

func b2n(b bool) int {
	if b {
		return 1
	}
	return 0
}

func dynamicLeg(a cli.Args, repo string, t *transOut, rep *emit.Report, distinct *emit.Distinct) {
	verbose := a.Only >= 0
	bin, err := prepareDriver(filepath.Join(a.Out, "driver"), repo)
	if err != nil {
		msg := err.Error()
		if len(msg) > 1500 {
			msg = msg[len(msg)-1500:]
		}
		rep.Fail(dynBase-1, "dynamic_driver", "dyn:driver-build-failed", "the gin/echo/grpc adapters of the tree under test do not build into the driver: "+msg, nil)
		rep.Notes = append(rep.Notes, "dynamic driver did not build")
		return
	}
	// the IR of a driven adapter: the entry point the translator reports under the same
	// signature (helpers inlined, so extracting parts of the interceptor into functions does
	// not move it); if the declaration moved to another file of the package, the unique entry
	// point of that package with the same function name
	irOf := map[string]*entryPoint{}
	byFunc := map[string][]*entryPoint{}
	for _, ep := range t.EntryPoints {
		irOf[ep.File+":"+ep.Func] = ep
		k := strings.SplitN(ep.File, "/", 2)[0] + ":" + ep.Func
		byFunc[k] = append(byFunc[k], ep)
	}
	for _, ad := range dynAdapters {
		if _, ok := irOf[ad.Sig]; !ok {
			fn := ad.Sig[strings.LastIndex(ad.Sig, ":")+1:]
			if l := byFunc[ad.Dir+":"+fn]; len(l) == 1 {
				irOf[ad.Sig] = l[0]
				continue
			}
			// the constructor hands out a function of the package as a value (method value,
			// named function): the unique entry point that names the constructor in `via`
			var l []*entryPoint
			for _, ep := range t.EntryPoints {
				if strings.SplitN(ep.File, "/", 2)[0] != ad.Dir {
					continue
				}
				for _, v := range ep.Via {
					if v == fn {
						l = append(l, ep)
					}
				}
			}
			if len(l) == 1 {
				irOf[ad.Sig] = l[0]
			}
		}
	}
	var cases []dynCase
	id := dynBase
	for _, ad := range dynAdapters {
		for _, blocked := range []bool{false, true} {
			for _, h := range []string{"ok", "err", "panic"} {
				for _, fb := range []bool{false, true} {
					c := dynCase{ID: id, Adapter: ad.Sig, Blocked: blocked, Handler: h, Fallback: fb,
						Resource: fmt.Sprintf("%s%d", ad.ResPref, id)}
					id++
					if a.Only >= 0 && a.Only != c.ID {
						continue
					}
					cases = append(cases, c)
				}
			}
		}
	}
	if len(cases) == 0 {
		return
	}
	in, _ := json.Marshal(cases)
	cmd := exec.Command(bin)
	cmd.Stdin = bytes.NewReader(in)
	cmd.Env = goEnv()
	var stderr bytes.Buffer
	cmd.Stderr = &stderr
	out, err := cmd.Output()
	var obs []dynObs
	if err == nil {
		err = json.Unmarshal(out, &obs)
	}
	if err != nil || len(obs) != len(cases) {
		rep.Fail(dynBase-1, "dynamic_driver", "dyn:driver-run-failed", fmt.Sprintf("driver failed: %v: %s", err, stderr.String()), nil)
		return
	}

	var sh *emit.Shards
	if !a.Search && a.Only < 0 {
		sh, err = emit.NewShards(a.Out, "Corr.Run_C19", 1, "Local Open Scope nat_scope.\n")
		if err != nil {
			fmt.Fprintln(os.Stderr, err)
			os.Exit(2)
		}
	}
	hasErr := map[string]bool{}
	for _, ad := range dynAdapters {
		hasErr[ad.Sig] = ad.HasErr
	}
	for i, o := range obs {
		c := cases[i]
		rep.Evaluations++
		rep.Count("dynamic/cases", 1)
		rep.Count("dynamic/"+strings.SplitN(c.Adapter, "/", 2)[0], 1)
		rep.Count(fmt.Sprintf("dynamic/blocked=%v", c.Blocked), 1)
		rep.Count("dynamic/handler="+c.Handler, 1)
		rep.Count(fmt.Sprintf("dynamic/fallback=%v", c.Fallback), 1)
		if o.Pass+o.Block > 0 || o.Rejected > 0 {
			distinct.Add(fmt.Sprintf("dyn|%s|%v|%s|%v", c.Adapter, c.Blocked, c.Handler, c.Fallback))
		}
		if verbose {
			js, _ := json.Marshal(o)
			fmt.Printf("dynamic case %d: %s\n", c.ID, js)
		}
		fail := func(clause, detail string) {
			sig := "dyn:" + c.Adapter + ":" + clause
			rep.Fail(c.ID, clause, sig, fmt.Sprintf("%s blocked=%v handler=%s fallback=%v: %s (observed %+v)", c.Adapter, c.Blocked, c.Handler, c.Fallback, detail, o), o)
			if verbose {
				fmt.Printf("MONITOR-FAIL clause=%s signature=%s %s\n", clause, sig, detail)
			}
		}
		// the property, stated on what was observed
		if o.NodeMissing {
			fail("entry_first", "no statistic node for the resource: Entry was never requested")
			continue
		}
		if (o.Block == 1) != c.Blocked || o.Pass+o.Block != 1 {
			fail("entry_first", fmt.Sprintf("expected exactly one Entry (%s), node recorded pass=%d block=%d", map[bool]string{true: "blocked", false: "admitted"}[c.Blocked], o.Pass, o.Block))
		}
		if c.Blocked {
			if o.HandlerCalls != 0 {
				fail("blocked_no_handler", "handler invoked although the request was blocked")
			}
			if o.FallbackCalls+o.Rejected != 1 || (c.Fallback && o.FallbackCalls != 1) {
				fail("reject_iff_blocked", "blocked request did not produce exactly the configured fallback / the default rejection")
			}
			if o.Complete != 0 {
				fail("exit_once", "a blocked request recorded a completion")
			}
		} else {
			if o.HandlerCalls != 1 {
				fail("handler_once", fmt.Sprintf("handler invoked %d times", o.HandlerCalls))
			}
			if o.FallbackCalls+o.Rejected != 0 {
				fail("reject_iff_blocked", "admitted request was rejected")
			}
			if o.Complete != 1 {
				fail("exit_once", fmt.Sprintf("admitted request recorded %d completions", o.Complete))
			}
			if c.Handler == "err" && hasErr[c.Adapter] && o.Error != 1 {
				fail("err_traced", "the handler's error was not recorded on the entry")
			}
		}
		if o.Gauge != 0 {
			fail("exit_once", fmt.Sprintf("in-flight gauge is %d after the request", o.Gauge))
		}
		if o.PanicOut != (!c.Blocked && c.Handler == "panic") {
			fail("no_spurious_panic", fmt.Sprintf("panic_out=%v", o.PanicOut))
		}

		// correspondence case: the same observation against the model's trace of the regenerated IR
		ep, ok := irOf[c.Adapter]
		if sh != nil && ok {
			h := map[string]string{"ok": "HOk", "err": "HErr", "panic": "HPanic"}[c.Handler]
			flags := make([]string, len(ep.Flags))
			for k := range flags {
				flags[k] = "false"
			}
			term := fmt.Sprintf("Dyn (%d)%%Z %s\n  %s\n  (mkEnv %s %s %s %s) (mkObs %d %d %d %d %d %d %s)",
				c.ID, emit.Str(c.Adapter), ep.Coq, emit.B(c.Blocked), h, emit.B(c.Fallback), emit.List(flags),
				o.Pass+o.Block, o.HandlerCalls, o.FallbackCalls, o.Rejected, o.Complete, o.Error, emit.B(o.PanicOut))
			sh.Add(0, term)
			rep.CorrCases++
			rep.CaseInputs[fmt.Sprint(c.ID)] = c
		} else if sh != nil {
			rep.Notes = append(rep.Notes, "no IR for "+c.Adapter+" (entry point renamed?)")
		}
		if i < 2 {
			rep.Sample(o)
		}
	}
	if sh != nil {
		rep.Shards = sh.Close()
	}
}
