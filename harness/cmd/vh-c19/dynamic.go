//go:build verif

package main

import (
	"vh/internal/cli"
	"vh/internal/emit"
)

func dynamicLeg(a cli.Args, repo string, t *transOut, rep *emit.Report, distinct *emit.Distinct) {
}
