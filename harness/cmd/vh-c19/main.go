//go:build verif

// vh-c19: harness for property C19 (framework adapters honour the entry contract).
//
// Static leg (monitor): runs translator/adapterir -json on the tree under test and evaluates
// the entry contract on every (entry point, environment) with an interpreter written
// independently of the Coq model (real Go defer/panic/recover and a real nil pointer for the
// nil entry).  Every violating (entry point, clause) is reported as a monitor failure with
// signature "file:function:clause"; ./check turns listed ones into KNOWN-FINDING lines and
// unlisted ones into a VIOLATION.
//
// Dynamic leg (correspondence + monitor): generates a small driver module under
// {out}/driver that binds the gin / echo / grpc adapter modules to the tree under test,
// drives them with succeeding / failing / panicking handlers, blocked and admitted requests,
// with and without a configured fallback, observes handler-call counts, fallback calls,
// default rejections, escaping panics, the in-flight gauge and the error counter of the
// resource node, checks the contract on those observations (monitor) and emits them as Coq
// cases that are compared with the model's trace of the regenerated IR (correspondence).
package main

import (
	"encoding/json"
	"fmt"
	"os"
	"os/exec"
	"path/filepath"
	"sort"
	"strings"

	"vh/internal/cli"
	"vh/internal/emit"
)

// ------------------------------------------------------------------ translator output

type node struct {
	Op   string `json:"op"`
	E    int    `json:"e"`
	Err  int    `json:"err"`
	V    int    `json:"v"`
	K    int    `json:"k"`
	Ign  bool   `json:"ignored"`
	Mand bool   `json:"mandatory"`
	Mode string `json:"mode"`
	A    *node  `json:"a"`
	B    *node  `json:"b"`
	Src  string `json:"src"`
}

type entryPoint struct {
	File  string   `json:"file"`
	Func  string   `json:"func"`
	Line  int      `json:"line"`
	Via   []string `json:"via"` // declarations that use the entry point's function as a value
	FB    bool     `json:"fb_option"`
	Flags []string `json:"flags"`
	IR    *node    `json:"ir"`
	Coq   string   `json:"coq"`
}

type transOut struct {
	Repo          string        `json:"repo"`
	GrepCount     int           `json:"grep_entry_calls"`
	ASTCount      int           `json:"ast_entry_calls"`
	Covered       int           `json:"covered_entry_calls"` // Entry call sites that became an Entry node of an entry point (helpers inlined)
	EntryPoints   []*entryPoint `json:"entry_points"`
	ParseFailures []string      `json:"parse_failures"`
}

// ------------------------------------------------------------------ independent interpreter

type envT struct {
	Blocked  bool   `json:"blocked"`
	Handler  string `json:"handler"` // ok | err | panic
	Fallback bool   `json:"fallback"`
	Flags    []bool `json:"flags"`
}

func (e envT) String() string {
	return fmt.Sprintf("blocked=%v handler=%s fallback=%v flags=%v", e.Blocked, e.Handler, e.Fallback, e.Flags)
}

// a stand-in for *base.SentinelEntry: Exit and Touch dereference the receiver, so a nil
// entry panics exactly where the Go runtime would
type fakeEntry struct{ exits int }

func (e *fakeEntry) Exit(tr *[]string) { e.exits++; *tr = append(*tr, "ExitCall") }
func (e *fakeEntry) Touch()            { e.exits += 0 }

type returned struct{}

type machine struct {
	env     envT
	tr      []string
	entries map[int]*fakeEntry
	errs    map[int]bool
	defers  []func()
	unknown []string
}

func (m *machine) flag(k int) bool { return k < len(m.env.Flags) && m.env.Flags[k] }

// step executes one IR node; `return` and panics travel as Go panics
func (m *machine) step(n *node) {
	switch n.Op {
	case "Entry":
		m.tr = append(m.tr, "EntryCall")
		if m.env.Blocked {
			m.entries[n.E] = nil
		} else {
			m.entries[n.E] = &fakeEntry{}
		}
		if !n.Ign {
			m.errs[n.Err] = m.env.Blocked
		}
	case "IfBlocked":
		if m.errs[n.Err] {
			m.step(n.A)
		} else {
			m.step(n.B)
		}
	case "IfErr":
		if m.errs[n.V] {
			m.step(n.A)
		} else {
			m.step(n.B)
		}
	case "IfFallback":
		if m.env.Fallback {
			m.step(n.A)
		} else {
			m.step(n.B)
		}
	case "IfOpt":
		if m.flag(n.K) {
			m.step(n.A)
		} else {
			m.step(n.B)
		}
	case "Fallback":
		var fb func()
		if n.Mand || m.env.Fallback {
			fb = func() { m.tr = append(m.tr, "FallbackCall") }
		}
		m.callOption(fb)
	case "NilCall":
		m.callOption(nil)
	case "DefaultReject":
		m.tr = append(m.tr, "Rejected")
	case "Return":
		panic(returned{})
	case "DeferExit":
		e := m.entries[n.E] // receiver evaluated at the defer statement
		m.defers = append(m.defers, func() { m.deref(func() { e.Exit(&m.tr) }) })
	case "ExitNow":
		e := m.entries[n.E]
		m.deref(func() { e.Exit(&m.tr) })
	case "Deref":
		e := m.entries[n.E]
		m.deref(func() { e.Touch() })
	case "CallHandler":
		m.tr = append(m.tr, "HandlerCall")
		switch m.env.Handler {
		case "panic":
			panic("handler panic")
		case "err":
			if n.Mode != "none" {
				m.tr = append(m.tr, "HandlerErr")
			}
			if n.Mode == "var" {
				m.errs[n.V] = true
			}
		default:
			if n.Mode == "var" {
				m.errs[n.V] = false
			}
		}
	case "TraceError":
		if m.entries[n.E] != nil && m.errs[n.V] {
			m.tr = append(m.tr, "Traced")
		}
	case "Seq":
		m.step(n.A)
		m.step(n.B)
	case "Other":
	case "Unknown":
		m.unknown = append(m.unknown, n.Src)
	default:
		m.unknown = append(m.unknown, "bad op "+n.Op)
	}
}

// deref runs f; a real nil-pointer panic inside it is recorded as NilDeref and re-raised
func (m *machine) deref(f func()) {
	defer func() {
		if r := recover(); r != nil {
			m.tr = append(m.tr, "NilDeref")
			panic(r)
		}
	}()
	f()
}

func (m *machine) callOption(f func()) {
	defer func() {
		if r := recover(); r != nil {
			m.tr = append(m.tr, "NilDeref")
			panic(r)
		}
	}()
	f() // nil func value: runtime panic
}

func run(ep *entryPoint, env envT) (tr []string, unknown []string) {
	m := &machine{env: env, entries: map[int]*fakeEntry{}, errs: map[int]bool{}}
	func() {
		panicking := false
		defer func() {
			// deferred calls run newest first, also while panicking; a panic inside one
			// replaces the current one and the rest still run
			for i := len(m.defers) - 1; i >= 0; i-- {
				func() {
					defer func() {
						if r := recover(); r != nil {
							panicking = true
						}
					}()
					m.defers[i]()
				}()
			}
			if panicking {
				m.tr = append(m.tr, "PanicOut")
			}
		}()
		defer func() {
			if r := recover(); r != nil {
				if _, ok := r.(returned); !ok {
					panicking = true
				}
			}
		}()
		m.step(ep.IR)
	}()
	return m.tr, m.unknown
}

// ------------------------------------------------------------------ contract on a trace (monitor)

var clauses = []string{"entry_first", "blocked_no_handler", "reject_iff_blocked", "handler_once",
	"exit_once", "exit_after_handler", "err_traced", "no_nil_deref", "no_spurious_panic"}

func count(tr []string, ev string) int {
	c := 0
	for _, x := range tr {
		if x == ev {
			c++
		}
	}
	return c
}

func index(tr []string, ev string) int {
	for i, x := range tr {
		if x == ev {
			return i
		}
	}
	return -1
}

func holds(clause string, env envT, tr []string) bool {
	switch clause {
	case "entry_first":
		i := index(tr, "EntryCall")
		h := index(tr, "HandlerCall")
		return count(tr, "EntryCall") == 1 && (h < 0 || i < h)
	case "blocked_no_handler":
		return !env.Blocked || count(tr, "HandlerCall") == 0
	case "reject_iff_blocked":
		f, r := count(tr, "FallbackCall"), count(tr, "Rejected")
		if !env.Blocked {
			return f == 0 && r == 0
		}
		return f+r == 1 && !(env.Fallback && r > 0)
	case "handler_once":
		return env.Blocked || count(tr, "HandlerCall") == 1
	case "exit_once":
		if env.Blocked {
			return count(tr, "ExitCall") == 0
		}
		return count(tr, "ExitCall") == 1
	case "exit_after_handler":
		last := -1
		for i, x := range tr {
			if x == "HandlerCall" {
				last = i
			}
		}
		x := index(tr, "ExitCall")
		return x < 0 || last < x
	case "err_traced":
		for i, x := range tr {
			if x != "HandlerErr" {
				continue
			}
			ok := false
			for _, y := range tr[i+1:] {
				if y == "Traced" {
					ok = true
					break
				}
				if y == "ExitCall" {
					break
				}
			}
			if !ok {
				return false
			}
		}
		return true
	case "no_nil_deref":
		return count(tr, "NilDeref") == 0
	case "no_spurious_panic":
		return count(tr, "PanicOut") == 0 || (env.Handler == "panic" && !env.Blocked)
	}
	return false
}

// notInlined: the term has a hole where a same-package helper that matters could not be
// inlined by the translator.  What the interpreter computes on such a term says nothing about
// the code: the generated obligation breaks (Unknown), but no clause failure is reported as a
// failing input — only the dynamic run of the real adapter can provide one.
func notInlined(n *node) []string {
	if n == nil {
		return nil
	}
	var out []string
	if n.Op == "Unknown" && strings.HasPrefix(n.Src, "not inlined: ") {
		out = append(out, n.Src)
	}
	return append(append(out, notInlined(n.A)...), notInlined(n.B)...)
}

func allEnvs(nflags int, fbOption bool) []envT {
	var out []envT
	for _, b := range []bool{false, true} {
		for _, h := range []string{"ok", "err", "panic"} {
			for _, f := range []bool{false, true} {
				if f && !fbOption {
					continue // no fallback option exists for this entry point
				}
				for bits := 0; bits < 1<<nflags; bits++ {
					fl := make([]bool, nflags)
					for k := range fl {
						fl[k] = bits>>k&1 == 1
					}
					out = append(out, envT{b, h, f, fl})
				}
			}
		}
	}
	return out
}

// ------------------------------------------------------------------ main

const dynBase = 100000

func translate(repo string) (*transOut, error) {
	exe, _ := os.Executable()
	bin := filepath.Join(filepath.Dir(exe), "adapterir")
	// always rebuilt (the go build cache makes this a no-op when nothing changed): a binary
	// left in a scratch build directory by an earlier run must not outlive a translator change
	{
		// the framework root: VERIF_ROOT, else the nearest ancestor of the binary holding translator/go.mod
		root := os.Getenv("VERIF_ROOT")
		for d := filepath.Dir(exe); root == "" && d != "/" && d != "."; d = filepath.Dir(d) {
			if _, err := os.Stat(filepath.Join(d, "translator", "go.mod")); err == nil {
				root = d
			}
		}
		if err := os.MkdirAll(filepath.Dir(bin), 0o755); err != nil {
			return nil, err
		}
		if _, err := os.Stat(bin); err != nil || root != "" {
			cmd := exec.Command("go", "build", "-o", bin, "./adapterir")
			cmd.Dir = filepath.Join(root, "translator")
			if out, err := cmd.CombinedOutput(); err != nil {
				return nil, fmt.Errorf("cannot build translator: %v: %s", err, out)
			}
		}
	}
	out, err := exec.Command(bin, "-repo", repo, "-json").Output()
	if err != nil {
		return nil, fmt.Errorf("translator failed: %v", err)
	}
	var t transOut
	if err := json.Unmarshal(out, &t); err != nil {
		return nil, err
	}
	return &t, nil
}

func main() {
	a := cli.Parse()
	repo := os.Getenv("VERIF_REPO")
	if repo == "" {
		repo = "/repo"
	}
	rep := emit.NewReport("C19", a.Seed, a.Tier)
	rep.Rule = "distinct (entry point, environment) pairs whose trace contains the Entry call and a handler call, a fallback call or a default rejection (static leg); dynamic cases in which the framework actually reached the adapter (Entry observed on the resource node or a rejection observed)"
	t, err := translate(repo)
	if err != nil {
		fmt.Fprintln(os.Stderr, err)
		os.Exit(2)
	}
	rep.Consts["grep_entry_calls"] = t.GrepCount
	rep.Consts["ast_entry_calls"] = t.ASTCount
	rep.Consts["covered_entry_calls"] = t.Covered
	rep.Consts["entry_points"] = len(t.EntryPoints)

	distinct := emit.NewDistinct()
	verbose := a.Only >= 0

	if t.GrepCount != t.ASTCount || t.Covered != t.GrepCount || len(t.ParseFailures) > 0 {
		rep.Fail(99999, "entry_calls_translated", "translator-missed-entry-call",
			fmt.Sprintf("textual .Entry( count %d, calls in the syntax trees %d, call sites reached from an entry point %d, parse failures %v", t.GrepCount, t.ASTCount, t.Covered, t.ParseFailures), nil)
	}

	for i, ep := range t.EntryPoints {
		sig := ep.File + ":" + ep.Func
		envs := allEnvs(len(ep.Flags), ep.FB)
		rep.Count("static/entry_points", 1)
		rep.Count("static/environments", len(envs))
		firstFail := map[string]bool{}
		unknownSeen := false
		if holes := notInlined(ep.IR); len(holes) > 0 {
			rep.Count("static/entry_points_with_helpers_not_inlined", 1)
			rep.Notes = append(rep.Notes, fmt.Sprintf("%s: helper not inlined by the translator (%s): the term is incomplete, clauses not evaluated on it", sig, strings.Join(holes, " | ")))
			if verbose {
				fmt.Printf("entry point %s: %v\n", sig, holes)
			}
			continue
		}
		for _, env := range envs {
			tr, unk := run(ep, env)
			rep.Evaluations += len(clauses)
			if len(unk) > 0 && !unknownSeen {
				unknownSeen = true
				id := i*16 + 15
				if a.Only < 0 || a.Only == id {
					rep.Fail(id, "unknown_construct", sig+":unknown_construct", "translator could not classify: "+strings.Join(unk, " | "),
						map[string]interface{}{"entry_point": sig, "line": ep.Line, "ir": ep.Coq})
					if verbose {
						fmt.Printf("MONITOR-FAIL clause=unknown_construct signature=%s:unknown_construct %v\n", sig, unk)
					}
				}
			}
			if count(tr, "EntryCall") > 0 && (count(tr, "HandlerCall")+count(tr, "FallbackCall")+count(tr, "Rejected") > 0) {
				distinct.Add(fmt.Sprintf("%s|%v", sig, env))
			}
			for ci, cl := range clauses {
				id := i*16 + ci
				if a.Only >= 0 && a.Only != id {
					continue
				}
				if holds(cl, env, tr) || firstFail[cl] {
					continue
				}
				firstFail[cl] = true
				var flagDesc []string
				for k, d := range ep.Flags {
					flagDesc = append(flagDesc, fmt.Sprintf("%s=%v", d, env.Flags[k]))
				}
				detail := fmt.Sprintf("%s (line %d): clause %s fails in environment {%s}%s: trace %v", sig, ep.Line, cl, env, func() string {
					if len(flagDesc) > 0 {
						return " [" + strings.Join(flagDesc, "; ") + "]"
					}
					return ""
				}(), tr)
				rep.Fail(id, cl, sig+":"+cl, detail, map[string]interface{}{"entry_point": sig, "line": ep.Line, "env": env, "flags": ep.Flags, "trace": tr, "ir": ep.Coq})
				rep.Count("static/failing_pairs", 1)
				if verbose {
					fmt.Printf("entry point %s line %d\nIR %s\nenvironment %s\ntrace %v\nMONITOR-FAIL clause=%s signature=%s:%s %s\n", sig, ep.Line, ep.Coq, env, tr, cl, sig, cl, detail)
				}
			}
		}
		if i < 3 {
			rep.Sample(map[string]interface{}{"entry_point": sig, "line": ep.Line, "ir": ep.Coq, "environments": len(envs)})
		}
	}

	// dynamic leg
	if a.Only < 0 || a.Only >= dynBase {
		dynamicLeg(a, repo, t, rep, distinct)
	}

	rep.DistinctNontrivial = distinct.N()
	rep.Exhaustive = true
	rep.Notes = append(rep.Notes, "static leg: every entry point x every environment (exhaustive); dynamic leg: gin, echo, grpc driven through the real frameworks")
	sort.SliceStable(rep.MonitorFailures, func(i, j int) bool { return rep.MonitorFailures[i].Case < rep.MonitorFailures[j].Case })
	if err := rep.Write(a.Out); err != nil {
		fmt.Fprintln(os.Stderr, err)
		os.Exit(2)
	}
	fmt.Printf("vh-c19: entry_points=%d evaluations=%d monitor_failures=%d corr_cases=%d\n", len(t.EntryPoints), rep.Evaluations, len(rep.MonitorFailures), rep.CorrCases)
}
