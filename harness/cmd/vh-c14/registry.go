//go:build verif

package main

import (
	"fmt"

	"github.com/alibaba/sentinel-golang/core/flow"

	"vh/internal/rulesh"
)

// registry: the generator registry changes between loads.  A flow rule of a user-registered strategy pair
// (6/5, a Direct + Throttling controller through the verif hook: the only stateful controller such a rule
// can have) is loaded while its generator is registered; the generator is then REMOVED or REPLACED by one
// that panics; afterwards the rule is reloaded unchanged (fresh object, fresh ID) together with other rules
// that did change.  The rule is field-for-field identical, so it keeps its controller - and its pacing state -
// whatever the registry says now: the decision traces with and without the registry change + reloads are equal
// and the controller object is the same one.  (hotspot.Equals and circuitbreaker's isEqualsTo are false for a
// strategy that is not built in, so a rule of a user strategy is never "unchanged" for those modules.)
func runRegistry(x *runner, kt *kit[flow.Rule], id int) {
	m := kt.m
	gen := func(suffix string) (c rulesh.Case[flow.Rule], u *flow.Rule, seg1, seg2 []ev, mode string) {
		r := x.root.Fork(uint64(id))
		res := fmt.Sprintf("c14f-%d-%s-1", id, suffix)
		res2 := fmt.Sprintf("c14f-%d-%s-2", id, suffix)
		c = rulesh.Case[flow.Rule]{ID: id, Mod: m.Name, NRes: 2, Res: []string{"", res, res2}}
		u = &flow.Rule{Resource: res, TokenCalculateStrategy: 6, ControlBehavior: 5, Threshold: r.PickF(1, 2, 4),
			StatIntervalInMs: uint32(r.PickI(0, 1000, 2000)), MaxQueueingTimeMs: uint32(r.PickI(0, 0, 300))}
		same, _ := kt.others(r, &flow.Rule{Resource: res, Threshold: 5, StatIntervalInMs: 3000}, res, res2)
		segs := kt.traffic(r, "")
		seg1 = segs[0]
		for _, s := range segs[1:] {
			seg2 = append(seg2, s...)
		}
		mode = "remove"
		if r.Bool() {
			mode = "broken"
		}
		nLoads := 2 + r.Intn(2)
		for k := 0; k < nLoads; k++ {
			o := rulesh.Op[flow.Rule]{Kind: "res", Res: 1}
			if r.Bool() {
				o.Kind, o.Res = "all", 0
			}
			items := []*flow.Rule{u}
			for _, s := range same {
				if r.Bool() {
					items = append(items, s)
				}
			}
			// something in the list changes in every load, so that no load is skipped as identical
			items = append(items, &flow.Rule{Resource: res, Threshold: huge + float64(k), StatIntervalInMs: 3000})
			for i, j := range r.Perm(len(items)) {
				o.Rules = append(o.Rules, cloneID(m, items[j], k, i))
			}
			c.Ops = append(c.Ops, o)
		}
		return
	}
	setGen := func(mode string) {
		switch mode {
		case "work":
			if err := flow.VerifSetThrottlingGenerator(6, 5, func(*flow.Rule) error { return nil }); err != nil {
				panic(err)
			}
		case "broken":
			if err := flow.VerifSetThrottlingGenerator(6, 5, func(*flow.Rule) error { panic("replaced generator called for an unchanged rule") }); err != nil {
				panic(err)
			}
		default:
			flow.RemoveTrafficShapingGenerator(6, 5)
		}
	}
	caseA, uA, s1, s2, _ := gen("RA")
	caseB, uB, _, _, mode := gen("RB")
	input := map[string]interface{}{"id": id, "family": "registry", "module": m.Name, "generator_after_first_load": mode,
		"run_B_loads": rulesh.InputOf(m, caseB), "traffic_after_first_load": s1, "traffic_after_last_load": s2,
		"run_A": "generator registered, first load, all traffic"}
	fail := func(clause, sig, detail string) { x.rep.Fail(id, clause, sig, m.Name+": "+detail, input) }
	run := func(c rulesh.Case[flow.Rule], u *flow.Rule, reload bool) (decs []dec, obs []rulesh.Obs[flow.Rule]) {
		clk.SetMs(metaBaseMs(id))
		clk.TakeSleeps()
		setGen("work")
		req := kt.newRun(c.Res[1], u)
		send := func(seg []ev) {
			for _, e := range seg {
				if f := guardReq(func() { decs = append(decs, req(e)) }); f != "" {
					fail("C14_behaviour_invisible", "request-panicked-in-rule-check", f)
				}
			}
		}
		if !reload {
			c.Ops = c.Ops[:1]
		}
		obs = rulesh.RunHooked2(m, c, false, func(k int) {
			if k == 1 {
				setGen(mode)
			}
		}, func(k int) {
			if k == 0 {
				send(s1)
			}
			if k == len(c.Ops)-1 {
				send(s2)
			}
		})
		setGen("remove")
		return
	}
	decA, obsA := run(caseA, uA, false)
	decB, obsB := run(caseB, uB, true)
	x.rep.Count("flow_registry_cases", 1)
	x.rep.Count("flow_registry_generator_"+mode, 1)
	for _, ob := range append(obsA, obsB...) {
		if ob.Panicked || ob.Err {
			fail("C14_behaviour_invisible", "load-failed", "a load of the scenario panicked or returned an error: "+ob.ErrText)
		}
	}
	for k, ob := range obsB {
		found := false
		for _, e := range ob.Snaps[0].Enf {
			if m.SameNoID(&e.Rule, uB) {
				found = true
			}
		}
		if !found {
			fail("C14_unchanged_keeps_controller", "unchanged-rule-lost-its-controller", fmt.Sprintf("after load %d of run B the unchanged rule of the user-registered strategy pair is not in force any more (generator %s after the first load)", k, mode))
			break
		}
	}
	nt := false
	if len(decA) != len(decB) {
		fail("C14_behaviour_invisible", "reload-changed-decisions-of-unchanged-rule", fmt.Sprintf("%d decisions without reloads, %d with", len(decA), len(decB)))
	} else {
		for i := range decA {
			if decA[i] != decB[i] {
				fail("C14_behaviour_invisible", "reload-changed-decisions-of-unchanged-rule",
					fmt.Sprintf("step %d decided %+v without registry change and reloads, %+v with (generator %s)", i, decA[i], decB[i], mode))
				break
			}
			if decA[i].Out != "pass" || decA[i].Wait > 0 {
				nt = true
			}
		}
	}
	rulesh.MonitorReuse(m, caseB, obsB, x.rep)
	x.finish(id, false, nt, input, map[string]interface{}{"decisions_without": decA, "decisions_with": decB, "run_B": rulesh.ObservedOf(m, caseB, obsB)}, "")
}
