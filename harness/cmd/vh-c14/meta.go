//go:build verif

package main

import (
	"fmt"
	"strconv"

	"vh/internal/rng"
	"vh/internal/rulesh"
)

// ev is one step of a traffic history.
type ev struct {
	Dt   uint64 `json:"dt_ms"`                            // clock advance before the step
	Arg  int    `json:"arg,omitempty"`                    // hotspot: the parameter value
	Err  bool   `json:"err,omitempty"`                    // breaker: the request fails
	Rt   uint64 `json:"rt_ms,omitempty"`                  // breaker: response time (clock advance between entry and exit)
	Hold bool   `json:"hold,omitempty"`                   // hotspot: the entry stays open
	Rel  bool   `json:"release,omitempty"`                // hotspot: no request; the oldest open entry exits
	On2  bool   `json:"on_referenced_resource,omitempty"` // flow: the request goes to the resource the subject rule refers to
}

// dec is one observed decision.
type dec struct {
	Out  string `json:"out"` // pass | block:<type> | release
	Wait int64  `json:"wait_ns,omitempty"`
	By   string `json:"by,omitempty"` // U: triggered by a rule equal to the subject rule; other
}

type statScen[T any] struct {
	Label  string
	Pre    []*T
	Warm   []ev
	Mod    []*T
	Probe  []ev
	Expect []string // expected Out of every probe step
	Reuse  bool     // the modification keeps the statistic parameters
	BaseMs uint64   // clock at the start (bucket aligned)
}

// kit is what a module contributes to the metamorphic and statistic-reuse cases.
type kit[T any] struct {
	m       *rulesh.Mod[T]
	tag     string
	subject func(r *rng.R, res string) (*T, string)
	others  func(r *rng.R, u *T, res, res2 string) (same []*T, other []*T) // permissive rules on res / rules on res2
	traffic func(r *rng.R, kind string) [][]ev
	newRun  func(res string, u *T) func(e ev) dec // returns the request function of one run; call with Rel to drain
	drain   func()
	dupSafe func(u *T) bool
	stat    func(r *rng.R, res string) statScen[T]
	// genRule: a valid rule of a strategy no built-in generator serves; the harness registers a
	// generator for it (once per process) that runs genAct when it is called and yields no controller
	genRule func(res string) *T
	// refLoads: the subject rule reads the statistics of the second resource (an associated-resource rule):
	// the reloads then also load / clear the rules of THAT resource through the per-resource path
	refLoads func(u *T) bool
}

type metaScen[T any] struct {
	Kind     string
	U        *T
	Case     rulesh.Case[T]
	SegAfter [][]ev // traffic after operation k (run B); run A sends all of it after operation 0
	FirstSeg int    // number of steps before the first reload position
	// InGenOf[k] = s >= 1: operation k is the first load of the burst before segment s and the first
	// requests of that segment are issued from inside the generator called by that load
	InGenOf map[int]int
	Segs    [][]ev
	SegIdx  []int       // SegAfter[k] = Segs[SegIdx[k]] (-1: none)
	JRand   map[int]int // fallback number of in-generator requests
}

func cloneID[T any](m *rulesh.Mod[T], t *T, k, j int) *T {
	c := m.Clone(t)
	m.SetID(c, strconv.Itoa(k*100+j+1))
	return c
}

// genMeta draws a scenario; with the same generator state and another suffix it yields the same
// scenario on other resource names.
func genMeta[T any](kt *kit[T], r *rng.R, id int, suffix string) metaScen[T] {
	m := kt.m
	res := fmt.Sprintf("%s-%d-%s-1", kt.tag, id, suffix)
	res2 := fmt.Sprintf("%s-%d-%s-2", kt.tag, id, suffix)
	var sc metaScen[T]
	sc.Case = rulesh.Case[T]{ID: id, Mod: m.Name, NRes: 2, Res: []string{"", res, res2}}
	u, kind := kt.subject(r, res)
	sc.U, sc.Kind = u, kind
	same, other := kt.others(r, u, res, res2)
	segs := kt.traffic(r, kind)
	mkList := func(k int, final bool, whole bool) []*T {
		var items []*T
		nU := 1
		if (!final || kt.dupSafe(u)) && r.Chance(1, 3) {
			nU = 2 + r.Intn(2)
		}
		for i := 0; i < nU; i++ {
			items = append(items, u)
		}
		for _, o := range same {
			if r.Chance(1, 2) {
				items = append(items, o)
			}
		}
		if whole {
			for _, o := range other {
				if r.Chance(1, 2) {
					items = append(items, o)
				}
			}
		}
		if r.Chance(1, 6) {
			items = append(items, nil)
		}
		p := r.Perm(len(items))
		out := make([]*T, len(items))
		for i, j := range p {
			if items[j] != nil {
				out[i] = cloneID(m, items[j], k, i)
			}
		}
		return out
	}
	add := func(final bool, gen string) (genApplied bool) {
		k := len(sc.Case.Ops)
		refKind := kt.refLoads != nil && kt.refLoads(u)
		if k > 0 && refKind && r.Chance(1, 2) {
			// the rules of the REFERENCED resource are loaded (a random part of its permissive rules) or
			// cleared (empty list) through the per-resource path; the subject rule is not in the load at all
			o := rulesh.Op[T]{Kind: "res", Res: 2}
			if r.Chance(1, 2) {
				for i, t := range other {
					if r.Bool() {
						o.Rules = append(o.Rules, cloneID(m, t, k, i))
					}
				}
			}
			sc.Case.Ops = append(sc.Case.Ops, o)
			return false
		}
		whole := r.Chance(1, 2)
		if k == 0 && refKind {
			whole = true // the referenced resource starts with rules of its own (there is something to clear)
		}
		o := rulesh.Op[T]{Kind: "res", Res: 1}
		if whole {
			o = rulesh.Op[T]{Kind: "all"}
		}
		o.Rules = mkList(k, final, whole)
		if k == 0 && refKind {
			for i, t := range other {
				o.Rules = append(o.Rules, cloneID(m, t, k, 50+i))
			}
		}
		if gen != "" {
			// the rule served by the harness-registered generator, somewhere in the list
			g := cloneID(m, kt.genRule(res), k, 90)
			at := r.Intn(len(o.Rules) + 1)
			o.Rules = append(o.Rules[:at], append([]*T{g}, o.Rules[at:]...)...)
			o.Gen = gen
		}
		sc.Case.Ops = append(sc.Case.Ops, o)
		return gen != ""
	}
	add(true, "")
	sc.SegAfter = append(sc.SegAfter, segs[0])
	sc.SegIdx = append(sc.SegIdx, 0)
	sc.FirstSeg = len(segs[0])
	sc.Segs = segs
	sc.InGenOf = map[int]int{}
	sc.JRand = map[int]int{}
	for s := 1; s < len(segs); s++ {
		nb := 1 + r.Intn(3)
		// what the custom generator does in each load of the burst: a failing load anywhere, requests
		// from inside the build only in the first load (the list in force then is the one the last
		// effective load of the previous burst left: no surplus copies of the subject rule)
		modes := make([]string, nb)
		lastEff := -1
		for b := 0; b < nb; b++ {
			if kt.genRule != nil {
				switch x := r.Intn(8); {
				case x < 2:
					modes[b] = "fail"
				case x < 4 && b == 0:
					modes[b] = "traffic"
				case x < 5:
					modes[b] = "ignored"
				}
			}
			if modes[b] != "fail" {
				lastEff = b
			}
		}
		for b := 0; b < nb; b++ {
			k := len(sc.Case.Ops)
			// the list left in force by the burst is that of its last load that does not fail; a
			// load with in-generator traffic is followed by traffic of its own
			applied := add(b >= lastEff || modes[b] == "traffic", modes[b])
			if modes[b] == "traffic" && applied {
				sc.InGenOf[k] = s
				sc.JRand[k] = 1 + r.Intn(3)
			}
			if b == nb-1 {
				sc.SegAfter = append(sc.SegAfter, segs[s])
				sc.SegIdx = append(sc.SegIdx, s)
			} else {
				sc.SegAfter = append(sc.SegAfter, nil)
				sc.SegIdx = append(sc.SegIdx, -1)
			}
		}
	}
	return sc
}

// guardReq runs one request; a panic of the code under test is caught and returned as text.
func guardReq(f func()) (fault string) {
	defer func() {
		if x := recover(); x != nil {
			fault = fmt.Sprint("panicked: ", x)
		}
	}()
	f()
	return ""
}

func metaBaseMs(id int) uint64 { return 1700000000000 + uint64(id%modSpan)*50000000 }

func runMeta[T any](x *runner, kt *kit[T], id int, corr bool) {
	m := kt.m
	scA := genMeta(kt, x.root.Fork(uint64(id)), id, "A")
	scB := genMeta(kt, x.root.Fork(uint64(id)), id, "B")
	input := map[string]interface{}{"id": id, "family": "meta", "module": m.Name, "subject_kind": scB.Kind,
		"run_B_loads": rulesh.InputOf(m, scB.Case), "traffic_after_load": scB.SegAfter,
		"run_A": "the first load only, then all traffic"}
	fail := func(clause, sig, detail string) { x.rep.Fail(id, clause, sig, m.Name+": "+detail, input) }

	// run A: no reloads
	clk.SetMs(metaBaseMs(id))
	clk.TakeSleeps()
	var decA []dec
	caseA := scA.Case
	caseA.Ops = caseA.Ops[:1]
	reqA := kt.newRun(caseA.Res[1], scA.U)
	obsA := rulesh.RunHooked(m, caseA, false, func(k int) {
		for _, seg := range scA.SegAfter {
			for _, e := range seg {
				if f := guardReq(func() { decA = append(decA, reqA(e)) }); f != "" {
					fail("C14_behaviour_invisible", "request-panicked-in-rule-check", fmt.Sprintf("request %d of run A: %s", len(decA), f))
				}
			}
		}
		kt.drain()
	})
	// run B: with reloads. A load marked "fail" meets a panicking generator (it must report an error
	// and leave everything as it was); a load marked "traffic" has the first requests of the coming
	// segment issued from inside the generator, i.e. while the reload is half done: up to and including
	// the first request that run A did not simply admit (there the subject rule's state decides)
	clk.SetMs(metaBaseMs(id))
	clk.TakeSleeps()
	var decB []dec
	reqB := kt.newRun(scB.Case.Res[1], scB.U)
	segStart := make([]int, len(scB.Segs)+1)
	for s2, seg := range scB.Segs {
		segStart[s2+1] = segStart[s2] + len(seg)
	}
	consumed := map[int]int{} // segment -> requests already issued from inside a generator
	var reqFault string
	send := func(e ev) {
		if f := guardReq(func() { decB = append(decB, reqB(e)) }); f != "" && reqFault == "" {
			reqFault = fmt.Sprintf("request %d of run B: %s", len(decB), f)
		}
	}
	inGen := 0
	obsB := rulesh.RunHooked2(m, scB.Case, false, func(k int) {
		switch scB.Case.Ops[k].Gen { // "fail" is set up by rulesh.RunHooked2
		case "traffic":
			s2 := scB.InGenOf[k]
			seg := scB.Segs[s2]
			j := scB.JRand[k]
			for i := range seg {
				if a := segStart[s2] + i; a < len(decA) && !(decA[a].Out == "pass" && decA[a].Wait == 0) && decA[a].Out != "release" {
					j = i + 1
					break
				}
			}
			if j > len(seg) {
				j = len(seg)
			}
			rulesh.GenAct = func() {
				for i := 0; i < j; i++ {
					send(seg[i])
				}
				consumed[s2] = j
				inGen += j
			}
		}
	}, func(k int) {
		if s2 := scB.SegIdx[k]; s2 >= 0 {
			for _, e := range scB.Segs[s2][consumed[s2]:] {
				send(e)
			}
		}
		if k == len(scB.Case.Ops)-1 {
			kt.drain()
		}
	})
	x.rep.Count(m.Name+"_meta_cases", 1)
	x.rep.Count(m.Name+"_meta_kind_"+scB.Kind, 1)
	x.rep.Count(m.Name+"_meta_reloads", len(scB.Case.Ops)-1)
	x.rep.Count(m.Name+"_meta_requests", len(decA))
	x.rep.Count(m.Name+"_meta_requests_decided_inside_a_reload", inGen)
	if reqFault != "" {
		fail("C14_behaviour_invisible", "request-panicked-in-rule-check", reqFault)
	}
	for _, ob := range obsA {
		if ob.Panicked || ob.Err {
			fail("C14_behaviour_invisible", "load-failed", "the load of run A panicked or returned an error: "+ob.ErrText)
		}
	}
	for k, ob := range obsB {
		failing := scB.Case.Ops[k].Gen == "fail"
		switch {
		case ob.Panicked || (ob.Err && !failing):
			fail("C14_behaviour_invisible", "load-failed", fmt.Sprintf("load %d of run B panicked or returned an error: %s", k, ob.ErrText))
		case failing && !ob.Err:
			fail("C14_failed_load_noop", "failing-generator-not-reported", fmt.Sprintf("load %d of run B met a panicking generator but returned no error", k))
		case failing:
			x.rep.Count(m.Name+"_meta_failed_loads", 1)
			if k > 0 && !rulesh.SameSnaps(m, obsB[k-1].Snaps, ob.Snaps) {
				fail("C14_failed_load_noop", "failed-load-changed-state", fmt.Sprintf("load %d of run B failed (panicking generator) but the controllers in force / reported rules are not what they were before it", k))
			}
		}
	}
	// the metamorphic relation
	nt := false
	if len(decA) != len(decB) {
		fail("C14_behaviour_invisible", "reload-changed-decisions-of-unchanged-rule", fmt.Sprintf("%d decisions without reloads, %d with", len(decA), len(decB)))
	} else {
		sawPass, sawOther := false, false
		for i := range decA {
			if decA[i] != decB[i] {
				fail("C14_behaviour_invisible", "reload-changed-decisions-of-unchanged-rule",
					fmt.Sprintf("subject %s: step %d decided %+v without reloads and %+v with reloads", scB.Kind, i, decA[i], decB[i]))
				break
			}
			if decA[i].Out == "pass" && decA[i].Wait == 0 {
				sawPass = true
			} else if decA[i].Out != "release" && i >= scA.FirstSeg {
				sawOther = true
			}
			switch {
			case decA[i].Out == "pass" && decA[i].Wait > 0:
				x.rep.Count(m.Name+"_meta_decision_wait", 1)
			case decA[i].Out == "pass":
				x.rep.Count(m.Name+"_meta_decision_pass", 1)
			case decA[i].Out != "release":
				x.rep.Count(m.Name+"_meta_decision_block", 1)
			}
			if decA[i].By == "other" {
				fail("C14_behaviour_invisible", "permissive-rule-decided", fmt.Sprintf("step %d was decided by a rule other than the subject rule (harness scenario error)", i))
			}
		}
		nt = sawPass && sawOther
	}
	// structure: the subject rule's controller survives every load of run B
	rulesh.MonitorReuse(m, scB.Case, obsB, x.rep)
	x.finish(id, corr, nt, input, map[string]interface{}{"decisions_without_reloads": decA, "decisions_with_reloads": decB, "run_B": rulesh.ObservedOf(m, scB.Case, obsB)}, rulesh.CoqCase(m, scB.Case, obsB))
}

func runStat[T any](x *runner, kt *kit[T], id int, corr bool) {
	m := kt.m
	res := fmt.Sprintf("%s-%d-S-1", kt.tag, id)
	sc := kt.stat(x.root.Fork(uint64(id)), res)
	c := rulesh.Case[T]{ID: id, Mod: m.Name, NRes: 1, Res: []string{"", res}}
	for k, l := range [][]*T{sc.Pre, sc.Mod} {
		o := rulesh.Op[T]{Kind: "res", Res: 1}
		for j, t := range l {
			o.Rules = append(o.Rules, cloneID(m, t, k, j))
		}
		c.Ops = append(c.Ops, o)
	}
	input := map[string]interface{}{"id": id, "family": "stat", "module": m.Name, "scenario": sc.Label, "statistic_parameters_kept": sc.Reuse,
		"loads": rulesh.InputOf(m, c), "traffic_before_modification": sc.Warm, "traffic_after_modification": sc.Probe, "expected": sc.Expect}
	fail := func(clause, sig, detail string) { x.rep.Fail(id, clause, sig, m.Name+": "+detail, input) }
	clk.SetMs(sc.BaseMs)
	clk.TakeSleeps()
	req := kt.newRun(res, sc.Pre[0])
	var warm, probe []dec
	obs := rulesh.RunHooked(m, c, false, func(k int) {
		if k == 0 {
			for _, e := range sc.Warm {
				warm = append(warm, req(e))
			}
		} else {
			for _, e := range sc.Probe {
				probe = append(probe, req(e))
			}
			kt.drain()
		}
	})
	x.rep.Count(m.Name+"_stat_cases", 1)
	if sc.Reuse {
		x.rep.Count(m.Name+"_stat_parameters_kept", 1)
	} else {
		x.rep.Count(m.Name+"_stat_parameters_changed_control", 1)
	}
	for _, ob := range obs {
		if ob.Panicked || ob.Err || !ob.Changed {
			fail("C14_stat_reuse", "load-failed", "a load of the scenario failed or was not effective: "+ob.ErrText)
		}
	}
	for i, d := range warm {
		if d.Out != "pass" {
			fail("C14_stat_reuse", "warm-up-traffic-rejected", fmt.Sprintf("step %d of the accumulation phase was not admitted (harness scenario error): %+v", i, d))
		}
	}
	for i, d := range probe {
		if d.Out != sc.Expect[i] {
			if d.Out != "pass" {
				x.rep.Count(m.Name+"_stat_probe_block", 1)
			}
			sig := "modified-rule-lost-its-statistics"
			if !sc.Reuse {
				sig = "statistics-reused-across-different-parameters"
			}
			fail("C14_stat_reuse", sig, fmt.Sprintf("%s: step %d after the modification decided %q, the accumulated statistics predict %q", sc.Label, i, d.Out, sc.Expect[i]))
			break
		}
		if d.Out != "pass" {
			x.rep.Count(m.Name+"_stat_probe_block", 1)
		} else {
			x.rep.Count(m.Name+"_stat_probe_pass", 1)
		}
	}
	rulesh.MonitorReuse(m, c, obs, x.rep)
	x.finish(id, corr, true, input, map[string]interface{}{"before": warm, "after": probe, "loads": rulesh.ObservedOf(m, c, obs)}, rulesh.CoqCase(m, c, obs))
}
