//go:build verif

package main

import (
	"errors"
	"fmt"
	"strings"
	"time"

	sentinel "github.com/alibaba/sentinel-golang/api"
	"github.com/alibaba/sentinel-golang/core/base"
	cb "github.com/alibaba/sentinel-golang/core/circuitbreaker"
	"github.com/alibaba/sentinel-golang/core/flow"
	"github.com/alibaba/sentinel-golang/core/hotspot"

	"vh/internal/rng"
	"vh/internal/rulesh"
)

const huge = 1e9

func sumSleeps(s []time.Duration) int64 {
	n := int64(0)
	for _, d := range s {
		n += int64(d)
	}
	return n
}

func pickDts(r *rng.R, n int, choices ...int64) []uint64 {
	out := make([]uint64, n)
	for i := range out {
		out[i] = uint64(r.PickI(choices...))
	}
	return out
}

func segments(r *rng.R, mk func() ev) [][]ev {
	nseg := 2 + r.Intn(3)
	segs := make([][]ev, nseg)
	for s := range segs {
		n := 4 + r.Intn(9)
		for i := 0; i < n; i++ {
			segs[s] = append(segs[s], mk())
		}
	}
	return segs
}

// ---------------------------------------------------------------------------------------------
// flow: lastPassedTime of the throttling checker, stored tokens of the warm-up calculator, private
// sliding-window statistics of a reject rule

func flowKit(m *rulesh.Mod[flow.Rule]) *kit[flow.Rule] {
	kt := &kit[flow.Rule]{m: m, tag: "c14f"}
	kt.subject = func(r *rng.R, res string) (*flow.Rule, string) {
		switch r.Intn(7) {
		case 5, 6:
			// an associated-resource rule over a window of its own: it counts the admitted requests of the
			// case's second resource (fed through the index keyed by the REFERENCED resource)
			return &flow.Rule{Resource: res, Threshold: r.PickF(2, 3, 5), RelationStrategy: flow.AssociatedResource, RefResource: strings.TrimSuffix(res, "1") + "2",
				StatIntervalInMs: uint32(r.PickI(20000, 3000, 700))}, "associated-private-window"
		case 0:
			return &flow.Rule{Resource: res, TokenCalculateStrategy: flow.Direct, ControlBehavior: flow.Throttling, Threshold: r.PickF(2, 5, 10),
				StatIntervalInMs: uint32(r.PickI(0, 1000, 2000)), MaxQueueingTimeMs: uint32(r.PickI(0, 200, 500))}, "throttling"
		case 1:
			return &flow.Rule{Resource: res, TokenCalculateStrategy: flow.WarmUp, ControlBehavior: flow.Reject, Threshold: r.PickF(20, 50),
				WarmUpPeriodSec: uint32(r.PickI(5, 10)), WarmUpColdFactor: uint32(r.PickI(0, 3, 5)), StatIntervalInMs: uint32(r.PickI(0, 700))}, "warmup-reject"
		case 2:
			return &flow.Rule{Resource: res, TokenCalculateStrategy: flow.WarmUp, ControlBehavior: flow.Throttling, Threshold: r.PickF(10, 20),
				WarmUpPeriodSec: 5, WarmUpColdFactor: uint32(r.PickI(0, 3)), MaxQueueingTimeMs: uint32(r.PickI(200, 500))}, "warmup-throttling"
		case 3:
			return &flow.Rule{Resource: res, Threshold: r.PickF(3, 5), StatIntervalInMs: uint32(r.PickI(700, 3000, 1750, 1250))}, "reject-private-statistics"
		default:
			return &flow.Rule{Resource: res, Threshold: r.PickF(3, 5)}, "reject-shared-statistics"
		}
	}
	kt.dupSafe = func(u *flow.Rule) bool {
		// a second controller for the same rule decides exactly as the first only if it has no state
		// of its own: direct + reject over the resource node's statistics
		return u.TokenCalculateStrategy == flow.Direct && u.ControlBehavior == flow.Reject && u.StatIntervalInMs == 0
	}
	kt.others = func(r *rng.R, u *flow.Rule, res, res2 string) (same, other []*flow.Rule) {
		// a statistic-reusable variant of the subject rule that never rejects (the D15 shape)
		v := *u
		v.Threshold, v.ControlBehavior = huge, flow.Reject
		same = append(same, &v)
		same = append(same, &flow.Rule{Resource: res, Threshold: huge, StatIntervalInMs: u.StatIntervalInMs})
		same = append(same, &flow.Rule{Resource: res, Threshold: huge * 2, StatIntervalInMs: uint32(r.PickI(0, 3000, 700))})
		same = append(same, &flow.Rule{Resource: res, TokenCalculateStrategy: flow.WarmUp, Threshold: huge, WarmUpPeriodSec: 10, WarmUpColdFactor: 3, StatIntervalInMs: u.StatIntervalInMs})
		same = append(same, &flow.Rule{Resource: res, Threshold: -1}) // invalid: never in force
		if u.RelationStrategy == flow.AssociatedResource {
			// the referenced resource gets traffic in both runs: its own rules never reject
			other = append(other, &flow.Rule{Resource: res2, Threshold: huge})
			other = append(other, &flow.Rule{Resource: res2, Threshold: huge * 2, StatIntervalInMs: uint32(r.PickI(0, 3000, 20000))})
			other = append(other, &flow.Rule{Resource: res2, Threshold: huge, RelationStrategy: flow.AssociatedResource, RefResource: res, StatIntervalInMs: 700})
			return
		}
		other = append(other, &flow.Rule{Resource: res2, Threshold: r.PickF(0, 1, 100)})
		other = append(other, &flow.Rule{Resource: res2, ControlBehavior: flow.Throttling, Threshold: 1})
		return
	}
	kt.refLoads = func(u *flow.Rule) bool { return u.RelationStrategy == flow.AssociatedResource }
	kt.traffic = func(r *rng.R, kind string) [][]ev {
		if kind == "associated-private-window" {
			return segments(r, func() ev {
				return ev{Dt: uint64(r.PickI(0, 0, 1, 10, 100, 100, 300, 600, 1100, 2500)), On2: r.Chance(3, 5)}
			})
		}
		return segments(r, func() ev { return ev{Dt: uint64(r.PickI(0, 0, 1, 10, 100, 100, 300, 600, 1100, 2500))} })
	}
	kt.drain = func() {}
	kt.genRule = m.GenRule
	kt.newRun = func(res string, u *flow.Rule) func(e ev) dec {
		return func(e ev) dec {
			clk.AddMs(e.Dt)
			clk.TakeSleeps()
			target := res
			if e.On2 {
				target = strings.TrimSuffix(res, "1") + "2"
			}
			en, b := sentinel.Entry(target)
			w := sumSleeps(clk.TakeSleeps())
			if b != nil {
				by := ""
				if fr, ok := b.TriggeredRule().(*flow.Rule); ok && fr != nil {
					by = "other"
					if m.SameNoID(fr, u) {
						by = "U"
					}
				}
				return dec{Out: "block:" + b.BlockType().String(), Wait: w, By: by}
			}
			en.Exit()
			return dec{Out: "pass", Wait: w}
		}
	}
	kt.stat = func(r *rng.R, res string) statScen[flow.Rule] {
		iv := uint32(r.PickI(700, 3000, 1750, 1250)) // also intervals that are not multiples of the global bucket length
		n := 1 + r.Intn(6)
		if r.Chance(1, 3) {
			// one old statistics object, two new rules with its statistic parameters: the first in list
			// order takes the accumulated window over, the second counts from zero in a window of its own
			sc := statScen[flow.Rule]{BaseMs: 1700000001000 / 21000 * 21000, Reuse: true}
			sc.Pre = []*flow.Rule{{Resource: res, Threshold: 100, StatIntervalInMs: iv}}
			for i := 0; i < n; i++ {
				sc.Warm = append(sc.Warm, ev{Dt: 1})
			}
			t := [2]float64{float64(int64(n) + r.PickI(0, 1, 2, 3, 50)), float64(r.PickI(1, 2, 3, 4, 60))}
			if t[0] == t[1] {
				t[1]++
			}
			sc.Mod = []*flow.Rule{{Resource: res, Threshold: t[0], StatIntervalInMs: iv}, {Resource: res, Threshold: t[1], StatIntervalInMs: iv}}
			cnt := [2]float64{float64(n), 0} // own ledger of the two windows
			for i := 0; i < 6; i++ {
				sc.Probe = append(sc.Probe, ev{Dt: 1})
				if cnt[0]+1 > t[0] || cnt[1]+1 > t[1] {
					sc.Expect = append(sc.Expect, "block:"+base.BlockTypeFlow.String())
				} else {
					sc.Expect = append(sc.Expect, "pass")
					cnt[0]++
					cnt[1]++
				}
			}
			sc.Label = fmt.Sprintf("flow reject over a private %d ms window: %d admitted, then two rules with that interval, thresholds %v and %v (the first inherits the window, the second starts empty)", iv, n, t[0], t[1])
			return sc
		}
		t2 := float64(int64(n) + r.PickI(-1, 0, 0, 1, 2))
		if t2 < 1 {
			t2 = 1
		}
		sc := statScen[flow.Rule]{BaseMs: 1700000001000 / 21000 * 21000, Reuse: r.Chance(3, 4)}
		sc.Pre = []*flow.Rule{{Resource: res, Threshold: 100, StatIntervalInMs: iv}}
		for i := 0; i < n; i++ {
			sc.Warm = append(sc.Warm, ev{Dt: 1})
		}
		mod := flow.Rule{Resource: res, Threshold: t2, StatIntervalInMs: iv}
		if !sc.Reuse {
			mod.StatIntervalInMs = 3700 - iv // the other private geometry: nothing to take over
			if iv != 700 && iv != 3000 {
				mod.StatIntervalInMs = 700
			}
		}
		sc.Mod = []*flow.Rule{&mod}
		if r.Bool() { // an unrelated permissive rule first; its statistic parameters differ from both
			sc.Mod = []*flow.Rule{{Resource: res, Threshold: huge, StatIntervalInMs: 0}, &mod}
		}
		sc.Probe = []ev{{Dt: 1}}
		// own ledger: n requests were admitted in the current window; the window of a private
		// statistic of interval iv is the iv-aligned bucket, and the whole scenario lasts < 10 ms
		// from an aligned start
		kept := float64(n)
		if !sc.Reuse {
			kept = 0
		}
		if kept+1 > t2 {
			sc.Expect = []string{"block:" + base.BlockTypeFlow.String()}
		} else {
			sc.Expect = []string{"pass"}
		}
		sc.Label = fmt.Sprintf("flow reject over a private %d ms window: %d admitted, then threshold %v (interval %d)", iv, n, t2, mod.StatIntervalInMs)
		return sc
	}
	return kt
}

// ---------------------------------------------------------------------------------------------
// circuit breaker: state, retry deadline, probe counter, error/slow counters

var errReq = errors.New("request failed")

func brkKit(m *rulesh.Mod[cb.Rule]) *kit[cb.Rule] {
	kt := &kit[cb.Rule]{m: m, tag: "c14b"}
	kt.subject = func(r *rng.R, res string) (*cb.Rule, string) {
		u := &cb.Rule{Resource: res, RetryTimeoutMs: uint32(r.PickI(500, 1000, 3000)), MinRequestAmount: uint64(r.PickI(1, 2, 3)),
			StatIntervalMs: uint32(r.PickI(1000, 5000, 10000)), StatSlidingWindowBucketCount: uint32(r.PickI(0, 1, 2)), ProbeNum: uint64(r.PickI(0, 0, 2))}
		switch r.Intn(3) {
		case 0:
			u.Strategy, u.Threshold = cb.ErrorCount, r.PickF(1, 2, 3)
			return u, "error-count"
		case 1:
			u.Strategy, u.Threshold = cb.ErrorRatio, r.PickF(0.3, 0.5, 1)
			return u, "error-ratio"
		default:
			u.Strategy, u.Threshold, u.MaxAllowedRtMs = cb.SlowRequestRatio, r.PickF(0.3, 0.5), 20
			return u, "slow-request-ratio"
		}
	}
	kt.dupSafe = func(u *cb.Rule) bool { return false }
	kt.others = func(r *rng.R, u *cb.Rule, res, res2 string) (same, other []*cb.Rule) {
		v := *u // statistic-reusable with the subject rule, never trips (the D15 shape)
		v.MinRequestAmount = 1e15
		same = append(same, &v)
		same = append(same, &cb.Rule{Resource: res, Strategy: cb.ErrorCount, RetryTimeoutMs: 1000, MinRequestAmount: 1e15, StatIntervalMs: u.StatIntervalMs, StatSlidingWindowBucketCount: u.StatSlidingWindowBucketCount, Threshold: 1})
		same = append(same, &cb.Rule{Resource: res, Strategy: cb.ErrorRatio, RetryTimeoutMs: 2000, MinRequestAmount: 1e15, StatIntervalMs: uint32(r.PickI(1000, 2000)), Threshold: 0.1})
		same = append(same, &cb.Rule{Resource: res, Strategy: cb.SlowRequestRatio, RetryTimeoutMs: 2000, MinRequestAmount: 1e15, StatIntervalMs: 3000, MaxAllowedRtMs: 1, Threshold: 0.1})
		same = append(same, &cb.Rule{Resource: res, Strategy: cb.ErrorCount, RetryTimeoutMs: 0, MinRequestAmount: 0, StatIntervalMs: 1000, Threshold: 0}) // invalid: never in force
		other = append(other, &cb.Rule{Resource: res2, Strategy: cb.ErrorCount, RetryTimeoutMs: 1000, MinRequestAmount: 1, StatIntervalMs: 1000, Threshold: 1})
		return
	}
	kt.traffic = func(r *rng.R, kind string) [][]ev {
		return segments(r, func() ev {
			return ev{Dt: uint64(r.PickI(0, 1, 50, 200, 200, 600, 1200, 3500)), Err: r.Chance(1, 2), Rt: uint64(r.PickI(0, 5, 30, 50))}
		})
	}
	kt.drain = func() {}
	kt.genRule = m.GenRule
	kt.newRun = func(res string, u *cb.Rule) func(e ev) dec {
		return func(e ev) dec {
			clk.AddMs(e.Dt)
			en, b := sentinel.Entry(res)
			if b != nil {
				by := ""
				if br, ok := b.TriggeredRule().(*cb.Rule); ok && br != nil {
					by = "other"
					if m.SameNoID(br, u) {
						by = "U"
					}
				}
				return dec{Out: "block:" + b.BlockType().String(), By: by}
			}
			clk.AddMs(e.Rt)
			if e.Err {
				sentinel.TraceError(en, errReq)
			}
			en.Exit()
			return dec{Out: "pass"}
		}
	}
	kt.stat = func(r *rng.R, res string) statScen[cb.Rule] {
		if r.Chance(1, 3) {
			// one old statistics object, two new rules with its statistic parameters (neither equal to
			// the old rule): the first in list order counts on from the recorded failures, the second from 0
			n := 1 + r.Intn(4)
			sc := statScen[cb.Rule]{BaseMs: 1700000000000, Reuse: true}
			sc.Pre = []*cb.Rule{{Resource: res, Strategy: cb.ErrorCount, RetryTimeoutMs: 5000, MinRequestAmount: 1, StatIntervalMs: 10000, StatSlidingWindowBucketCount: 1, Threshold: 100}}
			for i := 0; i < n; i++ {
				sc.Warm = append(sc.Warm, ev{Dt: 1, Err: true})
			}
			t := [2]float64{float64(int64(n) + r.PickI(1, 2, 3, 50)), float64(r.PickI(2, 3, 4, 5, 60))}
			if t[0] == t[1] {
				t[1]++
			}
			m1, m2 := *sc.Pre[0], *sc.Pre[0]
			m1.Threshold, m2.Threshold = t[0], t[1]
			sc.Mod = []*cb.Rule{&m1, &m2}
			cnt := [2]float64{float64(n), 0} // own ledger of the two error counters
			open := false
			for i := 0; i < 7; i++ {
				sc.Probe = append(sc.Probe, ev{Dt: 1, Err: true})
				if open {
					sc.Expect = append(sc.Expect, "block:"+base.BlockTypeCircuitBreaking.String())
					continue
				}
				sc.Expect = append(sc.Expect, "pass")
				cnt[0]++
				cnt[1]++
				open = cnt[0] >= t[0] || cnt[1] >= t[1]
			}
			sc.Label = fmt.Sprintf("breaker error count: %d failures recorded, then two rules with that window, thresholds %v and %v (the first inherits the counters, the second starts at 0)", n, t[0], t[1])
			return sc
		}
		n := 2 + r.Intn(4)
		t2 := float64(int64(n) + r.PickI(0, 1, 1, 2))
		sc := statScen[cb.Rule]{BaseMs: 1700000000000, Reuse: r.Chance(3, 4)}
		sc.Pre = []*cb.Rule{{Resource: res, Strategy: cb.ErrorCount, RetryTimeoutMs: 5000, MinRequestAmount: 1, StatIntervalMs: 10000, StatSlidingWindowBucketCount: 1, Threshold: 100}}
		for i := 0; i < n; i++ {
			sc.Warm = append(sc.Warm, ev{Dt: 1, Err: true})
		}
		mod := *sc.Pre[0]
		mod.Threshold = t2
		if !sc.Reuse {
			if r.Bool() {
				mod.StatSlidingWindowBucketCount = 2
			} else {
				mod.StatIntervalMs = 5000
			}
		}
		sc.Mod = []*cb.Rule{&mod}
		if r.Bool() {
			sc.Mod = []*cb.Rule{{Resource: res, Strategy: cb.ErrorRatio, RetryTimeoutMs: 1000, MinRequestAmount: 1e15, StatIntervalMs: 2000, Threshold: 0.5}, &mod}
		}
		sc.Probe = []ev{{Dt: 1, Err: true}, {Dt: 1}}
		// own ledger: n failures were recorded in the current 10 s window (the scenario lasts < 20 ms
		// from an aligned start); one more failure makes n+1
		kept := float64(n)
		if !sc.Reuse {
			kept = 0
		}
		sc.Expect = []string{"pass", "pass"}
		if kept+1 >= t2 {
			sc.Expect[1] = "block:" + base.BlockTypeCircuitBreaking.String()
		}
		sc.Label = fmt.Sprintf("breaker error count: %d failures recorded, then threshold %v (interval %d, buckets %d)", n, t2, mod.StatIntervalMs, mod.StatSlidingWindowBucketCount)
		return sc
	}
	return kt
}

// ---------------------------------------------------------------------------------------------
// hotspot: per-value token and time counters, per-value concurrency

func hotKit(m *rulesh.Mod[hotspot.Rule]) *kit[hotspot.Rule] {
	kt := &kit[hotspot.Rule]{m: m, tag: "c14h"}
	var held []*base.SentinelEntry
	kt.subject = func(r *rng.R, res string) (*hotspot.Rule, string) {
		var items map[interface{}]int64
		if r.Chance(1, 3) {
			items = map[interface{}]int64{7: 1}
		}
		switch r.Intn(3) {
		case 0:
			return &hotspot.Rule{Resource: res, MetricType: hotspot.QPS, ControlBehavior: hotspot.Reject, Threshold: r.PickI(2, 3, 5), BurstCount: r.PickI(0, 1),
				DurationInSec: r.PickI(1, 2), ParamsMaxCapacity: r.PickI(0, 100), SpecificItems: items}, "qps-reject"
		case 1:
			return &hotspot.Rule{Resource: res, MetricType: hotspot.QPS, ControlBehavior: hotspot.Throttling, Threshold: r.PickI(2, 5), MaxQueueingTimeMs: r.PickI(0, 300),
				DurationInSec: 1, SpecificItems: items}, "qps-throttling"
		default:
			return &hotspot.Rule{Resource: res, MetricType: hotspot.Concurrency, ControlBehavior: hotspot.Reject, Threshold: r.PickI(1, 2), ParamsMaxCapacity: r.PickI(0, 50), SpecificItems: items}, "concurrency"
		}
	}
	kt.dupSafe = func(u *hotspot.Rule) bool { return false }
	kt.others = func(r *rng.R, u *hotspot.Rule, res, res2 string) (same, other []*hotspot.Rule) {
		v := *u // statistic-reusable with the subject rule, never rejects (the D15 shape)
		v.Threshold, v.SpecificItems = huge, nil
		same = append(same, &v)
		same = append(same, &hotspot.Rule{Resource: res, MetricType: hotspot.QPS, ControlBehavior: hotspot.Reject, Threshold: huge, DurationInSec: r.PickI(1, 3)})
		same = append(same, &hotspot.Rule{Resource: res, MetricType: hotspot.Concurrency, ControlBehavior: hotspot.Reject, Threshold: huge})
		same = append(same, &hotspot.Rule{Resource: res, MetricType: hotspot.QPS, ControlBehavior: hotspot.Reject, Threshold: 0, DurationInSec: 0}) // invalid: never in force
		other = append(other, &hotspot.Rule{Resource: res2, MetricType: hotspot.QPS, ControlBehavior: hotspot.Reject, Threshold: 0, DurationInSec: 1})
		return
	}
	kt.traffic = func(r *rng.R, kind string) [][]ev {
		return segments(r, func() ev {
			e := ev{Dt: uint64(r.PickI(0, 0, 1, 100, 400, 1100, 2100)), Arg: int(r.PickI(1, 1, 2, 7))}
			if kind == "concurrency" {
				if r.Chance(1, 4) {
					return ev{Dt: e.Dt, Rel: true}
				}
				e.Hold = r.Chance(1, 2)
			}
			return e
		})
	}
	kt.drain = func() {
		for _, e := range held {
			e.Exit()
		}
		held = nil
	}
	kt.genRule = m.GenRule
	kt.newRun = func(res string, u *hotspot.Rule) func(e ev) dec {
		return func(e ev) dec {
			clk.AddMs(e.Dt)
			if e.Rel {
				if len(held) > 0 {
					held[0].Exit()
					held = held[1:]
				}
				return dec{Out: "release"}
			}
			clk.TakeSleeps()
			en, b := sentinel.Entry(res, sentinel.WithArgs(e.Arg))
			w := sumSleeps(clk.TakeSleeps())
			if b != nil {
				by := ""
				if hr, ok := b.TriggeredRule().(*hotspot.Rule); ok && hr != nil {
					by = "other"
					if m.SameNoID(hr, u) {
						by = "U"
					}
				}
				return dec{Out: "block:" + b.BlockType().String(), Wait: w, By: by}
			}
			if e.Hold {
				held = append(held, en)
			} else {
				en.Exit()
			}
			return dec{Out: "pass", Wait: w}
		}
	}
	kt.stat = func(r *rng.R, res string) statScen[hotspot.Rule] {
		if r.Chance(2, 5) {
			// concurrency: T calls for value 1 are in flight when the rule is replaced by a modified one
			// with the same statistic parameters (only BurstCount, which a concurrency rule never reads,
			// or the threshold differ): the in-flight count must be kept
			T := r.PickI(1, 2)
			sc := statScen[hotspot.Rule]{BaseMs: 1700000000000, Reuse: r.Chance(3, 4)}
			sc.Pre = []*hotspot.Rule{{Resource: res, MetricType: hotspot.Concurrency, ControlBehavior: hotspot.Reject, Threshold: T + r.PickI(0, 5), ParamsMaxCapacity: r.PickI(0, 50)}}
			for i := int64(0); i < T; i++ {
				sc.Warm = append(sc.Warm, ev{Dt: 1, Arg: 1, Hold: true})
			}
			mod := *sc.Pre[0]
			mod.Threshold = T
			mod.BurstCount = 1
			if !sc.Reuse {
				mod.ParamsMaxCapacity += 7
			}
			sc.Mod = []*hotspot.Rule{&mod}
			if r.Bool() {
				sc.Mod = []*hotspot.Rule{{Resource: res, MetricType: hotspot.QPS, ControlBehavior: hotspot.Reject, Threshold: huge, DurationInSec: 1}, &mod}
			}
			sc.Probe = []ev{{Dt: 1, Arg: 1}, {Dt: 0, Arg: 2}}
			// own ledger: T calls for value 1 are open, none for value 2
			sc.Expect = []string{"pass", "pass"}
			if sc.Reuse {
				sc.Expect[0] = "block:" + base.BlockTypeHotSpotParamFlow.String()
			}
			sc.Label = fmt.Sprintf("hotspot concurrency: %d calls for value 1 in flight, then threshold %d (capacity %d)", T, T, mod.ParamsMaxCapacity)
			return sc
		}
		if r.Chance(1, 3) {
			// one old statistics object, two new rules with its statistic parameters: the first in list
			// order goes on with the tokens value 1 has left, the second meets value 1 for the first time
			k := int(r.PickI(7, 8, 9, 10))
			sc := statScen[hotspot.Rule]{BaseMs: 1700000000000, Reuse: true}
			sc.Pre = []*hotspot.Rule{{Resource: res, MetricType: hotspot.QPS, ControlBehavior: hotspot.Reject, Threshold: 10, DurationInSec: 100}}
			for i := 0; i < k; i++ {
				sc.Warm = append(sc.Warm, ev{Dt: 1, Arg: 1})
			}
			t := [2]int64{r.PickI(5, 11, 20), r.PickI(1, 2, 3, 4, 30)}
			if t[0] == t[1] {
				t[1]++
			}
			m1, m2 := *sc.Pre[0], *sc.Pre[0]
			m1.Threshold, m2.Threshold = t[0], t[1]
			sc.Mod = []*hotspot.Rule{&m1, &m2}
			// own ledger: the controllers are asked in order, each one that admits takes a token at once
			left := [2]int64{int64(10 - k), 0}
			seen := [2]bool{true, false}
			for i := 0; i < 6; i++ {
				sc.Probe = append(sc.Probe, ev{Dt: 1, Arg: 1})
				out := "pass"
				for j := 0; j < 2; j++ {
					if !seen[j] {
						seen[j], left[j] = true, t[j]-1
					} else if left[j] >= 1 {
						left[j]--
					} else {
						out = "block:" + base.BlockTypeHotSpotParamFlow.String()
						break
					}
				}
				sc.Expect = append(sc.Expect, out)
			}
			sc.Label = fmt.Sprintf("hotspot QPS reject: %d of 10 tokens of value 1 spent, then two rules with that duration and capacity, thresholds %d and %d (the first inherits the counters, the second starts fresh)", k, t[0], t[1])
			return sc
		}
		k := int(r.PickI(8, 9, 10, 10))
		t2 := r.PickI(5, 20, 11)
		sc := statScen[hotspot.Rule]{BaseMs: 1700000000000, Reuse: r.Chance(3, 4)}
		sc.Pre = []*hotspot.Rule{{Resource: res, MetricType: hotspot.QPS, ControlBehavior: hotspot.Reject, Threshold: 10, DurationInSec: 100}}
		for i := 0; i < k; i++ {
			sc.Warm = append(sc.Warm, ev{Dt: 1, Arg: 1})
		}
		mod := *sc.Pre[0]
		mod.Threshold = t2
		if !sc.Reuse {
			if r.Bool() {
				mod.DurationInSec = 50
			} else {
				mod.ParamsMaxCapacity = 77
			}
		}
		sc.Mod = []*hotspot.Rule{&mod}
		if r.Bool() {
			sc.Mod = []*hotspot.Rule{{Resource: res, MetricType: hotspot.Concurrency, ControlBehavior: hotspot.Reject, Threshold: huge}, &mod}
		}
		sc.Probe = []ev{{Dt: 1, Arg: 1}, {Dt: 0, Arg: 2}}
		// own ledger: value 1 started with 10 tokens for the 100 s window and spent k of them; the
		// window has not passed, so nothing is refilled; value 2 was never seen
		left := 10 - k
		if !sc.Reuse {
			left = int(t2) // a fresh counter starts full
		}
		sc.Expect = []string{"pass", "pass"}
		if left < 1 {
			sc.Expect[0] = "block:" + base.BlockTypeHotSpotParamFlow.String()
		}
		sc.Label = fmt.Sprintf("hotspot QPS reject: %d of 10 tokens of value 1 spent, then threshold %d (duration %d, capacity %d)", k, t2, mod.DurationInSec, mod.ParamsMaxCapacity)
		return sc
	}
	return kt
}
