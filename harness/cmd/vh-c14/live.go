//go:build verif

package main

import (
	"fmt"

	sentinel "github.com/alibaba/sentinel-golang/api"
	"github.com/alibaba/sentinel-golang/core/flow"

	"vh/internal/rulesh"
)

// live: the statistics a freshly built flow controller reads are the live statistics of its
// resource, for every (TokenCalculateStrategy x ControlBehavior) pair that has a built-in generator.
// Designed scenarios with an absolute expectation stated from the rule alone (no model, no second
// run): a controller bound to a dead statistic (one that the admitted traffic never reaches) admits
// more than its threshold at one instant, or never leaves the cold rate of a warm-up rule.
//
//	burst    n requests at one instant: the admitted number lies in [lo, hi]
//	sustain  one request per virtual millisecond (a waiting request sleeps on the virtual clock) for
//	         several warm-up periods: the admitted number of the last second reaches the threshold
type liveScen struct {
	Label   string     `json:"scenario"`
	Rule    *flow.Rule `json:"-"`
	RuleCoq string     `json:"rule"`
	Whole   bool       `json:"loaded_through_LoadRules"`
	Kind    string     `json:"traffic"`
	N       int        `json:"requests_or_ms"`
	Lo, Hi  int
}

func genLive(x *runner, id int, res string) liveScen {
	r := x.root.Fork(uint64(id))
	iv := uint32(r.PickI(0, 0, 1000, 2000))
	sc := liveScen{Whole: r.Bool()}
	switch id % 6 {
	case 0:
		T := r.PickI(1, 3, 5, 8)
		iv = uint32(r.PickI(0, 1000, 2000, 700, 3000, 1750, 1250, 9999))
		sc.Rule = &flow.Rule{Resource: res, TokenCalculateStrategy: flow.Direct, ControlBehavior: flow.Reject, Threshold: float64(T), StatIntervalInMs: iv}
		sc.Kind, sc.N, sc.Lo, sc.Hi = "burst", int(T)+3, int(T), int(T)
		sc.Label = "direct + reject: exactly the threshold is admitted at one instant"
	case 1:
		sc.Rule = &flow.Rule{Resource: res, TokenCalculateStrategy: flow.Direct, ControlBehavior: flow.Throttling, Threshold: float64(r.PickI(1, 5, 20)), StatIntervalInMs: iv}
		sc.Kind, sc.N, sc.Lo, sc.Hi = "burst", 4, 1, 1
		sc.Label = "direct + throttling without queueing: one request per instant"
	case 2:
		T := r.PickI(30, 60, 90)
		sc.Rule = &flow.Rule{Resource: res, TokenCalculateStrategy: flow.WarmUp, ControlBehavior: flow.Reject, Threshold: float64(T), WarmUpPeriodSec: uint32(r.PickI(2, 5)), WarmUpColdFactor: uint32(r.PickI(0, 3, 5)), StatIntervalInMs: iv}
		sc.Kind, sc.N, sc.Lo, sc.Hi = "burst", int(T)+5, 1, int(T)
		sc.Label = "warm-up + reject: a cold rule admits at least one and never more than the threshold at one instant"
	case 3:
		T := r.PickI(20, 50, 100)
		p := uint32(r.PickI(2, 3))
		// statistic interval 1 s (the default view): with another interval the pacing is per interval
		// while the warm-up reads a per-second rate, which is C11's subject, not the liveness of the statistic
		iv = uint32(r.PickI(0, 1000))
		sc.Rule = &flow.Rule{Resource: res, TokenCalculateStrategy: flow.WarmUp, ControlBehavior: flow.Throttling, Threshold: float64(T), WarmUpPeriodSec: p, WarmUpColdFactor: uint32(r.PickI(0, 3, 5)), StatIntervalInMs: iv}
		sc.Kind, sc.N, sc.Lo, sc.Hi = "sustain", int(p)*4000+3000, int(T)*9/10, int(T)+1
		sc.Label = "warm-up + throttling: under sustained demand for four warm-up periods the admitted rate reaches the threshold"
	case 4:
		lo, hi := r.PickI(6, 8), r.PickI(2, 3)
		sc.Rule = &flow.Rule{Resource: res, TokenCalculateStrategy: flow.MemoryAdaptive, ControlBehavior: flow.Reject, LowMemUsageThreshold: lo, HighMemUsageThreshold: hi, MemLowWaterMarkBytes: 1024, MemHighWaterMarkBytes: 2048, StatIntervalInMs: iv}
		sc.Kind, sc.N, sc.Lo, sc.Hi = "burst", int(lo)+4, int(hi), int(lo)
		sc.Label = "memory-adaptive + reject: the admitted number at one instant lies between the two thresholds"
	default:
		sc.Rule = &flow.Rule{Resource: res, TokenCalculateStrategy: flow.MemoryAdaptive, ControlBehavior: flow.Throttling, LowMemUsageThreshold: 8, HighMemUsageThreshold: 3, MemLowWaterMarkBytes: 1024, MemHighWaterMarkBytes: 2048, StatIntervalInMs: iv}
		sc.Kind, sc.N, sc.Lo, sc.Hi = "burst", 4, 1, 1
		sc.Label = "memory-adaptive + throttling without queueing: one request per instant"
	}
	return sc
}

func runLive(x *runner, m *rulesh.Mod[flow.Rule], id int) {
	res := fmt.Sprintf("c14f-%d-L-1", id)
	sc := genLive(x, id, res)
	ri := func(s string) int64 {
		if s == res {
			return 1
		}
		return 8
	}
	sc.RuleCoq = m.Coq(sc.Rule, ri)
	input := map[string]interface{}{"id": id, "family": "live", "module": "flow", "scenario": sc}
	fail := func(sig, detail string) { x.rep.Fail(id, "C14_statistics_live", sig, "flow: "+detail, input) }
	clk.SetMs(1700000000000 + uint64(id%modSpan)*100000)
	clk.TakeSleeps()
	rule := *sc.Rule
	rule.ID = "1"
	var lerr error
	if f := guardReq(func() {
		if sc.Whole {
			_, lerr = flow.LoadRules([]*flow.Rule{&rule})
		} else {
			_, lerr = flow.LoadRulesOfResource(res, []*flow.Rule{&rule})
		}
	}); f != "" || lerr != nil {
		fail("load-failed", fmt.Sprint("the load of the scenario failed: ", f, lerr))
		return
	}
	admitted, lastSecond := 0, 0
	var trace []int // sustain: admitted per second
	if f := guardReq(func() {
		switch sc.Kind {
		case "burst":
			for i := 0; i < sc.N; i++ {
				if e, b := sentinel.Entry(res); b == nil {
					admitted++
					e.Exit()
				}
			}
		default:
			start := clk.CurrentTimeMillis()
			for clk.CurrentTimeMillis() < start+uint64(sc.N) {
				sec := int((clk.CurrentTimeMillis() - start) / 1000)
				for len(trace) <= sec {
					trace = append(trace, 0)
				}
				if e, b := sentinel.Entry(res); b == nil {
					trace[sec]++
					admitted++
					e.Exit()
				}
				clk.TakeSleeps()
				clk.AddMs(1)
			}
			if n := sc.N / 1000; n >= 1 && len(trace) >= n {
				lastSecond = trace[n-1]
			}
		}
	}); f != "" {
		fail("request-panicked-in-rule-check", f)
	}
	guardReq(func() { flow.ClearRules() })
	x.rep.Count("flow_live_cases", 1)
	x.rep.Count("flow_live_"+sc.Kind+fmt.Sprintf("_tcs%d_cb%d", sc.Rule.TokenCalculateStrategy, sc.Rule.ControlBehavior), 1)
	got := admitted
	if sc.Kind == "sustain" {
		got = lastSecond
	}
	observed := map[string]interface{}{"admitted": admitted, "admitted_per_second": trace, "compared": got, "expected_at_least": sc.Lo, "expected_at_most": sc.Hi}
	if got < sc.Lo || got > sc.Hi {
		sig := "rule-reads-dead-statistics"
		if got < sc.Lo && sc.Kind == "burst" {
			sig = "fresh-rule-admits-less-than-its-threshold"
		}
		fail(sig, fmt.Sprintf("%s: %d admitted (per second %v), expected between %d and %d", sc.Label, got, trace, sc.Lo, sc.Hi))
	}
	x.finish(id, false, true, input, observed, "")
}
