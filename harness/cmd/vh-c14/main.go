//go:build verif

// vh-c14: harness for property C14 (reloading rules does not disturb the runtime state of unchanged
// rules; a modified rule with equal statistic parameters keeps its statistics).
//
// Three families of cases, for flow, circuit breaker and hotspot:
//
//	reuse  reuse-heavy load histories (the C13 generator with few resources and many equal /
//	       statistic-reusable variants) observed with controller and statistics identities; emitted
//	       as Coq cases for Corr.Run_C14 (= the checker of Run_C13: identities must be those
//	       Rules.build computes) and checked by the structural monitor (rulesh.MonitorReuse).
//	meta   metamorphic pairs: the same traffic history on the same rules is run twice, once without
//	       any reload (run A) and once with bursts of reloads inserted (run B: whole-set or
//	       per-resource; the unchanged rule U re-submitted as a fresh object with a fresh ID, the
//	       other rules added, removed, modified - also into statistic-reusable variants of U -,
//	       reordered, U duplicated). The decision traces (pass / block type / triggering rule / waits)
//	       must be equal. Run B's loads and identities also go to Coq.
//	stat   statistic reuse: a rule accumulates statistics, is replaced by a modified rule with equal
//	       statistic parameters (or, as control, different ones), and the next decision must be the
//	       one the monitor's own ledger of the accumulated statistics predicts.
package main

import (
	"encoding/json"
	"fmt"
	"os"
	"strconv"

	"vh/internal/cli"
	"vh/internal/emit"
	"vh/internal/env"
	"vh/internal/rng"
	"vh/internal/rulesh"
	"vh/internal/vclock"
)

const (
	reuseBase = 0       // + module*100000
	metaBase  = 1000000 // + module*100000
	statBase  = 2000000 // + module*100000
	liveBase  = 3000000 // flow only
	regBase   = 4000000 // flow only: generator registry changes between loads
	modSpan   = 100000
)

var clk *vclock.Clock

type runner struct {
	a    cli.Args
	root *rng.R
	rep  *emit.Report
	sh   *emit.Shards
	dist *emit.Distinct
}

func (x *runner) finish(id int, corr bool, nontrivial bool, input interface{}, observed interface{}, coq string) {
	x.rep.Evaluations++
	if nontrivial {
		b, _ := json.Marshal(input)
		x.dist.Add(string(b))
	}
	if corr && x.sh != nil && coq != "" {
		x.sh.Add(id, coq)
		x.rep.CorrCases++
		x.rep.CaseInputs[strconv.Itoa(id)] = input
	}
	if id%metaBase == 0 && x.a.Only < 0 {
		// one sample per family; the per-load snapshots are left out (they are in the Coq case)
		obs := observed
		if mp, ok := observed.(map[string]interface{}); ok {
			c := map[string]interface{}{}
			for k, v := range mp {
				if k != "run_B" && k != "loads" {
					c[k] = v
				}
			}
			obs = c
		}
		x.rep.Samples = append(x.rep.Samples, map[string]interface{}{"input": input, "observed": obs})
	}
	if x.a.Only >= 0 {
		out, _ := json.MarshalIndent(map[string]interface{}{"input": input, "observed": observed, "coq": coq}, "", " ")
		fmt.Println(string(out))
	}
}

func runReuse[T any](x *runner, m *rulesh.Mod[T], prefix string, id int, corr bool) {
	c := rulesh.GenCase(m, x.root.Fork(uint64(id)), prefix, id, true)
	obs := rulesh.Run(m, c, false)
	nt := rulesh.MonitorReuse(m, c, obs, x.rep)
	rulesh.CountGeneric(m, c, obs, x.rep)
	x.finish(id, corr, nt, rulesh.InputOf(m, c), rulesh.ObservedOf(m, c, obs), rulesh.CoqCase(m, c, obs))
}

func main() {
	a := cli.Parse()
	env.Init(env.Options{})
	clk = vclock.New(1700000000000)
	clk.Install()
	rulesh.Clk = clk
	x := &runner{a: a, root: rng.New(a.Seed), rep: emit.NewReport("C14", a.Seed, a.Tier), dist: emit.NewDistinct()}
	x.rep.Rule = "reuse: load histories of 3-7 operations over 1-2 resources with equal rules under fresh IDs, statistic-reusable variants, duplicates; meta: one stateful subject rule (flow: throttling / warm-up / reject over private or shared statistics; breaker: three strategies with small thresholds; hotspot: QPS reject, QPS throttling, concurrency) plus permissive other rules, 10-40 requests in 2-4 segments, bursts of 1-3 reloads between segments; stat: designed accumulate-modify-decide scenarios. Non-trivial = reuse: some controller was kept for an equal rule across an effective load; meta: run A contains at least one rejection or wait after the first reload position and at least one admission (the subject rule's state matters); stat: always; distinct by full input."
	nCorr := a.Pick(a.N, 24, 500)
	nMon := a.Pick(a.Mon, 300, 8000)
	if a.Search {
		nCorr = 0
		nMon *= 5
	}
	if a.Only < 0 && !a.Search {
		var err error
		x.sh, err = emit.NewShards(a.Out, "Corr.Run_C14", a.Shards, "Open Scope Z_scope.")
		if err != nil {
			panic(err)
		}
		x.sh.Add(0, rulesh.CoqConsts(9999999))
		x.rep.CorrCases++
	}
	fm, hm, bm := rulesh.FlowMod(), rulesh.HotMod(), rulesh.BrkMod()
	rulesh.RegisterGenerators(fm, hm, bm)
	fk, hk, bk := flowKit(fm), hotKit(hm), brkKit(bm)
	one := func(id int, corr bool) {
		fam, mod := id/metaBase, (id%metaBase)/modSpan
		switch fam {
		case 0:
			switch mod {
			case 0:
				runReuse(x, fm, "c14f", id, corr)
			case 1:
				runReuse(x, hm, "c14h", id, corr)
			default:
				runReuse(x, bm, "c14b", id, corr)
			}
		case 1:
			switch mod {
			case 0:
				runMeta(x, fk, id, corr)
			case 1:
				runMeta(x, hk, id, corr)
			default:
				runMeta(x, bk, id, corr)
			}
		case 3:
			runLive(x, fm, id)
		case 4:
			runRegistry(x, fk, id)
		default:
			switch mod {
			case 0:
				runStat(x, fk, id, corr)
			case 1:
				runStat(x, hk, id, corr)
			default:
				runStat(x, bk, id, corr)
			}
		}
	}
	if a.Only >= 0 {
		one(a.Only, false)
		for _, f := range x.rep.MonitorFailures {
			fmt.Printf("MONITOR-FAIL clause=%s signature=%s %s\n", f.Clause, f.Signature, f.Detail)
		}
		return
	}
	for _, fam := range []int{reuseBase, metaBase, statBase} {
		for mod := 0; mod < 3; mod++ {
			for k := 0; k < nMon; k++ {
				one(fam+mod*modSpan+k, k < nCorr)
			}
		}
	}
	// live statistics (flow): six strategy pairs, designed scenarios
	for k := 0; k < nMon/5; k++ {
		one(liveBase+k, false)
	}
	for k := 0; k < nMon/3; k++ {
		one(regBase+k, false)
	}
	x.rep.DistinctNontrivial = x.dist.N()
	rulesh.Consts(x.rep)
	if x.sh != nil {
		x.rep.Shards = x.sh.Close()
	}
	if err := x.rep.Write(a.Out); err != nil {
		fmt.Fprintln(os.Stderr, err)
		os.Exit(2)
	}
}
