//go:build verif

// vh-c10: correspondence + monitor harness for property C10 (throttling flow rules).
package main

import (
	"encoding/json"
	"fmt"
	"math"
	"math/big"
	"os"
	"strconv"

	sentinel "github.com/alibaba/sentinel-golang/api"
	"github.com/alibaba/sentinel-golang/core/base"
	"github.com/alibaba/sentinel-golang/core/flow"
	"github.com/alibaba/sentinel-golang/util/vhook"

	"vh/internal/cli"
	"vh/internal/emit"
	"vh/internal/env"
	"vh/internal/rng"
	"vh/internal/vclock"
)

const t0ns = uint64(1700000000000) * 1000000

// fl is a float64 that survives JSON (NaN / Inf) and prints exactly.
type fl float64

func (f fl) MarshalJSON() ([]byte, error) {
	return json.Marshal(map[string]interface{}{"text": strconv.FormatFloat(float64(f), 'g', -1, 64), "bits": fmt.Sprintf("0x%016x", math.Float64bits(float64(f)))})
}

type reqT struct {
	Ns uint64 `json:"ns"`
	B  uint32 `json:"batch"`
	// Reload > 0: the request is issued from INSIDE a reload of the resource's rules (consecutive requests with
	// the same number belong to one flow.LoadRulesOfResource call that keeps the throttling rule unchanged: they
	// run in a user generator that the rebuild calls); ReloadFails: that generator panics afterwards, the load
	// fails and the old rules stay.  Either way the throttling rule is in force before, during and after.
	Reload      int  `json:"in_reload,omitempty"`
	ReloadFails bool `json:"reload_fails,omitempty"`
}

type seqCase struct {
	ID        int    `json:"id"`
	T         fl     `json:"threshold"`
	TimeoutMs uint32 `json:"max_queueing_ms"`
	StatMs    uint32 `json:"stat_interval_ms"`
	Ops       []reqT `json:"ops"`
}

type obsT struct {
	Pass  bool   `json:"pass"`
	Wait  int64  `json:"wait_ns"`
	BType string `json:"block_type,omitempty"`
	NSlp  int    `json:"sleeps"`
}

// ---- the monitor's own arithmetic -------------------------------------------------------

func statNs(statMs uint32) int64 {
	if statMs == 0 {
		return 1000 * 1000000
	}
	return int64(statMs) * 1000000
}

// ivOf is the spacing the property asks for, batch/threshold of the statistic interval, in the
// float64 arithmetic the rule is specified in, rounded up to whole nanoseconds.
func ivOf(T float64, statMs uint32, b uint32) int64 {
	return int64(math.Ceil(float64(b) / T * float64(statNs(statMs))))
}

func early(T float64, b uint32) bool { return T <= 0 || float64(b) > T }

func bi(x int64) *big.Int { return big.NewInt(x) }

// needWait = lastPass + iv - now, in unbounded integers
func needWait(lastPass, iv, now int64) *big.Int {
	r := new(big.Int).Add(bi(lastPass), bi(iv))
	return r.Sub(r, bi(now))
}

// ledger is the reference bookkeeping of the property: the latest assigned pass time.
type ledger struct {
	T      float64
	statMs uint32
	maxq   int64
	last   int64
}

// expect returns what the property demands for a request (admit?, wait).
func (l *ledger) expect(now int64, b uint32) (admit bool, wait int64) {
	if b == 0 {
		return true, 0
	}
	if early(l.T, b) {
		return false, 0
	}
	iv := ivOf(l.T, l.statMs, b)
	nw := needWait(l.last, iv, now)
	if nw.Sign() <= 0 {
		return true, 0
	}
	if nw.Cmp(bi(l.maxq)) > 0 {
		return false, 0
	}
	return true, nw.Int64()
}

// ---- generator --------------------------------------------------------------------------

func genRule(r *rng.R) (T float64, tmo, st uint32) {
	switch x := r.Intn(40); {
	case x < 24:
		T = r.PickF(1, 2, 3, 5, 10, 10, 100, 1000, 7.3, 2.5, 1.0000000000000002, 3.9999999999999996, 1e6)
	case x < 30:
		T = float64(r.Range(1, 50)) + r.PickF(0, 0, 0.5, 0.25, 1.0/3.0)
	case x < 33:
		T = r.PickF(1e9, 3e9, 1e12, 1e300, 4294967295, 4294967295.5, math.MaxFloat64)
	case x < 36:
		T = r.PickF(0, 0.5, 0.999, 1e-9, 5e-324)
	case x < 38:
		T = math.Inf(1)
	case x < 39:
		// (a NaN threshold can no longer be loaded: flow.IsValidRule rejects it since /repo 1e1f6ae)
		T = r.PickF(math.MaxFloat64, math.Inf(1), 0.75)
	default:
		T = float64(r.Range(1, 1000000)) / float64(r.Range(1, 1000))
	}
	tmo = uint32(r.PickI(0, 0, 1, 10, 100, 500, 500, 1000, 2000, 5000, 60000, 4294967295))
	st = uint32(r.PickI(0, 0, 0, 1000, 1000, 1, 10, 100, 500, 2000, 777, 60000, 4294967295))
	return
}

func genSeq(r *rng.R, id int) seqCase {
	c := seqCase{ID: id}
	T, tmo, st := genRule(r)
	c.T, c.TimeoutMs, c.StatMs = fl(T), tmo, st
	led := &ledger{T: T, statMs: st, maxq: int64(tmo) * 1000000}
	now := int64(t0ns) + r.Range(0, 5000000000)
	n := 6 + r.Intn(30)
	I := statNs(st)
	for i := 0; i < n; i++ {
		var b uint32
		switch x := r.Intn(20); {
		case x < 13:
			b = 1
		case x < 15:
			b = 2
		case x < 16:
			b = 0
		case x < 17:
			if T >= 1 && T < 4e9 {
				b = uint32(T)
			} else {
				b = 3
			}
		case x < 18:
			if T >= 1 && T < 4e9 {
				b = uint32(T) + 1
			} else {
				b = 1
			}
		case x < 19:
			b = uint32(r.Range(0, 6))
		default:
			b = uint32(r.PickI(4294967295, 4294967294, 65536))
		}
		iv := int64(0)
		if b > 0 && !early(T, b) && !math.IsNaN(T) {
			iv = ivOf(T, st, b)
		}
		// candidate arrival times, relative to the ledger: the idle boundary, the queueing
		// boundary, bursts, idle gaps
		var t int64
		switch x := r.Intn(16); {
		case x < 3:
			t = now
		case x < 4:
			t = now + 1
		case x < 6:
			t = led.last + iv + r.Range(-1, 1)
		case x < 9:
			t = led.last + iv - led.maxq + r.Range(-1, 1)
		case x < 11:
			t = now + r.Range(0, 2*iv+2)
		case x < 12:
			t = now + 10*I + r.Range(0, I)
		case x < 13:
			t = now + r.Range(0, I)
		case x < 14:
			t = led.last + iv - led.maxq/2
		default:
			t = now + r.Range(0, iv/4+1)
		}
		if t < now {
			t = now
		}
		if t > int64(t0ns)*2 {
			t = now
		}
		now = t
		c.Ops = append(c.Ops, reqT{Ns: uint64(now), B: b})
		if adm, w := led.expect(now, b); adm && b > 0 {
			led.last = now + w
		}
	}
	// every third case: one or two reloads that keep the throttling rule, with requests issued from inside
	if id%3 == 1 && !math.IsNaN(T) {
		g, from := 0, 1
		for k := 0; k < 2 && from < len(c.Ops)-1; k++ {
			s := from + r.Intn(len(c.Ops)-1-from)
			l := 1 + r.Intn(3)
			g++
			fails := r.Intn(3) == 0
			for j := s; j < s+l && j < len(c.Ops)-1; j++ {
				c.Ops[j].Reload, c.Ops[j].ReloadFails = g, fails
			}
			from = s + l + 1
		}
	}
	return c
}

// ---- run on the implementation ----------------------------------------------------------

// spinGuard: in a sequential run nobody interferes, so one DoCheck performs at most one CAS (yield 202).
// More than a few means the loop retries on its own - a livelock that would hang the harness (e.g. the
// CAS operands swapped): the call is aborted by a panic at the yield point and reported by the monitor.
type spinGuard struct {
	cas  int
	spun bool
}
type spinPanic struct{}

func (g *spinGuard) OnYield(id int) {
	if id == 202 {
		g.cas++
		if g.cas > 4 {
			g.spun = true
			panic(spinPanic{})
		}
	}
}

// guardedEntry: sentinel.Entry under the spin guard (the panic is recovered by the slot chain or here)
func guardedEntry(g *spinGuard, res string, opts ...sentinel.EntryOption) (e *base.SentinelEntry, berr *base.BlockError) {
	g.cas, g.spun = 0, false
	defer func() {
		if r := recover(); r != nil {
			if _, ok := r.(spinPanic); !ok {
				panic(r)
			}
			e, berr = nil, nil
		}
	}()
	return sentinel.Entry(res, opts...)
}

func runSeq(c seqCase, clk *vclock.Clock) []obsT {
	guard := &spinGuard{}
	vhook.SetController(guard)
	defer vhook.SetController(nil)
	res := "c10-" + strconv.Itoa(c.ID)
	rule := &flow.Rule{Resource: res, TokenCalculateStrategy: flow.Direct, ControlBehavior: flow.Throttling,
		Threshold: float64(c.T), MaxQueueingTimeMs: c.TimeoutMs, StatIntervalInMs: c.StatMs}
	// cases with reloads: a second rule that never blocks follows the throttling rule, and every reload adds a
	// rule served by the harness' generator (strategy pair 5/4), which issues the requests of the group
	hasReload := false
	for _, o := range c.Ops {
		hasReload = hasReload || o.Reload > 0
	}
	rules := []*flow.Rule{rule}
	if hasReload {
		rules = append(rules, &flow.Rule{Resource: res, TokenCalculateStrategy: flow.Direct, ControlBehavior: flow.Reject, Threshold: 1e18})
	}
	// Two cases in three start from a reload: a sibling rule that differs in exactly one field is in
	// force first and has admitted a request (so its controller holds a pass time); the case's rule
	// then replaces it.  A changed rule gets a fresh controller, so the model (fresh state, the case's
	// own parameters) is unchanged - a reload that kept the stale controller or its parameters shows.
	if len(c.Ops) > 0 && c.ID%3 != 0 && !math.IsNaN(float64(c.T)) {
		sib := *rule
		switch c.ID % 3 {
		case 1:
			if sib.MaxQueueingTimeMs >= 1000 {
				sib.MaxQueueingTimeMs = 0
			} else {
				sib.MaxQueueingTimeMs += 5000
			}
		case 2:
			if c.ID%2 == 0 {
				sib.Threshold = sib.Threshold*2 + 1
			} else if sib.StatIntervalInMs >= 2000 {
				sib.StatIntervalInMs = 1000
			} else {
				sib.StatIntervalInMs += 3000
			}
		}
		if _, err := flow.LoadRules([]*flow.Rule{&sib}); err != nil {
			panic(err)
		}
		clk.SetNs(c.Ops[0].Ns)
		if e, _ := guardedEntry(guard, res); e != nil {
			e.Exit()
		}
		clk.TakeSleeps()
	}
	if _, err := flow.LoadRules(rules); err != nil {
		panic(err)
	}
	if n := len(flow.GetRulesOfResource(res)); n != len(rules) {
		panic(fmt.Sprintf("case %d: rule not in force (%d rules)", c.ID, n))
	}
	var out []obsT
	// one request; true: the checker is live-locked, the case is over
	one := func(o reqT) bool {
		clk.SetNs(o.Ns)
		clk.TakeSleeps()
		e, berr := guardedEntry(guard, res, sentinel.WithBatchCount(o.B))
		sl := clk.TakeSleeps()
		if guard.spun {
			// the remaining requests are not issued
			for len(out) < len(c.Ops) {
				out = append(out, obsT{Pass: false, BType: "spin", NSlp: len(sl)})
			}
			if e != nil {
				e.Exit()
			}
			return true
		}
		var w int64
		for _, d := range sl {
			w += int64(d)
		}
		if berr != nil {
			bt := "other"
			if berr.BlockType() == base.BlockTypeFlow {
				bt = "flow"
			}
			out = append(out, obsT{Pass: false, BType: bt, NSlp: len(sl), Wait: w})
		} else {
			out = append(out, obsT{Pass: true, Wait: w, NSlp: len(sl)})
			e.Exit()
		}
		return false
	}
	for i := 0; i < len(c.Ops); i++ {
		o := c.Ops[i]
		if o.Reload > 0 {
			// one reload: the requests of the group run inside the generator the rebuild calls
			j := i
			for j < len(c.Ops) && c.Ops[j].Reload == o.Reload {
				j++
			}
			group := c.Ops[i:j]
			stop := false
			genAct = func() {
				for _, q := range group {
					if one(q) {
						stop = true
						return
					}
				}
				if o.ReloadFails {
					panic("vh-c10: generator fails")
				}
			}
			reload := append(append([]*flow.Rule{}, cloneRules(rules)...), &flow.Rule{Resource: res, TokenCalculateStrategy: genTcs, ControlBehavior: genCb, Threshold: 1e9 + float64(o.Reload)}) // a different list every time: an identical reload is a no-op
			_, err := flow.LoadRulesOfResource(res, reload)
			if genAct != nil {
				panic(fmt.Sprintf("case %d: the reload did not call the generator", c.ID))
			}
			if (err != nil) != o.ReloadFails {
				panic(fmt.Sprintf("case %d: reload error %v, expected failure %v", c.ID, err, o.ReloadFails))
			}
			if stop {
				return out
			}
			i = j - 1
			continue
		}
		if one(o) {
			return out
		}
	}
	return out
}

// the generator registered for the strategy pair genTcs / genCb runs genAct once and yields no controller
const (
	genTcs = flow.TokenCalculateStrategy(5)
	genCb  = flow.ControlBehavior(4)
)

var genAct func()
var errNoCtrl = fmt.Errorf("vh-c10: no controller for the generator rule")

func cloneRules(rs []*flow.Rule) []*flow.Rule {
	var out []*flow.Rule
	for _, r := range rs {
		c := *r
		out = append(out, &c)
	}
	return out
}

func init() {
	if err := flow.VerifSetGenerator(genTcs, genCb, func(*flow.Rule) error {
		if f := genAct; f != nil {
			genAct = nil
			f()
		}
		return errNoCtrl
	}); err != nil {
		panic(err)
	}
}

// ---- monitor: the property stated on the implementation's trace ----------------------------

func monitorSeq(c seqCase, obs []obsT, rep *emit.Report) (nontrivial bool) {
	T := float64(c.T)
	maxq := int64(c.TimeoutMs) * 1000000
	lastPass := int64(0) // no request yet: the checker starts from pass time 0
	var sawImm, sawWait, sawBlock bool
	fail := func(i int, clause, sig, format string, a ...interface{}) {
		rep.Fail(c.ID, clause, sig, fmt.Sprintf("op %d (t=%d b=%d): ", i, c.Ops[i].Ns, c.Ops[i].B)+fmt.Sprintf(format, a...), c)
	}
	for i, o := range c.Ops {
		now := int64(o.Ns)
		ob := obs[i]
		if ob.BType == "spin" {
			fail(i, "C10_seq_terminates", "sequential-caller-spins", "an uncontended DoCheck attempted more than 4 compare-and-swaps: the loop does not terminate")
			return
		}
		if o.B == 0 {
			if !ob.Pass || ob.Wait != 0 {
				fail(i, "C10_zero_batch_inert", "zero-batch-not-passed", "pass=%v wait=%d", ob.Pass, ob.Wait)
				return
			}
			continue // and it must not move the ledger: later clauses notice if it did
		}
		iv := ivOf(T, c.StatMs, o.B)
		if T > 0 && !math.IsInf(T, 0) && !early(T, o.B) {
			// the rounded-up float interval is not below the exact rational b*I/T by a whole ns:
			// (iv+1)*T >= b*I
			lhs := new(big.Rat).Mul(new(big.Rat).SetInt64(iv+1), new(big.Rat).SetFloat64(T))
			rhs := new(big.Rat).SetInt(new(big.Int).Mul(bi(int64(o.B)), bi(statNs(c.StatMs))))
			if lhs.Cmp(rhs) < 0 || iv < 1 {
				fail(i, "C10_interval_lower", "interval-below-exact", "interval %d ns for b=%d T=%v I=%d", iv, o.B, T, statNs(c.StatMs))
				return
			}
		}
		nw := needWait(lastPass, iv, now)
		if !ob.Pass {
			sawBlock = true
			if ob.BType != "flow" {
				fail(i, "C10_block_type", "wrong-block-type", "block type %s", ob.BType)
				return
			}
			if ob.NSlp != 0 {
				fail(i, "C10_wait_bound", "rejected-request-slept", "rejected but slept %d ns", ob.Wait)
				return
			}
			if !(early(T, o.B) || nw.Cmp(bi(maxq)) > 0) {
				fail(i, "C10_reject_only_if_needed", "spurious-rejection", "rejected although last pass %d + interval %d - now = %s <= max queueing %d", lastPass, iv, nw, maxq)
				return
			}
			continue
		}
		if early(T, o.B) {
			fail(i, "C10_reject_only_if_needed", "admitted-over-threshold", "admitted with threshold %v", T)
			return
		}
		if ob.Wait < 0 || ob.Wait > maxq {
			fail(i, "C10_wait_bound", "wait-exceeds-max-queueing", "wait %d ns, limit %d ns", ob.Wait, maxq)
			return
		}
		pass := now + ob.Wait
		if new(big.Int).Sub(bi(pass), bi(lastPass)).Cmp(bi(iv)) < 0 {
			fail(i, "C10_spacing", "pass-times-too-close", "pass time %d, previous %d, gap %d < interval %d", pass, lastPass, pass-lastPass, iv)
			return
		}
		if nw.Sign() <= 0 && ob.Wait != 0 {
			fail(i, "C10_no_banking", "idle-request-delayed", "resource idle (last pass %d + interval %d <= now) but asked to wait %d", lastPass, iv, ob.Wait)
			return
		}
		if ob.Wait > 0 {
			sawWait = true
		} else {
			sawImm = true
		}
		lastPass = pass
	}
	return sawImm && sawWait && sawBlock
}

func coqObs(o obsT) string {
	if o.Pass {
		return "Pass " + emit.Z(o.Wait)
	}
	return "Block"
}

func coqSeq(c seqCase, obs []obsT) string {
	var ops, os_, ivs []string
	seen := map[uint32]bool{}
	for i, o := range c.Ops {
		ops = append(ops, emit.Tuple(emit.U(o.Ns), emit.U(uint64(o.B))))
		os_ = append(os_, coqObs(obs[i]))
		if !seen[o.B] {
			seen[o.B] = true
			ivs = append(ivs, emit.Tuple(emit.U(uint64(o.B)), emit.Z(ivOf(float64(c.T), c.StatMs, o.B))))
		}
	}
	return fmt.Sprintf("Seq %d %s %d %d %s %s %s", c.ID, emit.F(float64(c.T)), c.TimeoutMs, c.StatMs, emit.List(ops), emit.List(os_), emit.List(ivs))
}

func thrClass(T float64) string {
	switch {
	case math.IsNaN(T):
		return "thr_nan"
	case math.IsInf(T, 1):
		return "thr_inf"
	case T == 0:
		return "thr_zero"
	case T < 1:
		return "thr_below_one"
	case T != math.Floor(T):
		return "thr_fractional"
	case T >= 1e9:
		return "thr_huge"
	}
	return "thr_integer"
}

func main() {
	a := cli.Parse()
	env.Init(env.Options{})
	clk := vclock.New(1700000000000)
	clk.AdvanceOnSleep = false
	clk.Install()
	root := rng.New(a.Seed)
	rep := emit.NewReport("C10", a.Seed, a.Tier)
	rep.Rule = "sequential: one throttling rule (threshold from integers, fractions, <1, 0, huge, +Inf, NaN; max queueing 0..2^32-1 ms; statistic interval 0(default),1..2^32-1 ms), 6-35 requests (batch 0,1,2,floor(T),floor(T)+1,2^32-1) at virtual ns arrival times aimed at the idle boundary (last+interval +-1), the queueing boundary (last+interval-maxq +-1), bursts and idle gaps. Non-trivial = the history contains an immediate pass, a pass with a positive wait and a rejection; distinct by full input. concurrent: see conc_* keys."
	nSeqCorr := a.Pick(a.N, 260, 5000)
	nSeqMon := a.Pick(a.Mon, 6000, 120000)
	nConcCorr := a.Pick(a.N, 120, 3000)
	nConcMon := a.Pick(a.Mon, 1500, 40000)
	if a.Search {
		nSeqCorr, nConcCorr = 0, 0
		nSeqMon *= 5
		nConcMon *= 5
	}
	var sh *emit.Shards
	if a.Only < 0 && !a.Search {
		var err error
		sh, err = emit.NewShards(a.Out, "Corr.Run_C10", a.Shards, "Open Scope Z_scope.")
		if err != nil {
			panic(err)
		}
	}
	dist := emit.NewDistinct()
	runOneSeq := func(id int, corr bool) {
		c := genSeq(root.Fork(uint64(id)), id)
		obs := runSeq(c, clk)
		rep.Evaluations++
		nt := monitorSeq(c, obs, rep)
		if nt {
			b, _ := json.Marshal(c)
			dist.Add(string(b))
		}
		rep.Count("seq_cases", 1)
		for k, o := range c.Ops {
			if o.Reload > 0 {
				rep.Count("seq_requests_issued_inside_a_reload", 1)
				if k == 0 || c.Ops[k-1].Reload != o.Reload {
					rep.Count("seq_reloads_keeping_the_throttling_rule", 1)
					if o.ReloadFails {
						rep.Count("seq_reloads_that_fail", 1)
					}
				}
			}
		}
		rep.Count(thrClass(float64(c.T)), 1)
		if c.TimeoutMs == 0 {
			rep.Count("maxq_zero", 1)
		}
		if c.StatMs == 0 {
			rep.Count("stat_interval_default", 1)
		}
		for i, o := range c.Ops {
			rep.Count("seq_requests", 1)
			switch {
			case !obs[i].Pass:
				rep.Count("seq_blocked", 1)
			case obs[i].Wait > 0:
				rep.Count("seq_pass_wait", 1)
			default:
				rep.Count("seq_pass_immediate", 1)
			}
			if o.B == 0 {
				rep.Count("batch_zero", 1)
			} else if o.B > 1 {
				rep.Count("batch_gt_one", 1)
			}
		}
		if corr && sh != nil {
			sh.Add(id, coqSeq(c, obs))
			rep.CorrCases++
			rep.CaseInputs[strconv.Itoa(id)] = c
			if nt {
				rep.Sample(map[string]interface{}{"input": c, "observed": obs})
			}
		}
		if a.Only >= 0 {
			out, _ := json.MarshalIndent(map[string]interface{}{"input": c, "observed": obs, "coq": coqSeq(c, obs)}, "", " ")
			fmt.Println(string(out))
		}
	}
	runOneConc := func(id int, corr bool) { runConcCase(a, root, rep, dist, sh, clk, id, corr) }
	if a.Only >= 0 {
		if a.Only == parID {
			parallelLeg(rep, clk)
		} else if a.Only >= concBase {
			runOneConc(a.Only, false)
		} else {
			runOneSeq(a.Only, false)
		}
		for _, f := range rep.MonitorFailures {
			fmt.Printf("MONITOR-FAIL clause=%s signature=%s %s\n", f.Clause, f.Signature, f.Detail)
		}
		return
	}
	for id := 0; id < nSeqMon; id++ {
		runOneSeq(id, id < nSeqCorr)
	}
	for j := 0; j < nConcMon; j++ {
		runOneConc(concBase+j, j < nConcCorr)
	}
	parallelLeg(rep, clk) // real-thread search leg (schedule-independent assertions only)
	rep.DistinctNontrivial = dist.N()
	rep.Consts["flow.MillisToNanosOffset"] = flow.MillisToNanosOffset
	rep.Consts["flow.RuleCheckSlotOrder"] = flow.RuleCheckSlotOrder
	if sh != nil {
		rep.Shards = sh.Close()
	}
	if err := rep.Write(a.Out); err != nil {
		fmt.Fprintln(os.Stderr, err)
		os.Exit(2)
	}
}
