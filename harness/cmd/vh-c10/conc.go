//go:build verif

package main

import (
	"vh/internal/cli"
	"vh/internal/emit"
	"vh/internal/rng"
	"vh/internal/vclock"
)

const concBase = 100000

func runConcCase(a cli.Args, root *rng.R, rep *emit.Report, dist *emit.Distinct, sh *emit.Shards, clk *vclock.Clock, id int, corr bool) {
}
