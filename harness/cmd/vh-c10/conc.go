//go:build verif

package main

import (
	"encoding/json"
	"fmt"
	"sort"
	"strconv"

	sentinel "github.com/alibaba/sentinel-golang/api"
	"github.com/alibaba/sentinel-golang/core/base"
	"github.com/alibaba/sentinel-golang/core/flow"

	"vh/internal/cli"
	"vh/internal/emit"
	"vh/internal/rng"
	"vh/internal/sched"
	"vh/internal/vclock"
)

// Concurrent callers: k goroutines each perform one sentinel.Entry on a resource with one
// throttling rule; the deterministic scheduler parks them at the yield points that precede
// every atomic access of ThrottlingChecker.DoCheck (201 = Load, 202 = CAS of the compare-and-swap
// loop; ids 203..205 stay active so that a tree with the former Add / rollback protocol is still
// stepped access by access); the schedule interleaves single steps of callers with moves of the
// virtual clock.

const concBase = 100000

type evT struct {
	Kind string `json:"kind"` // run | clock
	Tid  int    `json:"tid,omitempty"`
	Ns   uint64 `json:"ns,omitempty"`
}

type concCase struct {
	ID        int      `json:"id"`
	Name      string   `json:"name,omitempty"`
	T         fl       `json:"threshold"`
	TimeoutMs uint32   `json:"max_queueing_ms"`
	StatMs    uint32   `json:"stat_interval_ms"`
	Batches   []uint32 `json:"batches"`
	Events    []evT    `json:"events"`
}

type concObs struct {
	Labels   []int   `json:"labels"` // per event: label the stepped caller parks at (0 for clock events)
	Ats      []int   `json:"-"`      // per event: label the stepped caller was parked at before
	Out      []obsT  `json:"outcomes"`
	Arrival  []int64 `json:"arrivals"`
	Paths    [][]int `json:"paths"` // per caller: the labels it was parked at before each of its steps
	StepIdx  [][]int `json:"-"`     // per caller: event index of each of its steps
	Finished bool    `json:"finished"`
	Stuck    []int   `json:"stuck,omitempty"` // callers that did not return even when stepped alone
}

func run(tid int) evT     { return evT{Kind: "run", Tid: tid} }
func clock(ns uint64) evT { return evT{Kind: "clock", Ns: ns} }
func runN(tid, n int) []evT {
	var e []evT
	for i := 0; i < n; i++ {
		e = append(e, run(tid))
	}
	return e
}
func cat(xs ...[]evT) []evT {
	var e []evT
	for _, x := range xs {
		e = append(e, x...)
	}
	return e
}
func one(e evT) []evT { return []evT{e} }

// finishAll: every caller alone for 6 steps (no-ops for callers that have returned)
func finishAll(k int) []evT {
	var e []evT
	for i := 0; i < k; i++ {
		e = append(e, runN(i, 6)...)
	}
	return e
}

const sec = uint64(1000000000)

// Regression witnesses: the schedules that broke the former load / CAS-if-idle / Add / rollback
// protocol (findings C10-F1 and C10-F2, repaired by /repo 65f15f6).  On the CAS loop they are
// ordinary schedules (steps of a finished caller are no-ops); on a tree without the repair they
// reproduce the two races step for step.

// witnessD8Old: the D8 schedule with the step counts of the former protocol (yields 201..205).
// Callers: 0=R0 1=A 2=D 3=B 4=C. threshold 1/s, max queueing 500 ms.
// Former protocol: A (+0.5) is parked between Add(+interval) and Add(-interval) while the clock
// moves to +2.5; B is admitted on the inflated value (+3.0); after A's rollback C gets +3.0 too.
// CAS loop: A is scheduled for +1.0, D and C are rejected, B passes at +2.5.
func witnessD8Old(id int) concCase {
	t := t0ns
	return concCase{ID: id, Name: "D8-rollback-overlap", T: 1, TimeoutMs: 500, StatMs: 0, Batches: []uint32{1, 1, 1, 1, 1},
		Events: cat(one(clock(t)), runN(0, 3),
			one(clock(t+sec/2)), runN(1, 3),
			runN(2, 4),
			runN(1, 1),
			one(clock(t+5*sec/2)), runN(3, 4),
			runN(1, 1),
			runN(4, 4), finishAll(5))}
}

// witnessStale: lost CAS against a caller with an older clock reading.
// Callers: 0=B 1=A 2=C. threshold 1/s, max queueing 500 ms.
// B reads the clock (+0.0) and stalls; A (+3.0) loads the initial value and is parked before its
// CAS; B loads and wins the CAS (stored +0.0); A's CAS fails.  Former protocol: A falls through to
// Add with a negative estimated wait, passes at +3.0 while the stored time is +1.0, and C (+3.0)
// passes at +3.0 as well.  CAS loop: A reloads +0.0, passes at +3.0 and stores +3.0; C is rejected.
func witnessStale(id int) concCase {
	t := t0ns
	return concCase{ID: id, Name: "stale-clock-lost-cas", T: 1, TimeoutMs: 500, StatMs: 0, Batches: []uint32{1, 1, 1},
		Events: cat(one(clock(t)), runN(0, 1),
			one(clock(t+3*sec)), runN(1, 2),
			runN(0, 2),
			runN(1, 3),
			runN(2, 3), finishAll(3))}
}

// witnessD8: the D8 situation in the steps of the CAS loop (Coq: C10_conc_d8_regression).
// A (+0.5) is parked before its CAS; D (+0.5) is scheduled for +1.0; A's CAS fails; the clock
// moves to +2.5; B passes at +2.5; A reloads and is rejected (its clock reading is stale);
// C (+3.2) is scheduled for +3.5.
func witnessD8(id int) concCase {
	t := t0ns
	return concCase{ID: id, Name: "D8-cas-loop", T: 1, TimeoutMs: 500, StatMs: 0, Batches: []uint32{1, 1, 1, 1, 1},
		Events: cat(one(clock(t)), runN(0, 3),
			one(clock(t+sec/2)), runN(1, 2),
			runN(2, 3),
			runN(1, 1),
			one(clock(t+5*sec/2)), runN(3, 3),
			runN(1, 1),
			one(clock(t+16*sec/5)), runN(4, 3), finishAll(5))}
}

// witnessLosesTwice: three callers contend on one compare-and-swap and one of them loses the race twice.
// Callers: 0=A 1=B 2=C. threshold 1/s, max queueing 10 s, all arrive at +0.0.
// A loads the initial value and is parked before its CAS; B is scheduled for +0.0; A's CAS fails, A reloads
// (+0.0) and is parked again; C is scheduled for +1.0; A's second CAS fails too; A reloads +1.0 and is
// scheduled for +2.0 (wait 2 s, far below the limit).  A loop that gave up after some attempts would
// reject A although honouring the spacing needs only 2 s.
func witnessLosesTwice(id int) concCase {
	t := t0ns
	return concCase{ID: id, Name: "cas-lost-twice", T: 1, TimeoutMs: 10000, StatMs: 0, Batches: []uint32{1, 1, 1},
		Events: cat(one(clock(t)), runN(0, 2),
			runN(1, 3),
			runN(0, 2),
			runN(2, 3),
			runN(0, 1), finishAll(3))}
}

// witnessLosesOften: the same with five callers: caller 0 loses four races in a row and is scheduled last.
func witnessLosesOften(id int) concCase {
	t := t0ns
	ev := cat(one(clock(t)), runN(0, 2))
	for other := 1; other <= 4; other++ {
		ev = cat(ev, runN(other, 3), runN(0, 2))
	}
	return concCase{ID: id, Name: "cas-lost-four-times", T: 2, TimeoutMs: 60000, StatMs: 0, Batches: []uint32{1, 1, 1, 1, 1},
		Events: cat(ev, finishAll(5))}
}

func genConc(r *rng.R, id int) concCase {
	switch id - concBase {
	case 3:
		return witnessLosesTwice(id)
	case 4:
		return witnessLosesOften(id)
	case 0:
		return witnessD8Old(id)
	case 1:
		return witnessStale(id)
	case 2:
		return witnessD8(id)
	}
	c := concCase{ID: id}
	c.T = fl(r.PickF(1, 1, 2, 5, 10, 2.5, 1000))
	c.StatMs = uint32(r.PickI(0, 1000, 100, 2000))
	iv := ivOf(float64(c.T), c.StatMs, 1)
	ivMs := iv / 1000000
	if ivMs < 1 {
		ivMs = 1
	}
	c.TimeoutMs = uint32(r.PickI(0, ivMs/2, ivMs/2, ivMs, 2*ivMs, 3*ivMs, 10*ivMs))
	k := 2 + r.Intn(4)
	for i := 0; i < k; i++ {
		c.Batches = append(c.Batches, uint32(r.PickI(1, 1, 1, 1, 2, 0, 3)))
	}
	now := t0ns + uint64(r.Range(0, 1000000000))
	c.Events = append(c.Events, clock(now))
	if r.Chance(7, 10) { // a first caller runs alone so that the stored time is near the clock
		c.Events = append(c.Events, runN(0, 3)...)
	}
	steps := 4*k + r.Intn(3*k)
	for i := 0; i < steps; i++ {
		if r.Chance(1, 4) {
			switch r.Intn(6) {
			case 0:
				now += uint64(iv / 2)
			case 1:
				now += uint64(iv)
			case 2:
				now += uint64(2*iv) + uint64(r.Range(0, iv))
			case 3:
				now += uint64(r.Range(0, iv/4+1))
			case 4:
				now += 1
			default:
				now += uint64(3 * iv)
			}
			c.Events = append(c.Events, clock(now))
		}
		tid := r.Intn(k)
		n := 1
		if r.Chance(1, 3) {
			n = 1 + r.Intn(4)
		}
		c.Events = append(c.Events, runN(tid, n)...)
	}
	// let every caller finish: two interleaved rounds, then each caller alone (a caller that
	// nobody interferes with needs at most 3 steps in the CAS loop; 6 covers the former protocol)
	for round := 0; round < 2; round++ {
		for _, tid := range r.Perm(k) {
			c.Events = append(c.Events, run(tid))
		}
	}
	for _, tid := range r.Perm(k) {
		c.Events = append(c.Events, runN(tid, 6)...)
	}
	return c
}

func runConc(c concCase, clk *vclock.Clock) concObs {
	res := "c10k-" + strconv.Itoa(c.ID)
	rule := &flow.Rule{Resource: res, TokenCalculateStrategy: flow.Direct, ControlBehavior: flow.Throttling,
		Threshold: float64(c.T), MaxQueueingTimeMs: c.TimeoutMs, StatIntervalInMs: c.StatMs}
	if _, err := flow.LoadRules([]*flow.Rule{rule}); err != nil {
		panic(err)
	}
	s := sched.New(func(id int) bool { return id >= 201 && id <= 205 })
	defer s.Close()
	k := len(c.Batches)
	o := concObs{Out: make([]obsT, k), Arrival: make([]int64, k), Paths: make([][]int, k), StepIdx: make([][]int, k)}
	passed := make([]bool, k)
	btype := make([]string, k)
	for i := 0; i < k; i++ {
		i := i
		s.Spawn(func() {
			e, berr := sentinel.Entry(res, sentinel.WithBatchCount(c.Batches[i]))
			if berr != nil {
				btype[i] = "other"
				if berr.BlockType() == base.BlockTypeFlow {
					btype[i] = "flow"
				}
				return
			}
			passed[i] = true
			e.Exit()
		})
	}
	waits := make([]int64, k)
	nslp := make([]int, k)
	for ei, e := range c.Events {
		if e.Kind == "clock" {
			clk.SetNs(e.Ns)
			o.Labels = append(o.Labels, 0)
			o.Ats = append(o.Ats, 0)
			continue
		}
		at := s.At(e.Tid)
		if at == sched.Start {
			o.Arrival[e.Tid] = int64(clk.CurrentTimeNano())
		}
		clk.TakeSleeps()
		l := s.Step(e.Tid)
		if l == -2 {
			panic(fmt.Sprintf("case %d: caller %d blocked outside a yield point", c.ID, e.Tid))
		}
		if p := s.Panic(e.Tid); p != nil {
			panic(fmt.Sprintf("case %d: caller %d panicked: %v", c.ID, e.Tid, p))
		}
		for _, d := range clk.TakeSleeps() {
			waits[e.Tid] += int64(d)
			nslp[e.Tid]++
		}
		o.Labels = append(o.Labels, l)
		o.Ats = append(o.Ats, at)
		if at != sched.Done {
			o.Paths[e.Tid] = append(o.Paths[e.Tid], at)
			o.StepIdx[e.Tid] = append(o.StepIdx[e.Tid], ei)
		}
	}
	o.Finished = true
	for i := 0; i < k; i++ {
		if !s.IsDone(i) {
			o.Finished = false
			// bounded: a caller that spins (a CAS that can never succeed) stays parked for good
			for n := 0; n < 2*k+8 && !s.IsDone(i); n++ {
				if s.Step(i) == -2 {
					break
				}
			}
			if !s.IsDone(i) {
				o.Stuck = append(o.Stuck, i)
			}
		}
		o.Out[i] = obsT{Pass: passed[i], Wait: waits[i], NSlp: nslp[i], BType: btype[i]}
	}
	return o
}

// Signatures of the two races of the former Add / rollback protocol (findings C10-F1, C10-F2,
// repaired).  They can only come up on a tree that still has the yield points 204/205.
const (
	sigD8    = "rollback-overlaps-admission-pass-times-too-close"
	sigStale = "lost-cas-stale-clock-add-admitted-without-wait-pass-times-too-close"
)

func contains(xs []int, v int) bool {
	for _, x := range xs {
		if x == v {
			return true
		}
	}
	return false
}

// monitorConc: the property on the implementation's concurrent trace.  The monitor keeps its own
// ledger (the latest pass time handed out, in the order of the successful compare-and-swaps it
// sees in the trace) and never reads the checker's field.
func monitorConc(c concCase, o concObs, rep *emit.Report) (overlap bool) {
	T := float64(c.T)
	maxq := int64(c.TimeoutMs) * 1000000
	k := len(c.Batches)
	failed := false
	fail := func(clause, sig, format string, a ...interface{}) {
		if failed { // one failure per case: the first clause that breaks
			return
		}
		failed = true
		rep.Fail(c.ID, clause, sig, fmt.Sprintf(format, a...), c)
	}
	if len(o.Stuck) > 0 {
		fail("C10_conc_lock_free", "caller-spins-alone", "callers %v did not return although stepped alone for %d steps", o.Stuck, 2*k+8)
		return
	}
	if !o.Finished {
		// every generated schedule ends with 6 steps of each caller alone; the outcomes below are
		// those after letting the late callers run on; reported unless another clause breaks first
		defer fail("C10_conc_lock_free", "caller-did-not-finish-in-six-steps-alone", "a caller needed more than 6 steps with nobody interfering")
	}
	type gr struct {
		tid  int
		pass int64
		b    uint32
	}
	var grants []gr
	for i := 0; i < k; i++ {
		ob := o.Out[i]
		b := c.Batches[i]
		if b == 0 {
			if !ob.Pass || ob.Wait != 0 {
				fail("C10_zero_batch_inert", "zero-batch-not-passed", "caller %d: pass=%v wait=%d", i, ob.Pass, ob.Wait)
			}
			continue
		}
		if !ob.Pass {
			if ob.BType != "flow" {
				fail("C10_block_type", "wrong-block-type", "caller %d", i)
			}
			if ob.NSlp != 0 {
				fail("C10_conc_wait_bound", "rejected-request-slept", "caller %d slept %d ns", i, ob.Wait)
			}
			continue
		}
		if early(T, b) {
			fail("C10_conc_reject_only_if_needed", "admitted-over-threshold", "caller %d batch %d threshold %v", i, b, T)
			continue
		}
		if ob.Wait < 0 || ob.Wait > maxq {
			fail("C10_conc_wait_bound", "wait-exceeds-max-queueing", "caller %d: wait %d ns, limit %d ns", i, ob.Wait, maxq)
		}
		grants = append(grants, gr{i, o.Arrival[i] + ob.Wait, b}) // pass >= arrival because wait >= 0
	}
	// former protocol only: a rollback that overlaps another caller's access, or a stale add
	overlapRollback, staleAdd := false, false
	for i := 0; i < k; i++ {
		p := o.Paths[i]
		for j := range p {
			if p[j] == 205 && j > 0 { // step j is the rollback, step j-1 the add
				lo, hi := o.StepIdx[i][j-1], o.StepIdx[i][j]
				for ei := lo + 1; ei < hi; ei++ {
					if c.Events[ei].Kind == "run" && c.Events[ei].Tid != i && o.Ats[ei] >= 201 && o.Ats[ei] <= 205 {
						overlapRollback = true
					}
				}
			}
		}
		if o.Out[i].Pass && c.Batches[i] > 0 && contains(p, 202) && contains(p, 204) && o.Out[i].Wait == 0 {
			staleAdd = true
		}
	}
	overlap = overlapRollback || staleAdd
	// spacing: consecutive pass times (sorted) at least the later request's interval apart
	sort.SliceStable(grants, func(a, b int) bool { return grants[a].pass < grants[b].pass })
	for j := 1; j < len(grants); j++ {
		g0, g1 := grants[j-1], grants[j]
		need := ivOf(T, c.StatMs, g1.b)
		if g0.pass == g1.pass {
			if n0 := ivOf(T, c.StatMs, g0.b); n0 < need {
				need = n0
			}
		}
		if g1.pass-g0.pass < need {
			sig := "conc-pass-times-too-close"
			switch {
			case overlapRollback:
				sig = sigD8
			case staleAdd:
				sig = sigStale
			}
			fail("C10_conc_spacing", sig, "callers %d and %d: pass times %d and %d, gap %d ns < interval %d ns", g0.tid, g1.tid, g0.pass, g1.pass, g1.pass-g0.pass, need)
			break
		}
	}
	// the trace step by step against the ledger: at its Load (a step from 201) a caller sees the
	// ledger; a step from 202 that ends the call with a pass is a successful CAS and moves the
	// ledger to that caller's pass time; a step from 202 back to 201 is a failed CAS
	ledger := int64(0) // the checker starts from pass time 0
	seen := make([]int64, k)
	loadAt := make([]int, k)
	for i := range loadAt {
		loadAt[i] = -1
	}
	lastSucc, lastSuccTid := -1, -1 // event index / caller of the latest successful CAS
	for ei, e := range c.Events {
		if e.Kind != "run" {
			continue
		}
		i, at, l := e.Tid, o.Ats[ei], o.Labels[ei]
		b := c.Batches[i]
		switch {
		case at == 201:
			seen[i], loadAt[i] = ledger, ei
			if l == sched.Done && !o.Out[i].Pass && b > 0 && !early(T, b) {
				// rejected on the value it loaded: honouring the spacing must need more than the limit
				nw := needWait(seen[i], ivOf(T, c.StatMs, b), o.Arrival[i])
				if nw.Cmp(bi(maxq)) <= 0 {
					fail("C10_conc_reject_only_if_needed", "conc-spurious-rejection", "caller %d rejected although latest pass %d + interval %d - arrival %d = %s <= limit %d", i, seen[i], ivOf(T, c.StatMs, b), o.Arrival[i], nw, maxq)
				}
			}
		case at == 202 && l == sched.Done && o.Out[i].Pass:
			if b > 0 && !early(T, b) {
				nw := needWait(seen[i], ivOf(T, c.StatMs, b), o.Arrival[i])
				if nw.Sign() <= 0 && o.Out[i].Wait != 0 {
					fail("C10_conc_no_banking", "conc-idle-request-delayed", "caller %d found the resource idle (latest pass %d + interval <= arrival %d) but was asked to wait %d", i, seen[i], o.Arrival[i], o.Out[i].Wait)
				}
				ledger = o.Arrival[i] + o.Out[i].Wait
				lastSucc, lastSuccTid = ei, i
			}
		case at == 202 && l == sched.Done && !o.Out[i].Pass && b > 0 && !early(T, b):
			// a compare-and-swap step never ends a call with a rejection: a caller is rejected only on a value
			// it loaded (needing more than the limit), however many races it has lost
			nw := needWait(ledger, ivOf(T, c.StatMs, b), o.Arrival[i])
			fail("C10_conc_reject_only_if_needed", "conc-rejected-after-lost-cas", "caller %d was rejected at its compare-and-swap (event %d) after losing the race; latest pass %d + interval %d - arrival %d = %s, limit %d", i, ei, ledger, ivOf(T, c.StatMs, b), o.Arrival[i], nw, maxq)
		case at == 202 && l == 201:
			// failed CAS: another caller's CAS must have succeeded since this caller's load
			// (a caller still in its loop has not succeeded itself)
			if !(lastSucc > loadAt[i] && lastSuccTid != i) {
				fail("C10_conc_lock_free", "cas-failed-without-concurrent-success", "caller %d: CAS failed at event %d although no other caller's CAS succeeded since its load at event %d", i, ei, loadAt[i])
			}
		}
	}
	return
}

func coqConc(c concCase, o concObs) string {
	var bs, evs, ls, outs []string
	for _, b := range c.Batches {
		bs = append(bs, emit.U(uint64(b)))
	}
	for _, e := range c.Events {
		if e.Kind == "clock" {
			evs = append(evs, "SetClock "+emit.U(e.Ns))
		} else {
			evs = append(evs, fmt.Sprintf("Run %d", e.Tid))
		}
	}
	for _, l := range o.Labels {
		ls = append(ls, emit.Z(int64(l)))
	}
	for _, ob := range o.Out {
		outs = append(outs, coqObs(ob))
	}
	return fmt.Sprintf("Conc %d %s %d %d %s %s %s %s", c.ID, emit.F(float64(c.T)), c.TimeoutMs, c.StatMs, emit.List(bs), emit.List(evs), emit.List(ls), emit.List(outs))
}

func runConcCase(a cli.Args, root *rng.R, rep *emit.Report, dist *emit.Distinct, sh *emit.Shards, clk *vclock.Clock, id int, corr bool) {
	c := genConc(root.Fork(uint64(id)), id)
	o := runConc(c, clk)
	rep.Evaluations++
	overlap := monitorConc(c, o, rep)
	rep.Count("conc_cases", 1)
	rep.Count("conc_events", len(c.Events))
	rep.Count("conc_callers", len(c.Batches))
	inter := false // at least two callers simultaneously inside DoCheck
	{
		open := map[int]bool{}
		for ei, e := range c.Events {
			if e.Kind != "run" {
				continue
			}
			l := o.Labels[ei]
			if l >= 201 {
				open[e.Tid] = true
			} else {
				delete(open, e.Tid)
			}
			if len(open) >= 2 {
				inter = true
			}
		}
	}
	if inter {
		rep.Count("conc_interleaved", 1)
		b, _ := json.Marshal(c)
		dist.Add(string(b))
	}
	if overlap {
		rep.Count("conc_rollback_overlap_or_stale_add", 1)
	}
	for i := range c.Batches {
		if contains(o.Paths[i], 205) {
			rep.Count("conc_rollbacks", 1)
		}
		for j := 1; j < len(o.Paths[i]); j++ {
			if o.Paths[i][j-1] == 202 && o.Paths[i][j] == 201 {
				rep.Count("conc_failed_cas", 1)
			}
		}
		if !o.Out[i].Pass && o.Arrival[i] != 0 && len(o.Paths[i]) >= 2 {
			// rejected on a loaded value: was its clock reading older than the clock at its load?
			rep.Count("conc_rejected_at_load", 1)
		}
		if o.Out[i].Pass {
			rep.Count("conc_admitted", 1)
		} else {
			rep.Count("conc_rejected", 1)
		}
	}
	if corr && sh != nil {
		sh.Add(id, coqConc(c, o))
		rep.CorrCases++
		rep.CaseInputs[strconv.Itoa(id)] = c
		if id == concBase {
			rep.Sample(map[string]interface{}{"input": c, "observed": o})
		}
	}
	if a.Only >= 0 {
		out, _ := json.MarshalIndent(map[string]interface{}{"input": c, "observed": o, "coq": coqConc(c, o)}, "", " ")
		fmt.Println(string(out))
	}
}
