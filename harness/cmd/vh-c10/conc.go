//go:build verif

package main

import (
	"encoding/json"
	"fmt"
	"sort"
	"strconv"

	sentinel "github.com/alibaba/sentinel-golang/api"
	"github.com/alibaba/sentinel-golang/core/base"
	"github.com/alibaba/sentinel-golang/core/flow"

	"vh/internal/cli"
	"vh/internal/emit"
	"vh/internal/rng"
	"vh/internal/sched"
	"vh/internal/vclock"
)

// Concurrent callers: k goroutines each perform one sentinel.Entry on a resource with one
// throttling rule; the deterministic scheduler parks them at the yield points 201..205 that
// precede every atomic access of ThrottlingChecker.DoCheck; the schedule interleaves single
// steps of callers with moves of the virtual clock.

const concBase = 100000

type evT struct {
	Kind string `json:"kind"` // run | clock
	Tid  int    `json:"tid,omitempty"`
	Ns   uint64 `json:"ns,omitempty"`
}

type concCase struct {
	ID        int      `json:"id"`
	Name      string   `json:"name,omitempty"`
	T         fl       `json:"threshold"`
	TimeoutMs uint32   `json:"max_queueing_ms"`
	StatMs    uint32   `json:"stat_interval_ms"`
	Batches   []uint32 `json:"batches"`
	Events    []evT    `json:"events"`
}

type concObs struct {
	Labels   []int   `json:"labels"` // per event: label the stepped caller parks at (0 for clock events)
	Ats      []int   `json:"-"`      // per event: label the stepped caller was parked at before
	Out      []obsT  `json:"outcomes"`
	Arrival  []int64 `json:"arrivals"`
	Paths    [][]int `json:"paths"` // per caller: the labels it was parked at before each of its steps
	StepIdx  [][]int `json:"-"`     // per caller: event index of each of its steps
	Finished bool    `json:"finished"`
}

func run(tid int) evT     { return evT{Kind: "run", Tid: tid} }
func clock(ns uint64) evT { return evT{Kind: "clock", Ns: ns} }
func runN(tid, n int) []evT {
	var e []evT
	for i := 0; i < n; i++ {
		e = append(e, run(tid))
	}
	return e
}
func cat(xs ...[]evT) []evT {
	var e []evT
	for _, x := range xs {
		e = append(e, x...)
	}
	return e
}
func one(e evT) []evT { return []evT{e} }

const sec = uint64(1000000000)

// witnessD8: add/rollback overlapping another caller's admission (DESIGN section 8, D8).
// Callers: 0=R0 1=A 2=D 3=B 4=C. threshold 1/s, max queueing 500 ms.
func witnessD8(id int) concCase {
	t := t0ns
	return concCase{ID: id, Name: "D8-rollback-overlap", T: 1, TimeoutMs: 500, StatMs: 0, Batches: []uint32{1, 1, 1, 1, 1},
		Events: cat(one(clock(t)), runN(0, 3), // R0 passes at +0.0 by CAS
			one(clock(t+sec/2)), runN(1, 3), // A (+0.5) passed the 203 test, parked before its Add
			runN(2, 4),                        // D (+0.5) is scheduled for +1.0
			runN(1, 1),                        // A adds: +2.0, over the limit, parked before its rollback
			one(clock(t+5*sec/2)), runN(3, 4), // B (+2.5) is admitted on the inflated value: pass +3.0
			runN(1, 1),  // A rolls back: stored time +2.0
			runN(4, 4))} // C (+2.5): pass +3.0 again
}

// witnessStale: the loser of a CAS whose clock reading is older... rather: the winner's
// reading is older than the loser's by more than two intervals; the loser is admitted by Add
// with a negative estimated wait (sleeps 0, passes now) while the stored time stays in the past.
// Callers: 0=B 1=A 2=C. threshold 1/s, max queueing 500 ms.
func witnessStale(id int) concCase {
	t := t0ns
	return concCase{ID: id, Name: "stale-add-after-lost-cas", T: 1, TimeoutMs: 500, StatMs: 0, Batches: []uint32{1, 1, 1},
		Events: cat(one(clock(t)), runN(0, 1), // B reads the clock (+0.0)
			one(clock(t+3*sec)), runN(1, 2), // A (+3.0) loaded the initial value, parked before its CAS
			runN(0, 2),  // B loads and wins the CAS: stored +0.0, passes
			runN(1, 3),  // A loses the CAS, est = +1.0 - +3.0 < 0: Add, stored +1.0, A passes at +3.0 with wait 0
			runN(2, 3))} // C (+3.0): stored +1.0 + 1 s <= now: CAS to +3.0, passes at +3.0 as well
}

func genConc(r *rng.R, id int) concCase {
	switch id - concBase {
	case 0:
		return witnessD8(id)
	case 1:
		return witnessStale(id)
	}
	c := concCase{ID: id}
	c.T = fl(r.PickF(1, 1, 2, 5, 10, 2.5, 1000))
	c.StatMs = uint32(r.PickI(0, 1000, 100, 2000))
	iv := ivOf(float64(c.T), c.StatMs, 1)
	ivMs := iv / 1000000
	if ivMs < 1 {
		ivMs = 1
	}
	c.TimeoutMs = uint32(r.PickI(0, ivMs/2, ivMs/2, ivMs, 2*ivMs, 3*ivMs, 10*ivMs))
	k := 2 + r.Intn(4)
	for i := 0; i < k; i++ {
		c.Batches = append(c.Batches, uint32(r.PickI(1, 1, 1, 1, 2, 0, 3)))
	}
	now := t0ns + uint64(r.Range(0, 1000000000))
	c.Events = append(c.Events, clock(now))
	if r.Chance(7, 10) { // a first caller runs alone so that the stored time is near the clock
		c.Events = append(c.Events, runN(0, 3)...)
	}
	steps := 4*k + r.Intn(3*k)
	for i := 0; i < steps; i++ {
		if r.Chance(1, 4) {
			switch r.Intn(6) {
			case 0:
				now += uint64(iv / 2)
			case 1:
				now += uint64(iv)
			case 2:
				now += uint64(2*iv) + uint64(r.Range(0, iv))
			case 3:
				now += uint64(r.Range(0, iv/4+1))
			case 4:
				now += 1
			default:
				now += uint64(3 * iv)
			}
			c.Events = append(c.Events, clock(now))
		}
		tid := r.Intn(k)
		n := 1
		if r.Chance(1, 3) {
			n = 1 + r.Intn(4)
		}
		c.Events = append(c.Events, runN(tid, n)...)
	}
	// let every caller finish (at most 6 steps each), in a random order
	for round := 0; round < 6; round++ {
		for _, tid := range r.Perm(k) {
			c.Events = append(c.Events, run(tid))
		}
	}
	return c
}

func runConc(c concCase, clk *vclock.Clock) concObs {
	res := "c10k-" + strconv.Itoa(c.ID)
	rule := &flow.Rule{Resource: res, TokenCalculateStrategy: flow.Direct, ControlBehavior: flow.Throttling,
		Threshold: float64(c.T), MaxQueueingTimeMs: c.TimeoutMs, StatIntervalInMs: c.StatMs}
	if _, err := flow.LoadRules([]*flow.Rule{rule}); err != nil {
		panic(err)
	}
	s := sched.New(func(id int) bool { return id >= 201 && id <= 205 })
	defer s.Close()
	k := len(c.Batches)
	o := concObs{Out: make([]obsT, k), Arrival: make([]int64, k), Paths: make([][]int, k), StepIdx: make([][]int, k)}
	passed := make([]bool, k)
	btype := make([]string, k)
	for i := 0; i < k; i++ {
		i := i
		s.Spawn(func() {
			e, berr := sentinel.Entry(res, sentinel.WithBatchCount(c.Batches[i]))
			if berr != nil {
				btype[i] = "other"
				if berr.BlockType() == base.BlockTypeFlow {
					btype[i] = "flow"
				}
				return
			}
			passed[i] = true
			e.Exit()
		})
	}
	waits := make([]int64, k)
	nslp := make([]int, k)
	for ei, e := range c.Events {
		if e.Kind == "clock" {
			clk.SetNs(e.Ns)
			o.Labels = append(o.Labels, 0)
			o.Ats = append(o.Ats, 0)
			continue
		}
		at := s.At(e.Tid)
		if at == sched.Start {
			o.Arrival[e.Tid] = int64(clk.CurrentTimeNano())
		}
		clk.TakeSleeps()
		l := s.Step(e.Tid)
		if l == -2 {
			panic(fmt.Sprintf("case %d: caller %d blocked outside a yield point", c.ID, e.Tid))
		}
		if p := s.Panic(e.Tid); p != nil {
			panic(fmt.Sprintf("case %d: caller %d panicked: %v", c.ID, e.Tid, p))
		}
		for _, d := range clk.TakeSleeps() {
			waits[e.Tid] += int64(d)
			nslp[e.Tid]++
		}
		o.Labels = append(o.Labels, l)
		o.Ats = append(o.Ats, at)
		if at != sched.Done {
			o.Paths[e.Tid] = append(o.Paths[e.Tid], at)
			o.StepIdx[e.Tid] = append(o.StepIdx[e.Tid], ei)
		}
	}
	o.Finished = true
	for i := 0; i < k; i++ {
		if !s.IsDone(i) {
			o.Finished = false
			s.Finish(i)
		}
		o.Out[i] = obsT{Pass: passed[i], Wait: waits[i], NSlp: nslp[i], BType: btype[i]}
	}
	return o
}

const (
	sigD8    = "rollback-overlaps-admission-pass-times-too-close"
	sigStale = "lost-cas-stale-clock-add-admitted-without-wait-pass-times-too-close"
)

func contains(xs []int, v int) bool {
	for _, x := range xs {
		if x == v {
			return true
		}
	}
	return false
}

// monitorConc: the property on the implementation's concurrent trace.
func monitorConc(c concCase, o concObs, rep *emit.Report) (overlap bool) {
	T := float64(c.T)
	maxq := int64(c.TimeoutMs) * 1000000
	k := len(c.Batches)
	fail := func(clause, sig, format string, a ...interface{}) {
		rep.Fail(c.ID, clause, sig, fmt.Sprintf(format, a...), c)
	}
	if !o.Finished {
		fail("C10_conc_progress", "caller-did-not-finish-in-six-steps", "a caller needed more than 6 steps")
		return
	}
	type gr struct {
		tid  int
		pass int64
		b    uint32
	}
	var grants []gr
	for i := 0; i < k; i++ {
		ob := o.Out[i]
		b := c.Batches[i]
		if b == 0 {
			if !ob.Pass || ob.Wait != 0 {
				fail("C10_zero_batch_inert", "zero-batch-not-passed", "caller %d: pass=%v wait=%d", i, ob.Pass, ob.Wait)
			}
			continue
		}
		if !ob.Pass {
			if ob.BType != "flow" {
				fail("C10_block_type", "wrong-block-type", "caller %d", i)
			}
			if ob.NSlp != 0 {
				fail("C10_conc_wait_bound", "rejected-request-slept", "caller %d slept %d ns", i, ob.Wait)
			}
			continue
		}
		if early(T, b) {
			fail("C10_reject_only_if_needed", "admitted-over-threshold", "caller %d batch %d threshold %v", i, b, T)
			continue
		}
		if ob.Wait < 0 || ob.Wait > maxq {
			fail("C10_conc_wait_bound", "wait-exceeds-max-queueing", "caller %d: wait %d ns, limit %d ns", i, ob.Wait, maxq)
		}
		grants = append(grants, gr{i, o.Arrival[i] + ob.Wait, b}) // pass >= arrival because wait >= 0
	}
	// is there a rollback that overlaps another caller's access, or a stale add?
	overlapRollback, staleAdd := false, false
	for i := 0; i < k; i++ {
		p := o.Paths[i]
		for j := range p {
			if p[j] == 205 && j > 0 { // step j is the rollback, step j-1 the add
				lo, hi := o.StepIdx[i][j-1], o.StepIdx[i][j]
				for ei := lo + 1; ei < hi; ei++ {
					if c.Events[ei].Kind == "run" && c.Events[ei].Tid != i && o.Ats[ei] >= 201 && o.Ats[ei] <= 205 {
						// another caller accessed the shared time between the add and its rollback
						overlapRollback = true
					}
				}
			}
		}
		if o.Out[i].Pass && c.Batches[i] > 0 && contains(p, 202) && contains(p, 204) && o.Out[i].Wait == 0 {
			staleAdd = true
		}
	}
	overlap = overlapRollback || staleAdd
	sort.SliceStable(grants, func(a, b int) bool { return grants[a].pass < grants[b].pass })
	for j := 1; j < len(grants); j++ {
		g0, g1 := grants[j-1], grants[j]
		need := ivOf(T, c.StatMs, g1.b)
		if g0.pass == g1.pass {
			if n0 := ivOf(T, c.StatMs, g0.b); n0 < need {
				need = n0
			}
		}
		if g1.pass-g0.pass < need {
			sig := "conc-pass-times-too-close"
			switch {
			case overlapRollback:
				sig = sigD8
			case staleAdd:
				sig = sigStale
			}
			fail("C10_conc_spacing", sig, "callers %d and %d: pass times %d and %d, gap %d ns < interval %d ns", g0.tid, g1.tid, g0.pass, g1.pass, g1.pass-g0.pass, need)
			break
		}
	}
	return
}

func coqConc(c concCase, o concObs) string {
	var bs, evs, ls, outs []string
	for _, b := range c.Batches {
		bs = append(bs, emit.U(uint64(b)))
	}
	for _, e := range c.Events {
		if e.Kind == "clock" {
			evs = append(evs, "SetClock "+emit.U(e.Ns))
		} else {
			evs = append(evs, fmt.Sprintf("Run %d", e.Tid))
		}
	}
	for _, l := range o.Labels {
		ls = append(ls, emit.Z(int64(l)))
	}
	for _, ob := range o.Out {
		outs = append(outs, coqObs(ob))
	}
	return fmt.Sprintf("Conc %d %s %d %d %s %s %s %s", c.ID, emit.F(float64(c.T)), c.TimeoutMs, c.StatMs, emit.List(bs), emit.List(evs), emit.List(ls), emit.List(outs))
}

func runConcCase(a cli.Args, root *rng.R, rep *emit.Report, dist *emit.Distinct, sh *emit.Shards, clk *vclock.Clock, id int, corr bool) {
	c := genConc(root.Fork(uint64(id)), id)
	o := runConc(c, clk)
	rep.Evaluations++
	overlap := monitorConc(c, o, rep)
	rep.Count("conc_cases", 1)
	rep.Count("conc_events", len(c.Events))
	rep.Count("conc_callers", len(c.Batches))
	inter := false // at least two callers simultaneously inside DoCheck
	{
		open := map[int]bool{}
		for ei, e := range c.Events {
			if e.Kind != "run" {
				continue
			}
			l := o.Labels[ei]
			if l >= 201 {
				open[e.Tid] = true
			} else {
				delete(open, e.Tid)
			}
			if len(open) >= 2 {
				inter = true
			}
		}
	}
	if inter {
		rep.Count("conc_interleaved", 1)
		b, _ := json.Marshal(c)
		dist.Add(string(b))
	}
	if overlap {
		rep.Count("conc_rollback_overlap_or_stale_add", 1)
	}
	for i := range c.Batches {
		if contains(o.Paths[i], 205) {
			rep.Count("conc_rollbacks", 1)
		}
		if contains(o.Paths[i], 202) && contains(o.Paths[i], 203) {
			rep.Count("conc_lost_cas", 1)
		}
		if o.Out[i].Pass {
			rep.Count("conc_admitted", 1)
		} else {
			rep.Count("conc_rejected", 1)
		}
	}
	if corr && sh != nil {
		sh.Add(id, coqConc(c, o))
		rep.CorrCases++
		rep.CaseInputs[strconv.Itoa(id)] = c
		if id == concBase {
			rep.Sample(map[string]interface{}{"input": c, "observed": o})
		}
	}
	if a.Only >= 0 {
		out, _ := json.MarshalIndent(map[string]interface{}{"input": c, "observed": o, "coq": coqConc(c, o)}, "", " ")
		fmt.Println(string(out))
	}
}
