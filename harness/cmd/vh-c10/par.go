//go:build verif

package main

import (
	"fmt"
	"sync"
	"sync/atomic"

	sentinel "github.com/alibaba/sentinel-golang/api"
	"github.com/alibaba/sentinel-golang/core/flow"
	"github.com/alibaba/sentinel-golang/util/vhook"

	"vh/internal/emit"
	"vh/internal/vclock"
)

// parID is the case id of the real-thread search leg (replayed with --only parID).
const parID = 900000

type parCase struct {
	ID         int    `json:"id"`
	Name       string `json:"name"`
	T          fl     `json:"threshold"`
	TimeoutMs  uint32 `json:"max_queueing_ms"`
	Goroutines int    `json:"goroutines"`
	PerCaller  int    `json:"requests_per_goroutine"`
	Rounds     int    `json:"rounds"`
}

// parallelLeg: a SEARCH leg with real goroutines (no scheduler): many callers contend on one throttling
// rule while the virtual clock stands still and the queueing limit is as large as the rule allows.  Under
// EVERY schedule nobody may be rejected (each caller is scheduled one interval after the latest pass time:
// the total wait stays far below the limit) and the requested waits are pairwise different multiples of
// the interval.  It asserts only these schedule-independent facts, is bounded by its request count and
// never depends on timing to pass.
func parallelLeg(rep *emit.Report, clk *vclock.Clock) {
	vhook.SetController(nil)
	c := parCase{ID: parID, Name: "parallel-callers-frozen-clock-huge-limit", T: 1e6, TimeoutMs: 4294967295, Goroutines: 8, PerCaller: 250, Rounds: 3}
	iv := ivOf(float64(c.T), 0, 1)
	for round := 0; round < c.Rounds; round++ {
		res := fmt.Sprintf("c10-par-%d", round)
		if _, err := flow.LoadRules([]*flow.Rule{{Resource: res, TokenCalculateStrategy: flow.Direct, ControlBehavior: flow.Throttling,
			Threshold: float64(c.T), MaxQueueingTimeMs: c.TimeoutMs}}); err != nil {
			panic(err)
		}
		clk.SetNs(t0ns + uint64(round+1)*3600*sec)
		clk.TakeSleeps()
		var blocked, passed int64
		var wg sync.WaitGroup
		start := make(chan struct{})
		for g := 0; g < c.Goroutines; g++ {
			wg.Add(1)
			go func() {
				defer wg.Done()
				<-start
				for i := 0; i < c.PerCaller; i++ {
					e, b := sentinel.Entry(res)
					if b != nil {
						atomic.AddInt64(&blocked, 1)
						continue
					}
					atomic.AddInt64(&passed, 1)
					e.Exit()
				}
			}()
		}
		close(start)
		wg.Wait()
		total := int64(c.Goroutines * c.PerCaller)
		rep.Evaluations++
		rep.Count("parallel_leg_requests", int(total))
		if blocked != 0 {
			rep.Fail(c.ID, "C10_conc_reject_only_if_needed", "parallel-callers-rejected-below-the-queueing-limit",
				fmt.Sprintf("round %d: %d of %d concurrent requests were rejected although the clock stands still, the interval is %d ns and the limit is %d ms (the longest wait any schedule needs is %d ns)", round, blocked, total, iv, c.TimeoutMs, total*iv), c)
			return
		}
		// the waits handed out are 0, iv, 2*iv, ... each exactly once
		seen := map[int64]bool{}
		for _, d := range clk.TakeSleeps() {
			w := int64(d)
			if w <= 0 || w%iv != 0 || w >= total*iv || seen[w] {
				rep.Fail(c.ID, "C10_conc_spacing", "parallel-callers-share-a-pass-time",
					fmt.Sprintf("round %d: requested wait %d ns (interval %d ns) is not a fresh multiple of the interval below %d", round, w, iv, total*iv), c)
				return
			}
			seen[w] = true
		}
		if int64(len(seen)) != passed-1 {
			rep.Fail(c.ID, "C10_conc_spacing", "parallel-callers-share-a-pass-time",
				fmt.Sprintf("round %d: %d requests passed but %d different positive waits were requested (one per request but the first)", round, passed, len(seen)), c)
			return
		}
	}
}
