//go:build verif

// vh-c03: correspondence + monitor harness for property C03 (circuit breaker, sequential
// histories in virtual time). One case = one resource with 1-3 circuit-breaking rules and a
// list of Enter / Complete operations at non-decreasing virtual times, driven through the
// public API only (api.Entry, api.TraceError, SentinelEntry.Exit, LoadRulesOfResource,
// RegisterStateChangeListeners). The operations may be generated online (phase-directed
// stream), therefore generation and execution happen in one function; the executed operations
// are recorded in the case for printing / replay.
package main

import (
	"encoding/json"
	"errors"
	"fmt"
	"math"
	"os"
	"strconv"

	sentinel "github.com/alibaba/sentinel-golang/api"
	"github.com/alibaba/sentinel-golang/core/base"
	"github.com/alibaba/sentinel-golang/core/circuitbreaker"
	"github.com/alibaba/sentinel-golang/core/stat"
	"github.com/alibaba/sentinel-golang/util"

	"vh/internal/cli"
	"vh/internal/emit"
	"vh/internal/env"
	"vh/internal/rng"
	"vh/internal/vclock"
)

// ---- case data ----------------------------------------------------------------------------

const (
	sSlow     = 0
	sErrRatio = 1
	sErrCount = 2

	stClosed   = 0
	stHalfOpen = 1
	stOpen     = 2
)

var stratCoq = []string{"SlowRatio", "ErrRatio", "ErrCount"}
var stratKey = []string{"slow_ratio", "error_ratio", "error_count"}
var stateCoq = []string{"Closed", "HalfOpen", "Open"}

func stName(s int) string {
	if s >= 0 && s < len(stateCoq) {
		return stateCoq[s]
	}
	return "Undefined"
}

type ruleT struct {
	Strategy    int     `json:"strategy"` // 0 slow request ratio, 1 error ratio, 2 error count
	Threshold   float64 `json:"threshold"`
	MinAmount   uint64  `json:"minRequestAmount"`
	RetryMs     uint32  `json:"retryTimeoutMs"`
	ProbeNum    uint64  `json:"probeNum"`
	MaxRtMs     uint64  `json:"maxAllowedRtMs"`
	IntervalMs  uint32  `json:"statIntervalMs"`
	BucketCount uint32  `json:"statSlidingWindowBucketCount"` // raw, as given to the rule
}

type opT struct {
	Kind       string `json:"kind"` // enter | complete
	Dt         uint64 `json:"dt"`
	LaterBlock bool   `json:"laterBlock,omitempty"`
	K          int    `json:"k,omitempty"`
	Err        bool   `json:"err,omitempty"`
	// entry options that must not influence the breaker (its statistics are per completed request);
	// the model and the reference machine ignore them
	Opts *optsT `json:"entryOptions,omitempty"`
}

type optsT struct {
	Batch      *uint32 `json:"batchCount,omitempty"` // nil: option not given (default 1)
	Inbound    bool    `json:"inbound,omitempty"`
	ResType    int     `json:"resourceType,omitempty"`
	Args       int     `json:"args,omitempty"`
	Attachment bool    `json:"attachment,omitempty"`
}

// genOpts: two requests in five carry options: batch counts 0, 1, small and large (up to 4096), inbound
// traffic, the five resource types, hot-spot arguments, an attachment.
func genOpts(r *rng.R) *optsT {
	if !r.Chance(2, 5) {
		return nil
	}
	o := &optsT{}
	if r.Chance(3, 4) {
		// (bounded: code that wrongly iterates over the batch count must not hang the harness)
		b := uint32(r.PickI(0, 1, 2, 2, 3, 5, 7, 100, 1000, 4096))
		o.Batch = &b
	}
	o.Inbound = r.Chance(1, 3)
	o.ResType = int(r.PickI(0, 0, 1, 2, 3, 4))
	o.Args = int(r.PickI(0, 0, 1, 2))
	o.Attachment = r.Chance(1, 4)
	return o
}

func (o *optsT) entryOptions() []sentinel.EntryOption {
	if o == nil {
		return nil
	}
	var out []sentinel.EntryOption
	if o.Batch != nil {
		out = append(out, sentinel.WithBatchCount(*o.Batch))
	}
	if o.Inbound {
		out = append(out, sentinel.WithTrafficType(base.Inbound))
	}
	if o.ResType != 0 {
		out = append(out, sentinel.WithResourceType(base.ResourceType(o.ResType)))
	}
	switch o.Args {
	case 1:
		out = append(out, sentinel.WithArgs("a"))
	case 2:
		out = append(out, sentinel.WithArgs(7, "b"))
	}
	if o.Attachment {
		out = append(out, sentinel.WithAttachment("k", 1))
	}
	return out
}

type caseT struct {
	ID       int     `json:"id"`
	T0       uint64  `json:"t0"`
	Directed bool    `json:"phaseDirected"`
	ErrPct   int     `json:"errPercent"`
	Rules    []ruleT `json:"rules"`
	Ops      []opT   `json:"ops"`
	Reload   string  `json:"reloadPrologue,omitempty"` // rule list in force (without traffic) before the case's rules
	// reloads in the middle of the traffic that change nothing; operations At..At+N-1 run inside the generator
	Reloads  []reloadT `json:"reloads,omitempty"`
	Listener string    `json:"listener,omitempty"` // "" passive | panics | reenters (single-rule cases)
	// > 0: the prologue's reload to the case's rules happens after this many requests, which are then in flight
	ReloadAfter int `json:"reloadAfterRequests,omitempty"`
}

type reloadT struct {
	At              int  `json:"at"`
	N               int  `json:"n"`
	GeneratorPanics bool `json:"generatorPanics,omitempty"`
}

type obsT struct {
	Kind string `json:"kind"` // pass | block | blocklater | none
	Idx  int    `json:"rule"` // index of the triggered rule (block only; -1 otherwise / unknown)
	Type string `json:"blockType,omitempty"`
}

// snapT is the projection of a listener snapshot: none | float (exact bits) | int | other.
type snapT struct {
	Kind string  `json:"kind"`
	F    float64 `json:"-"`
	Z    int64   `json:"int,omitempty"`
	Repr string  `json:"value,omitempty"`
}

func snapNone() snapT { return snapT{Kind: "none"} }
func snapF(f float64) snapT {
	return snapT{Kind: "float", F: f, Repr: strconv.FormatFloat(f, 'g', -1, 64)}
}
func snapZ(z int64) snapT { return snapT{Kind: "int", Z: z, Repr: strconv.FormatInt(z, 10)} }

func (a snapT) eq(b snapT) bool {
	if a.Kind != b.Kind {
		return false
	}
	switch a.Kind {
	case "float":
		return math.Float64bits(a.F) == math.Float64bits(b.F)
	case "int":
		return a.Z == b.Z
	case "none":
		return true
	}
	return false
}

func (a snapT) String() string {
	switch a.Kind {
	case "float":
		return fmt.Sprintf("float(%s/0x%016x)", a.Repr, math.Float64bits(a.F))
	case "int":
		return "int(" + a.Repr + ")"
	}
	return a.Kind
}

// evT is one state-change listener call (observed) or one expected transition (reference).
type evT struct {
	Res  string `json:"-"`
	Idx  int    `json:"rule"`
	From int    `json:"from"`
	To   int    `json:"to"`
	Snap snapT  `json:"snapshot"`
}

func (e evT) same(o evT) bool {
	return e.Idx == o.Idx && e.From == o.From && e.To == o.To && e.Snap.eq(o.Snap)
}

func (e evT) String() string {
	return fmt.Sprintf("rule %d %s->%s snapshot=%s", e.Idx, stName(e.From), stName(e.To), e.Snap)
}

// geometry is the statistic window the rule asks for: the bucket count actually used and the
// bucket length (documented on Rule.StatSlidingWindowBucketCount).
func geometry(r ruleT) (n, bl uint64) {
	n = uint64(r.BucketCount)
	iv := uint64(r.IntervalMs)
	if n == 0 || iv%n != 0 {
		n = 1
	}
	return n, iv / n
}

// ---- instrumentation through public extension points ------------------------------------------

var (
	laterBlock bool
	lsnLog     []evT
	inEnter    int    // > 0 while a request of the harness is inside sentinel.Entry
	onOpenHook func() // what the listener does after recording a transition to Open made by a completion
	genHook    func() // what the generator of the user strategy does (operations issued inside a reload)
	genPanics  bool
)

// userStrategy: a circuit-breaking strategy with a user-registered generator
// (SetCircuitBreakerGenerator) that never produces a breaker: its rules are ignored.
const userStrategy = circuitbreaker.Strategy(77)

func userGenerator(r *circuitbreaker.Rule, reuseStat interface{}) (circuitbreaker.CircuitBreaker, error) {
	if h := genHook; h != nil {
		genHook = nil
		h()
	}
	if genPanics {
		panic("generator failure")
	}
	return nil, errors.New("declined")
}

// laterSlot is a rule-check slot ordered after the circuit-breaker slot; it rejects the request
// iff laterBlock is set (only reached when every earlier slot let the request pass).
type laterSlot struct{}

func (*laterSlot) Order() uint32 { return 6000 }

func (*laterSlot) Check(ctx *base.EntryContext) *base.TokenResult {
	result := ctx.RuleCheckResult
	if !laterBlock {
		return result
	}
	if result == nil {
		result = base.NewTokenResultBlockedWithMessage(base.BlockTypeUnknown, "later")
	} else {
		result.ResetToBlockedWithMessage(base.BlockTypeUnknown, "later")
	}
	return result
}

func stateOf(s circuitbreaker.State) int {
	switch s {
	case circuitbreaker.Closed:
		return stClosed
	case circuitbreaker.HalfOpen:
		return stHalfOpen
	case circuitbreaker.Open:
		return stOpen
	}
	return -1
}

type listener struct{}

func ruleIdx(id string) int {
	i, err := strconv.Atoi(id)
	if err != nil {
		return -1
	}
	return i
}

func (listener) OnTransformToClosed(prev circuitbreaker.State, rule circuitbreaker.Rule) {
	lsnLog = append(lsnLog, evT{Res: rule.Resource, Idx: ruleIdx(rule.Id), From: stateOf(prev), To: stClosed, Snap: snapNone()})
}

func (listener) OnTransformToOpen(prev circuitbreaker.State, rule circuitbreaker.Rule, snapshot interface{}) {
	var s snapT
	switch v := snapshot.(type) {
	case float64:
		s = snapF(v)
	case uint64:
		s = snapZ(int64(v))
	case int:
		s = snapZ(int64(v))
	default:
		s = snapT{Kind: "other", Repr: fmt.Sprintf("%T", snapshot)}
	}
	lsnLog = append(lsnLog, evT{Res: rule.Resource, Idx: ruleIdx(rule.Id), From: stateOf(prev), To: stOpen, Snap: s})
	if h := onOpenHook; h != nil && inEnter == 0 {
		h()
	}
}

func (listener) OnTransformToHalfOpen(prev circuitbreaker.State, rule circuitbreaker.Rule) {
	lsnLog = append(lsnLog, evT{Res: rule.Resource, Idx: ruleIdx(rule.Id), From: stateOf(prev), To: stHalfOpen, Snap: snapNone()})
}

// ---- reference three-state machine (written from the property text) --------------------------

type comp struct {
	t   uint64
	bad bool
}

type refBreaker struct {
	rule     ruleT
	bl       uint64 // bucket length
	interval uint64
	state    int
	deadline uint64
	probes   uint64
	hist     []comp // completions since the breaker last closed (or creation)
}

type refMachine struct{ bs []*refBreaker }

func newRef(rules []ruleT) *refMachine {
	m := &refMachine{}
	for _, r := range rules {
		_, bl := geometry(r)
		m.bs = append(m.bs, &refBreaker{rule: r, bl: bl, interval: uint64(r.IntervalMs), state: stClosed})
	}
	return m
}

// window counts the completions of the history that lie in the bucket-aligned statistic window
// ending with the bucket that contains now.
func (b *refBreaker) window(now uint64) (bad, total uint64) {
	bs := now - now%b.bl
	hi := bs + b.bl
	lo := hi - b.interval
	for _, h := range b.hist {
		if h.t >= lo && h.t < hi {
			total++
			if h.bad {
				bad++
			}
		}
	}
	return
}

func (b *refBreaker) reached(bad, total uint64) (bool, snapT, bool) {
	T := b.rule.Threshold
	if b.rule.Strategy == sErrCount {
		return bad >= uint64(T), snapZ(int64(bad)), false
	}
	r := float64(bad) / float64(total)
	near := r != T && math.Abs(r-T) < 1e-7
	return r > T || math.Abs(r-T) < 1e-8, snapF(r), near
}

func (b *refBreaker) probeFailSnap() snapT {
	if b.rule.Strategy == sErrCount {
		return snapZ(1)
	}
	return snapF(1.0)
}

// complete: every breaker of the resource processes the completion, in rule order.
func (m *refMachine) complete(now, start uint64, err bool) (evs []evT, nearEps int) {
	for i, b := range m.bs {
		bad := err
		if b.rule.Strategy == sSlow {
			bad = now-start > b.rule.MaxRtMs
		}
		b.hist = append(b.hist, comp{now, bad})
		nb, nt := b.window(now)
		switch b.state {
		case stOpen:
		case stHalfOpen:
			if bad {
				b.state, b.deadline, b.probes = stOpen, now+uint64(b.rule.RetryMs), 0
				evs = append(evs, evT{Idx: i, From: stHalfOpen, To: stOpen, Snap: b.probeFailSnap()})
			} else {
				b.probes++
				if b.rule.ProbeNum == 0 || b.probes >= b.rule.ProbeNum {
					b.state, b.probes, b.hist = stClosed, 0, nil
					evs = append(evs, evT{Idx: i, From: stHalfOpen, To: stClosed, Snap: snapNone()})
				}
			}
		case stClosed:
			if nt >= b.rule.MinAmount {
				ok, snap, near := b.reached(nb, nt)
				if near {
					nearEps++
				}
				if ok {
					b.state, b.deadline = stOpen, now+uint64(b.rule.RetryMs)
					evs = append(evs, evT{Idx: i, From: stClosed, To: stOpen, Snap: snap})
				}
			}
		}
	}
	return
}

// enter: expected outcome of a request at `now` (kind pass|block|blocklater, idx of the first
// non-passing breaker) and the expected listener calls.
func (m *refMachine) enter(now uint64, lb bool) (kind string, idx int, evs []evT) {
	var probed []int
	idx = -1
	for i, b := range m.bs {
		pass := false
		switch b.state {
		case stClosed:
			pass = true
		case stHalfOpen:
			pass = b.rule.ProbeNum > 0
		case stOpen:
			if now >= b.deadline {
				pass = true
				b.state = stHalfOpen
				probed = append(probed, i)
				evs = append(evs, evT{Idx: i, From: stOpen, To: stHalfOpen, Snap: snapNone()})
			}
		}
		if !pass {
			idx = i
			break
		}
	}
	switch {
	case idx >= 0:
		kind = "block"
	case lb:
		kind = "blocklater"
	default:
		return "pass", -1, evs
	}
	// a blocked entry rolls every breaker it probed back to Open, deadline unchanged
	for _, i := range probed {
		m.bs[i].state = stOpen
		evs = append(evs, evT{Idx: i, From: stHalfOpen, To: stOpen, Snap: snapF(1.0)})
	}
	return
}

func (m *refMachine) earliestOpenDeadline() (uint64, bool) {
	var d uint64
	ok := false
	for _, b := range m.bs {
		if b.state == stOpen && (!ok || b.deadline < d) {
			d, ok = b.deadline, true
		}
	}
	return d, ok
}

func (m *refMachine) any(state int) bool {
	for _, b := range m.bs {
		if b.state == state {
			return true
		}
	}
	return false
}

func (m *refMachine) describe(now uint64) string {
	s := ""
	for i, b := range m.bs {
		nb, nt := b.window(now)
		s += fmt.Sprintf("[%d:%s deadline=%d probes=%d window=%d/%d]", i, stName(b.state), b.deadline, b.probes, nb, nt)
	}
	return s
}

// ---- generator ------------------------------------------------------------------------------------

var ratioThresholds = []float64{0, 0.1, 0.25, 0.3, 1.0 / 3, 0.5, 0.6, 2.0 / 3, 0.75, 1.0,
	0.5 - 5e-9, 0.5 + 2e-8, 1.0/3 + 5e-9, 0.25 + 1e-8}
var nearEpsThresholds = []float64{0.5 - 5e-9, 0.5 + 2e-8, 1.0/3 + 5e-9, 0.25 + 1e-8}
var countThresholds = []float64{0, 0.5, 1, 2, 2.5, 3, 5, 10}

func isNearEps(t float64) bool {
	for _, v := range nearEpsThresholds {
		if math.Float64bits(v) == math.Float64bits(t) {
			return true
		}
	}
	return false
}

func genThreshold(r *rng.R, strategy int) float64 {
	if strategy == sErrCount {
		return r.PickF(countThresholds...)
	}
	return r.PickF(ratioThresholds...)
}

var retryChoices = []int64{1, 10, 50, 100, 1000, 3000}

func genRule(r *rng.R, directed bool) ruleT {
	var ru ruleT
	ru.Strategy = r.Intn(3)
	ru.RetryMs = uint32(r.PickI(retryChoices...))
	if directed {
		ru.MinAmount = uint64(r.PickI(0, 1, 1, 2, 3))
	} else {
		ru.MinAmount = uint64(r.PickI(0, 1, 1, 2, 3, 5, 10))
	}
	ru.IntervalMs = uint32(r.PickI(100, 1000, 1000, 2000, 10000, 7, 999))
	ru.BucketCount = uint32(r.PickI(0, 1, 1, 2, 4, 5, 10, 3))
	ru.MaxRtMs = uint64(r.PickI(0, 5, 20, 100))
	ru.ProbeNum = uint64(r.PickI(0, 0, 0, 1, 2, 3))
	ru.Threshold = genThreshold(r, ru.Strategy)
	return ru
}

// shareStat: at least two rules with the same strategy and statistic window (the rules that are
// candidates for one reused statistic in a reload), either the classic family or rules that
// differ in threshold / minimum amount as well.
func genRules(r *rng.R, directed, shareStat bool) []ruleT {
	n := 1
	switch x := r.Intn(100); {
	case x < 50:
		n = 1
	case x < 85:
		n = 2
	default:
		n = 3
	}
	if shareStat && n < 2 {
		n = 2
	}
	rules := []ruleT{genRule(r, directed)}
	family := n > 1 && r.Chance(1, 2)
	sameWindowOnly := false
	if shareStat && !family {
		sameWindowOnly = true
	}
	for i := 1; i < n; i++ {
		ru := genRule(r, directed)
		if sameWindowOnly {
			f := rules[0]
			ru.Strategy, ru.IntervalMs, ru.BucketCount, ru.MaxRtMs = f.Strategy, f.IntervalMs, f.BucketCount, f.MaxRtMs
			ru.Threshold = genThreshold(r, ru.Strategy)
		}
		if family {
			// same strategy / threshold / window, different retry timeout: the breakers open
			// together and reach their deadlines at different times (multi-breaker rollback)
			f := rules[0]
			ru.Strategy, ru.Threshold, ru.MinAmount = f.Strategy, f.Threshold, f.MinAmount
			ru.IntervalMs, ru.BucketCount, ru.MaxRtMs = f.IntervalMs, f.BucketCount, f.MaxRtMs
			for tries := 0; tries < 8 && sameRetry(rules, ru.RetryMs); tries++ {
				ru.RetryMs = uint32(r.PickI(retryChoices...))
			}
		}
		rules = append(rules, ru)
	}
	return rules
}

func sameRetry(rules []ruleT, v uint32) bool {
	for _, x := range rules {
		if x.RetryMs == v {
			return true
		}
	}
	return false
}

func genDt(r *rng.R, rules []ruleT) uint64 {
	var d int64
	switch x := r.Intn(100); {
	case x < 30:
		d = 0
	case x < 55:
		d = r.Range(1, 20)
	case x < 75:
		ru := rules[r.Intn(len(rules))]
		d = int64(ru.RetryMs) + r.PickI(-1, 0, 1)
	case x < 85:
		ru := rules[r.Intn(len(rules))]
		_, bl := geometry(ru)
		d = int64(bl) + r.PickI(-1, 0, 0, 1)
	case x < 95:
		ru := rules[r.Intn(len(rules))]
		iv := int64(ru.IntervalMs)
		d = r.PickI(iv-1, iv+1, 2*iv)
	default:
		d = r.Range(20000, 60000)
	}
	if d < 0 {
		d = 0
	}
	return uint64(d)
}

func resName(id int) string { return "c03-" + strconv.Itoa(id) }

func toRule(res string, i int, ru ruleT) *circuitbreaker.Rule {
	var s circuitbreaker.Strategy
	switch ru.Strategy {
	case sSlow:
		s = circuitbreaker.SlowRequestRatio
	case sErrRatio:
		s = circuitbreaker.ErrorRatio
	default:
		s = circuitbreaker.ErrorCount
	}
	return &circuitbreaker.Rule{
		Id: strconv.Itoa(i), Resource: res, Strategy: s,
		RetryTimeoutMs: ru.RetryMs, MinRequestAmount: ru.MinAmount,
		StatIntervalMs: ru.IntervalMs, StatSlidingWindowBucketCount: ru.BucketCount,
		MaxAllowedRtMs: ru.MaxRtMs, Threshold: ru.Threshold, ProbeNum: ru.ProbeNum,
	}
}

type harness struct {
	clk   *vclock.Clock
	chain *base.SlotChain
	root  *rng.R
}

// genRun generates case `id` and runs it on the implementation in one go. marks[i] is the length
// of the case's listener log after operation i.
func (h *harness) genRun(id int) (c caseT, obs []obsT, log []evT, marks []int) {
	r := h.root.Fork(uint64(id))
	c.ID = id
	c.T0 = 1700000000000 + uint64(id)*100000000 + uint64(r.Range(0, 20000))
	c.Directed = r.Chance(40, 100)
	prologue := -1 // kind of the reload the case starts from (-1: none)
	if id%3 != 0 {
		prologue = (id / 3) % 8
	}
	single := false
	if prologue < 6 {
		switch id % 10 {
		case 1:
			c.Listener, single = "panics", true
		case 2:
			c.Listener, single = "reenters", true
		}
	}
	c.Rules = genRules(r, c.Directed, prologue >= 6)
	if single {
		c.Rules = c.Rules[:1]
	}
	c.ErrPct = int(r.PickI(15, 50, 85))
	if c.Directed {
		c.ErrPct = 85
	}
	res := resName(id)

	h.clk.SetMs(c.T0)
	lsnLog = lsnLog[:0]
	laterBlock = false
	var rules []*circuitbreaker.Rule
	for i, ru := range c.Rules {
		rules = append(rules, toRule(res, i, ru))
	}
	// Two cases in three start from a reload (no traffic in between, so the model is unchanged): a
	// sibling list in which exactly one field of the first rule differs is in force first, then the
	// case's rules replace it.  A reload that kept the stale breaker (rule equality ignoring a field)
	// shows in the decisions that follow.
	// One case in six replaces FEWER or ALL-CHANGED rules of the same strategy and statistic window:
	// one old rule by two or three new ones none of which equals it (one-to-many), or every rule by
	// a changed one (many-to-many).  Each rebuilt breaker must get a statistic of its own: breakers
	// that share a window count every completion once per breaker and wipe each other's counters
	// on a close, which shows in the per-rule decisions of the reference machine.
	if prologue >= 0 && len(rules) > 0 {
		sib := make([]*circuitbreaker.Rule, len(rules))
		for i, ru := range rules {
			cp := *ru
			sib[i] = &cp
		}
		c.Reload = [8]string{"maxRt", "threshold", "retry", "minAmount", "probeNum", "interval", "one-to-many", "many-to-many"}[prologue]
		switch prologue {
		case 6:
			sib = sib[:1]
			sib[0].RetryTimeoutMs = sib[0].RetryTimeoutMs*3 + 1000
			sib[0].MinRequestAmount = sib[0].MinRequestAmount*5 + 7
		case 7:
			for _, x := range sib {
				x.RetryTimeoutMs = x.RetryTimeoutMs*3 + 1000
				x.MinRequestAmount = x.MinRequestAmount*5 + 7
			}
		case 0:
			sib[0].MaxAllowedRtMs = sib[0].MaxAllowedRtMs*4 + 50
		case 1:
			if sib[0].Strategy == circuitbreaker.ErrorCount {
				sib[0].Threshold = sib[0].Threshold*3 + 5
			} else if sib[0].Threshold > 0.5 {
				sib[0].Threshold = sib[0].Threshold / 4
			} else {
				sib[0].Threshold = sib[0].Threshold*2 + 0.25
			}
		case 2:
			sib[0].RetryTimeoutMs = sib[0].RetryTimeoutMs*3 + 1000
		case 3:
			sib[0].MinRequestAmount = sib[0].MinRequestAmount*5 + 7
		case 4:
			sib[0].ProbeNum = sib[0].ProbeNum + 3
		case 5:
			sib[0].StatIntervalMs = sib[0].StatIntervalMs * 2
		}
		if _, err := circuitbreaker.LoadRulesOfResource(res, sib); err != nil {
			panic(fmt.Sprintf("case %d: LoadRulesOfResource (sibling): %v", id, err))
		}
	}
	// Half of the cases that start from a reload make it WHILE REQUESTS ARE IN FLIGHT: the first 1-4
	// operations are requests issued under the sibling list (every breaker is Closed and nothing has
	// completed yet, so they are admitted whatever the sibling rules say and the breakers have no
	// history: the model is unchanged), then the case's rules replace the sibling list - new breaker
	// objects, with or without statistic reuse depending on the kind of the prologue - and the
	// requests complete afterwards.  A completion counts for the breakers in force when it happens.
	switched := true
	loadFinal := func() {
		if _, err := circuitbreaker.LoadRulesOfResource(res, rules); err != nil {
			panic(fmt.Sprintf("case %d: LoadRulesOfResource: %v", id, err))
		}
		if got := circuitbreaker.GetRulesOfResource(res); len(got) != len(rules) {
			panic(fmt.Sprintf("case %d: %d of %d rules accepted", id, len(got), len(rules)))
		}
		switched = true
	}
	if prologue >= 0 && (id/3)%2 == 1 {
		switched = false
		c.ReloadAfter = 1 + int(id/6)%4
	} else {
		loadFinal()
	}

	ref := newRef(c.Rules) // tracks the phases for the phase-directed stream only
	nops := 20 + r.Intn(51)
	total := nops + 8 // room for the requests a re-entering listener issues
	entries := make([]*base.SentinelEntry, total)
	starts := make([]uint64, total)
	var live []int
	now := c.T0
	forced := int64(-1)
	count := func() int {
		n := 0
		for _, e := range lsnLog {
			if e.Res == res {
				n++
			}
		}
		return n
	}
	// one request; returns its observed kind
	doEnter := func(dt uint64, lb bool, eo *optsT) string {
		i := len(c.Ops)
		c.Ops = append(c.Ops, opT{Kind: "enter", Dt: dt, LaterBlock: lb, Opts: eo})
		h.clk.AddMs(dt)
		now += dt
		laterBlock = lb
		inEnter++
		e, b := sentinel.Entry(res, append([]sentinel.EntryOption{sentinel.WithSlotChain(h.chain)}, eo.entryOptions()...)...)
		inEnter--
		laterBlock = false
		ref.enter(now, lb)
		var o obsT
		switch {
		case b == nil:
			o = obsT{Kind: "pass", Idx: -1}
			entries[i] = e
			starts[i] = now
			live = append(live, i)
		case b.BlockType() == base.BlockTypeCircuitBreaking:
			o = obsT{Kind: "block", Idx: -1, Type: b.BlockType().String()}
			if tr := b.TriggeredRule(); tr != nil {
				if cr, ok := tr.(*circuitbreaker.Rule); ok && cr != nil {
					o.Idx = ruleIdx(cr.Id)
				}
			}
		default:
			o = obsT{Kind: "blocklater", Idx: -1, Type: b.BlockType().String()}
		}
		obs = append(obs, o)
		marks = append(marks, count())
		return o.Kind
	}
	completeSlot := -1 // index in marks of the completion being executed (for a re-entering listener)
	doComplete := func(dt uint64, k int, isErr bool) {
		c.Ops = append(c.Ops, opT{Kind: "complete", Dt: dt, K: k, Err: isErr})
		h.clk.AddMs(dt)
		now += dt
		slot := len(marks)
		obs = append(obs, obsT{Kind: "none", Idx: -1})
		marks = append(marks, -1)
		if e := entries[k]; e != nil {
			if isErr {
				sentinel.TraceError(e, errors.New("e"))
			}
			entries[k] = nil
			for j, v := range live {
				if v == k {
					live = append(live[:j:j], live[j+1:]...)
					break
				}
			}
			ref.complete(now, starts[k], isErr)
			outer := completeSlot
			completeSlot = slot
			e.Exit()
			completeSlot = outer
		}
		if marks[slot] < 0 {
			marks[slot] = count()
		} else if n := count(); n > marks[len(marks)-1] {
			marks[len(marks)-1] = n
		}
	}
	// Listener behaviour of the case (single-rule cases only, where a request issued from inside the
	// listener is the same as one issued right after the completion): passive, or - when the breaker
	// is opened by a completion - the listener panics after recording the call (recovered in Exit), or
	// it enters the resource itself.  The breaker must be Open with its full deadline either way.
	onOpenHook = nil
	switch c.Listener {
	case "panics":
		onOpenHook = func() { panic("listener failure") }
	case "reenters":
		nesting := false
		onOpenHook = func() {
			if nesting || completeSlot < 0 || len(c.Ops) >= total-1 {
				return
			}
			nesting = true
			marks[completeSlot] = count()
			doEnter(0, false, nil)
			nesting = false
		}
	}
	// one generated operation of the stream
	stepOnce := func() {
		i := len(c.Ops)
		var dt uint64
		jumped := forced >= 0
		if jumped {
			dt, forced = uint64(forced), -1
		} else {
			dt = genDt(r, c.Rules)
		}
		var doC bool
		if jumped {
			doC = len(live) > 0 && r.Chance(25, 100)
		} else {
			doC = len(live) > 0 && r.Chance(45, 100)
		}
		if !switched {
			doC = false // nothing completes before the case's rules are in force
		}
		if doC {
			var k int
			switch x := r.Intn(10); {
			case x < 8:
				k = live[r.Intn(len(live))]
			case x == 8:
				k = live[0] // the oldest live entry: a straggler
			default:
				k = r.Intn(i) // may be a non-entry, a blocked or an already exited one
			}
			pe := c.ErrPct
			if c.Directed && ref.any(stHalfOpen) {
				pe = 50
			}
			isErr := r.Chance(pe, 100)
			doComplete(dt, k, isErr)
			return
		}
		lb := r.Chance(8, 100)
		eo := genOpts(r)
		kind := doEnter(dt, lb, eo)
		if c.Directed && kind != "pass" && r.Chance(1, 2) {
			if d, ok := ref.earliestOpenDeadline(); ok {
				var rem uint64
				if d > now {
					rem = d - now
				}
				if rem > 0 && r.Chance(1, 4) {
					rem--
				}
				forced = int64(rem)
			}
		}
	}
	nReloads := 0
	for len(c.Ops) < nops {
		// A reload in the middle of the traffic that changes nothing: the rules in force plus one rule of
		// a user strategy whose generator declines (rule ignored) or panics (load fails).  The next 1-3
		// operations are issued from INSIDE the generator, i.e. while the reload is under way; they and
		// everything after must see every kept breaker exactly as without the reload.
		if !switched && len(c.Ops) >= c.ReloadAfter {
			loadFinal()
		}
		if switched && nReloads < 2 && len(c.Ops) > 0 && r.Chance(4, 100) {
			nReloads++
			inner := 1 + r.Intn(3)
			pan := r.Chance(1, 3)
			c.Reloads = append(c.Reloads, reloadT{At: len(c.Ops), N: inner, GeneratorPanics: pan})
			extra := *rules[0]
			extra.Strategy = userStrategy
			extra.Id = "g" + strconv.Itoa(nReloads)
			list := append([]*circuitbreaker.Rule{}, rules...)
			pos := r.Intn(len(list) + 1)
			list = append(list[:pos:pos], append([]*circuitbreaker.Rule{&extra}, list[pos:]...)...)
			pending := inner
			run := func() {
				for ; pending > 0 && len(c.Ops) < nops; pending-- {
					stepOnce()
				}
			}
			genHook, genPanics = run, pan
			circuitbreaker.LoadRulesOfResource(res, list) // the error of a failed load is expected
			genHook, genPanics = nil, false
			run() // whatever the generator did not get to
			continue
		}
		stepOnce()
	}
	if !switched {
		loadFinal()
	}
	onOpenHook = nil
	// the listener log of the case is cut here, before clean-up
	for _, e := range lsnLog {
		if e.Res == res {
			log = append(log, e)
		}
	}
	for _, e := range entries {
		if e != nil {
			e.Exit()
		}
	}
	if err := circuitbreaker.ClearRulesOfResource(res); err != nil {
		panic(err)
	}
	lsnLog = lsnLog[:0]
	return
}

// ---- monitor -------------------------------------------------------------------------------------

type caseStats struct {
	cbBlocks, toOpen, toHalfOpen int
	stragglers                   int
	nearEpsEvals                 int
	maxOpenPhases                int
	edges                        [5]int // C->O, O->H, H->O failed probe, H->O rollback, H->C
}

var edgeKeys = [5]string{"transition_closed_open", "transition_open_halfopen",
	"transition_halfopen_open_failed_probe", "transition_halfopen_open_rollback", "transition_halfopen_closed"}

func edgeOK(a, b int) bool {
	return (a == stClosed && b == stOpen) || (a == stOpen && b == stHalfOpen) ||
		(a == stHalfOpen && b == stOpen) || (a == stHalfOpen && b == stClosed)
}

// monitor states the property directly over the implementation's trace: it replays the
// operations on the reference machine (own ledger of live entries and completions) and compares
// decisions and listener calls; independently it checks the legality of the observed listener
// path. At most one failure per independent check is reported.
func monitor(c caseT, obs []obsT, log []evT, marks []int, rep *emit.Report) (st caseStats) {
	// statistics over the observed trace
	openPhases := make([]int, len(c.Rules))
	prevMark := 0
	for i := range c.Ops {
		for _, e := range log[prevMark:marks[i]] {
			switch {
			case e.From == stClosed && e.To == stOpen:
				st.edges[0]++
			case e.From == stOpen && e.To == stHalfOpen:
				st.edges[1]++
			case e.From == stHalfOpen && e.To == stOpen && c.Ops[i].Kind == "complete":
				st.edges[2]++
			case e.From == stHalfOpen && e.To == stOpen:
				st.edges[3]++
			case e.From == stHalfOpen && e.To == stClosed:
				st.edges[4]++
			}
			if e.To == stOpen {
				st.toOpen++
				if c.Ops[i].Kind == "complete" && e.Idx >= 0 && e.Idx < len(openPhases) {
					openPhases[e.Idx]++
				}
			}
			if e.To == stHalfOpen {
				st.toHalfOpen++
			}
		}
		prevMark = marks[i]
		if obs[i].Kind == "block" {
			st.cbBlocks++
		}
	}
	for _, n := range openPhases {
		if n > st.maxOpenPhases {
			st.maxOpenPhases = n
		}
	}

	// clause C03_listener_path: on the observed log alone
	cur := make([]int, len(c.Rules))
	for j, e := range log {
		if e.Idx < 0 || e.Idx >= len(cur) || e.From != cur[e.Idx] || !edgeOK(e.From, e.To) {
			was := "?"
			if e.Idx >= 0 && e.Idx < len(cur) {
				was = stName(cur[e.Idx])
			}
			rep.Fail(c.ID, "C03_listener_path", "illegal-listener-path",
				fmt.Sprintf("listener call %d: %s, but the path of that rule was at %s", j, e, was), c)
			break
		}
		cur[e.Idx] = e.To
	}

	// clauses C03_decision / C03_transitions: replay on the reference machine
	ref := newRef(c.Rules)
	type liveT struct{ start uint64 }
	live := map[int]liveT{}
	now := c.T0
	prevMark = 0
	for i, o := range c.Ops {
		now += o.Dt
		var want []evT
		switch o.Kind {
		case "enter":
			pre := make([]refBreaker, len(ref.bs))
			for j, b := range ref.bs {
				pre[j] = *b
			}
			kind, idx, evs := ref.enter(now, o.LaterBlock)
			want = evs
			got := obs[i]
			fail := func(sig, what string) {
				rep.Fail(c.ID, "C03_decision", sig, fmt.Sprintf("op %d (enter, laterBlock=%v) at t=%d: %s; observed %s rule %d type %q, expected %s rule %d; reference before the request: %s",
					i, o.LaterBlock, now, what, got.Kind, got.Idx, got.Type, kind, idx, describePre(pre, now)), c)
			}
			passedBreakers := got.Kind == "pass" || got.Kind == "blocklater"
			switch {
			case kind == "block" && passedBreakers:
				if pre[idx].state == stOpen {
					fail("admitted-while-open", fmt.Sprintf("breaker %d is Open until %d but the request passed the breaker slot", idx, pre[idx].deadline))
				} else {
					fail("second-probe-admitted", fmt.Sprintf("breaker %d is HalfOpen with ProbeNum=0 (probe outstanding) but the request passed the breaker slot", idx))
				}
				return
			case kind == "block" && got.Kind == "block" && got.Idx != idx:
				fail("wrong-blocking-rule", fmt.Sprintf("first non-passing breaker is %d, reported rule is %d", idx, got.Idx))
				return
			case kind != "block" && got.Kind == "block":
				j := got.Idx
				switch {
				case j < 0 || j >= len(pre):
					fail("wrong-blocking-rule", "every breaker passes; circuit-breaking block with an unknown rule")
				case pre[j].state == stClosed:
					fail("rejected-while-closed", fmt.Sprintf("breaker %d is Closed but rejected the request", j))
				default:
					fail("probe-not-admitted-after-timeout", fmt.Sprintf("breaker %d (%s, deadline %d, ProbeNum %d) must admit a probe at %d", j, stName(pre[j].state), pre[j].deadline, pre[j].rule.ProbeNum, now))
				}
				return
			case kind == "pass" && got.Kind == "blocklater":
				fail("wrong-block-type", "every breaker passes and no later slot blocks, yet the request was blocked with a non-circuit-breaking type")
				return
			case kind == "blocklater" && got.Kind == "pass":
				fail("wrong-block-type", "the later slot must have blocked the request")
				return
			case kind == "block" && got.Type != base.BlockTypeCircuitBreaking.String():
				fail("wrong-block-type", "a circuit-breaker rejection must carry BlockTypeCircuitBreaking")
				return
			}
			if got.Kind == "pass" {
				live[i] = liveT{start: now}
			}
		case "complete":
			if l, ok := live[o.K]; ok {
				delete(live, o.K)
				if ref.any(stOpen) {
					st.stragglers++
				}
				evs, ne := ref.complete(now, l.start, o.Err)
				want = evs
				st.nearEpsEvals += ne
			}
		}
		got := log[prevMark:marks[i]]
		prevMark = marks[i]
		diff := len(got) != len(want)
		for j := 0; !diff && j < len(want); j++ {
			diff = !want[j].same(got[j])
		}
		if diff {
			rep.Fail(c.ID, "C03_transitions", "listener-log-differs-from-reference-machine",
				fmt.Sprintf("op %d (%s) at t=%d: listener calls %s, reference machine %s; reference after the op: %s",
					i, o.Kind, now, evList(got), evList(want), ref.describe(now)), c)
			return
		}
	}
	return
}

func describePre(pre []refBreaker, now uint64) string {
	s := ""
	for i := range pre {
		b := &pre[i]
		nb, nt := b.window(now)
		s += fmt.Sprintf("[%d:%s deadline=%d probes=%d window=%d/%d]", i, stName(b.state), b.deadline, b.probes, nb, nt)
	}
	return s
}

func evList(es []evT) string {
	s := "["
	for i, e := range es {
		if i > 0 {
			s += "; "
		}
		s += e.String()
	}
	return s + "]"
}

// traceLines renders the executed case one operation per line (for --only replays).
func traceLines(c caseT, obs []obsT, log []evT, marks []int) []string {
	var out []string
	now := c.T0
	prev := 0
	for i, o := range c.Ops {
		now += o.Dt
		var s string
		if o.Kind == "enter" {
			s = fmt.Sprintf("op %d t=%d (+%d) enter laterBlock=%v -> %s", i, now, o.Dt, o.LaterBlock, obs[i].Kind)
			if o.Opts != nil {
				ob, _ := json.Marshal(o.Opts)
				s += " options=" + string(ob)
			}
			if obs[i].Kind == "block" {
				s += " rule " + strconv.Itoa(obs[i].Idx)
			}
		} else {
			s = fmt.Sprintf("op %d t=%d (+%d) complete k=%d err=%v", i, now, o.Dt, o.K, o.Err)
		}
		if marks[i] > prev {
			s += " | listener: " + evList(log[prev:marks[i]])
		}
		prev = marks[i]
		out = append(out, s)
	}
	return out
}

// ---- Coq printer ------------------------------------------------------------------------------------

func coqSnap(s snapT) string {
	switch s.Kind {
	case "none":
		return "None"
	case "float":
		return "(Some (SF " + emit.F(s.F) + "))"
	case "int":
		return "(Some (SZ " + emit.Z(s.Z) + "))"
	}
	return "(Some (SZ (-1)))" // unknown snapshot type: never equal to the model's
}

func coqState(s int) string {
	if s < 0 || s >= len(stateCoq) {
		return "Closed"
	}
	return stateCoq[s]
}

func coqCase(c caseT, obs []obsT, log []evT) string {
	var rules, ops, os_, evs []string
	for _, ru := range c.Rules {
		rules = append(rules, fmt.Sprintf("rule_cfg %s %s %d %d %d %d %d %d", stratCoq[ru.Strategy], emit.F(ru.Threshold),
			ru.MinAmount, ru.RetryMs, ru.ProbeNum, ru.MaxRtMs, ru.IntervalMs, ru.BucketCount))
	}
	for i, o := range c.Ops {
		if o.Kind == "enter" {
			ops = append(ops, fmt.Sprintf("Enter %d %s", o.Dt, emit.B(o.LaterBlock)))
		} else {
			ops = append(ops, fmt.Sprintf("Complete %d %s %s", o.Dt, emit.Z(int64(o.K)), emit.B(o.Err)))
		}
		switch obs[i].Kind {
		case "pass":
			os_ = append(os_, "OPass")
		case "block":
			os_ = append(os_, "OBlock "+emit.Z(int64(obs[i].Idx)))
		case "blocklater":
			os_ = append(os_, "OBlockLater")
		default:
			os_ = append(os_, "ONone")
		}
	}
	for _, e := range log {
		evs = append(evs, fmt.Sprintf("LEv %s (TEv %s %s %s)", emit.Z(int64(e.Idx)), coqState(e.From), coqState(e.To), coqSnap(e.Snap)))
	}
	return fmt.Sprintf("Seq %d %d %s %s %s %s", c.ID, c.T0, emit.List(rules), emit.List(ops), emit.List(os_), emit.List(evs))
}

// ---- main ---------------------------------------------------------------------------------------------

// ids are bounded so that t0 (id * 1e8 ms) stays representable in the clock's uint64 nanoseconds
const maxCases = 160000

func main() {
	a := cli.Parse()
	env.Init(env.Options{})
	clk := vclock.New(1700000000000)
	clk.Install()
	chain := sentinel.BuildDefaultSlotChain()
	chain.AddRuleCheckSlot(&laterSlot{})
	if err := circuitbreaker.SetCircuitBreakerGenerator(userStrategy, userGenerator); err != nil {
		panic(err)
	}
	circuitbreaker.RegisterStateChangeListeners(listener{})
	h := &harness{clk: clk, chain: chain, root: rng.New(a.Seed)}

	rep := emit.NewReport("C03", a.Seed, a.Tier)
	rep.Rule = "One resource with 1-3 circuit-breaking rules (all three strategies, thresholds incl. values within 1e-8 of reachable ratios, min amounts 0-10, retry timeouts 1-3000 ms, statistic intervals 7-10000 ms with 1-10 buckets incl. non-dividing counts, probe numbers 0-3) and 20-70 Enter/Complete operations in virtual time (gaps of 0, retry timeout +-1, bucket length +-1, interval +-1, long idle gaps; out-of-order, repeated and straggler completions; requests rejected by a later slot; 40% phase-directed histories that jump to the open breaker's deadline). Non-trivial = the case contains at least one circuit-breaking block AND at least one transition to Open AND at least one transition to HalfOpen; distinct by full input JSON."
	nCorr := a.Pick(a.N, 200, 3000)
	nMon := a.Pick(a.Mon, 2500, 40000)
	if a.Search {
		nCorr = 0
		nMon *= 5
	}
	if nMon < nCorr {
		nMon = nCorr
	}
	if nMon > maxCases {
		nMon = maxCases
		rep.Notes = append(rep.Notes, fmt.Sprintf("monitor cases capped at %d", maxCases))
	}
	var sh *emit.Shards
	if a.Only < 0 && !a.Search {
		var err error
		sh, err = emit.NewShards(a.Out, "Corr.Run_C03", a.Shards, "Open Scope Z_scope.\n")
		if err != nil {
			fmt.Fprintln(os.Stderr, err)
			os.Exit(2)
		}
	}
	dist := emit.NewDistinct()
	runOne := func(id int, corr bool) {
		c, obs, log, marks := h.genRun(id)
		rep.Evaluations++
		st := monitor(c, obs, log, marks, rep)
		if st.cbBlocks > 0 && st.toOpen > 0 && st.toHalfOpen > 0 {
			b, _ := json.Marshal(c)
			dist.Add(string(b))
			rep.Count("cases_nontrivial", 1)
		}
		if c.Reload != "" {
			rep.Count("reload_prologue_"+c.Reload, 1)
		}
		if c.Listener != "" {
			rep.Count("listener_"+c.Listener, 1)
		}
		if c.ReloadAfter > 0 {
			rep.Count("reload_with_requests_in_flight", 1)
		}
		for _, rl := range c.Reloads {
			rep.Count("reload_inside_traffic", 1)
			rep.Count("ops_inside_reload", rl.N)
			if rl.GeneratorPanics {
				rep.Count("reload_failed_by_generator_panic", 1)
			}
		}
		if c.Directed {
			rep.Count("cases_phase_directed", 1)
		} else {
			rep.Count("cases_random", 1)
		}
		rep.Count("breakers_"+strconv.Itoa(len(c.Rules)), 1)
		near := false
		for _, ru := range c.Rules {
			rep.Count("strategy_"+stratKey[ru.Strategy], 1)
			rep.Count("probe_num_"+strconv.FormatUint(ru.ProbeNum, 10), 1)
			n, _ := geometry(ru)
			if n != uint64(ru.BucketCount) {
				rep.Count("bucket_count_fallback_to_1", 1)
			}
			if ru.Strategy != sErrCount && isNearEps(ru.Threshold) {
				near = true
			}
		}
		if near {
			rep.Count("near_epsilon_threshold_cases", 1)
		}
		rep.Count("near_epsilon_ratio_evaluations", st.nearEpsEvals)
		for i, o := range c.Ops {
			rep.Count("op_"+o.Kind, 1)
			if o.Opts != nil {
				rep.Count("enter_with_entry_options", 1)
				switch {
				case o.Opts.Batch == nil:
				case *o.Opts.Batch == 0:
					rep.Count("enter_batch_count_0", 1)
				case *o.Opts.Batch == 1:
					rep.Count("enter_batch_count_1", 1)
				case *o.Opts.Batch < 100:
					rep.Count("enter_batch_count_small", 1)
				default:
					rep.Count("enter_batch_count_large", 1)
				}
				if o.Opts.Inbound {
					rep.Count("enter_inbound", 1)
				}
			}
			if o.Kind == "enter" {
				rep.Count("outcome_"+obs[i].Kind, 1)
				if o.LaterBlock {
					rep.Count("enter_later_block_flag", 1)
				}
			}
			switch {
			case o.Dt == 0:
				rep.Count("dt_zero", 1)
			case o.Dt >= 20000:
				rep.Count("dt_idle_gap", 1)
			}
		}
		for k, n := range st.edges {
			rep.Count(edgeKeys[k], n)
		}
		rep.Count("straggler_completions_while_open", st.stragglers)
		if st.maxOpenPhases >= 2 {
			rep.Count("cases_ge2_open_phases", 1)
		}
		if st.maxOpenPhases >= 4 {
			rep.Count("cases_ge4_open_phases", 1)
		}
		if corr && sh != nil {
			sh.Add(id, coqCase(c, obs, log))
			rep.CorrCases++
			rep.CaseInputs[strconv.Itoa(id)] = c
			rep.Sample(map[string]interface{}{"input": c, "observed": obs, "listener_log": log})
		}
		if a.Only >= 0 {
			out, _ := json.MarshalIndent(map[string]interface{}{"input": c, "observed": obs, "listener_log": log,
				"trace": traceLines(c, obs, log, marks), "coq": coqCase(c, obs, log)}, "", " ")
			fmt.Println(string(out))
		}
	}
	if a.Only >= 0 {
		runOne(a.Only, false)
		for _, f := range rep.MonitorFailures {
			fmt.Printf("MONITOR-FAIL clause=%s signature=%s %s\n", f.Clause, f.Signature, f.Detail)
		}
		return
	}
	for id := 0; id < nMon; id++ {
		runOne(id, id < nCorr)
		if id%500 == 499 {
			// every entry of the finished cases has exited; drop their statistic nodes
			stat.ResetResourceNodeMap()
		}
	}
	rep.DistinctNontrivial = dist.N()
	rep.Consts["circuitbreaker.RuleCheckSlotOrder"] = circuitbreaker.RuleCheckSlotOrder
	rep.Consts["circuitbreaker.StatSlotOrder"] = circuitbreaker.StatSlotOrder
	rep.Consts["float64_equals_eps_ok"] = util.Float64Equals(0, 0.9e-8) && !util.Float64Equals(0, 1e-8)
	if sh != nil {
		rep.Shards = sh.Close()
	}
	if err := os.MkdirAll(a.Out, 0o755); err != nil {
		fmt.Fprintln(os.Stderr, err)
		os.Exit(2)
	}
	if err := rep.Write(a.Out); err != nil {
		fmt.Fprintln(os.Stderr, err)
		os.Exit(2)
	}
}
