//go:build verif

// vh-c06: correspondence + monitor harness for property C06 (hot-parameter concurrency rules).
package main

import (
	"encoding/json"
	"fmt"
	"os"
	"strconv"
	"time"

	"github.com/alibaba/sentinel-golang/core/hotspot"

	"vh/internal/cli"
	"vh/internal/emit"
	"vh/internal/env"
	kit "vh/internal/hotspotkit"
	"vh/internal/rng"
	"vh/internal/vclock"
)

const clk0 = uint64(1700000000000)

// ---- generator ------------------------------------------------------------------------------

func pickVals(r *rng.R, n int) []int {
	p := r.Perm(kit.PoolSize)
	vs := make([]int, n)
	for i := range vs {
		vs[i] = p[i] + 1
	}
	return vs
}

func genConcRule(r *rng.R, vals []int) kit.Rule {
	ru := kit.Rule{Metric: 0, Behavior: r.Intn(2)}
	ru.Thr = r.PickI(0, 1, 1, 1, 2, 2, 3, 5)
	ru.Idx = int(r.PickI(0, 0, 0, 0, 1, -1, -1, -2, 3))
	if r.Chance(1, 5) {
		ru.Key = 1 + r.Intn(2)
		if ru.Idx > 0 {
			ru.Idx = 0
		}
	}
	ru.Cap = r.PickI(0, 0, 0, 0, 1, 2, 3)
	// fields that only matter for QPS rules are still set: they must be ignored
	ru.Dur = r.PickI(0, 1)
	if ru.Behavior == 0 {
		ru.Burst = r.PickI(0, 3)
	} else {
		ru.MaxQ = r.PickI(0, 100)
	}
	if r.Chance(4, 10) {
		n := 1 + r.Intn(2)
		used := map[int]bool{}
		for i := 0; i < n; i++ {
			v := vals[r.Intn(len(vals))]
			if used[v] {
				continue
			}
			used[v] = true
			ru.Spec = append(ru.Spec, [2]int64{int64(v), r.PickI(0, 1, 2, 4, -1)})
		}
	}
	return ru
}

func genQPSRule(r *rng.R) kit.Rule {
	return kit.Rule{Metric: 1, Behavior: 0, Thr: r.PickI(1, 2, 3), Dur: 1, Idx: int(r.PickI(0, 0, -1)), Burst: r.PickI(0, 1)}
}

func genCase(r *rng.R, id int) kit.Case {
	c := kit.Case{ID: id, Adv: true}
	if id == 0 { // witness of C06-F1: capacity 1, the cell of a live value is evicted
		c.Rules = [][]kit.Rule{{{Metric: 0, Thr: 1, Cap: 1}}}
		q := func(v int) *kit.Req { return &kit.Req{Args: []int{v}, Batch: 1} }
		c.Ops = []kit.Op{{Kind: "enter", Req: q(5)}, {Kind: "enter", Req: q(6)}, {Kind: "enter", Req: q(5)},
			{Kind: "exit", K: 0}, {Kind: "exit", K: 1}, {Kind: "exit", K: 2},
			{Kind: "enter", Req: q(5)}, {Kind: "enter", Req: q(5)}, {Kind: "enter", Req: q(5)}}
		return c
	}
	if id%10 == 9 {
		return genPositions(r, id)
	}
	nvals := 1 + r.Intn(4)
	vals := pickVals(r, nvals)
	nanCase := r.Chance(1, 25)
	nextNaN := kit.NaNBase
	nres := 1
	if r.Chance(1, 4) {
		nres = 2
	}
	for ri := 0; ri < nres; ri++ {
		var rs []kit.Rule
		switch r.Intn(10) {
		case 0, 1, 2, 3, 4, 5:
			rs = []kit.Rule{genConcRule(r, vals)}
		case 6, 7:
			rs = []kit.Rule{genConcRule(r, vals), genConcRule(r, vals)}
		case 8:
			rs = []kit.Rule{genQPSRule(r), genConcRule(r, vals)}
		default:
			rs = []kit.Rule{genConcRule(r, vals), genQPSRule(r)}
		}
		c.Rules = append(c.Rules, rs)
	}
	nops := 25 + r.Intn(40)
	var live []int
	drain := r.Bool()
	for len(c.Ops) < nops {
		x := r.Intn(100)
		switch {
		case x < 4:
			c.Ops = append(c.Ops, kit.Op{Kind: "tick", Ms: r.PickI(0, 1, 500, 1001, 3000)})
		case x < 40 && len(live) > 0:
			j := r.Intn(len(live))
			c.Ops = append(c.Ops, kit.Op{Kind: "exit", K: live[j]})
			live = append(live[:j], live[j+1:]...)
		case x < 44 && len(c.Ops) > 0:
			c.Ops = append(c.Ops, kit.Op{Kind: "exit", K: r.Intn(len(c.Ops))}) // blocked, exited or non-entry op
		default:
			res := r.Intn(nres)
			q := &kit.Req{Batch: uint32(r.PickI(1, 1, 1, 1, 2, 0, 5))}
			val := func() int {
				switch y := r.Intn(40); {
				case y < 33:
					v := vals[r.Intn(len(vals))]
					if v == kit.ZeroFloatID && r.Bool() {
						return kit.NegZeroArg
					}
					return v
				case y < 36:
					return 0
				case y < 38 && nanCase:
					nextNaN++
					return nextNaN
				default:
					return 1 + r.Intn(kit.PoolSize)
				}
			}
			nargs := int(r.PickI(0, 1, 1, 1, 1, 2, 2, 3))
			for i := 0; i < nargs; i++ {
				q.Args = append(q.Args, val())
			}
			hasKey := map[int]bool{}
			for _, rr := range c.Rules[res] {
				if rr.Key != 0 && !hasKey[rr.Key] && r.Chance(7, 10) {
					hasKey[rr.Key] = true
					q.Atts = append(q.Atts, [2]int{rr.Key, val()})
				}
			}
			live = append(live, len(c.Ops)) // may be blocked: then the later exit is a no-op
			c.Ops = append(c.Ops, kit.Op{Kind: "enter", Res: res, Req: q})
		}
	}
	if drain {
		p := r.Perm(len(live))
		for _, j := range p {
			c.Ops = append(c.Ops, kit.Op{Kind: "exit", K: live[j]})
		}
	}
	return c
}

// genPositions: one or two resources, each guarded by two or three concurrency rules bound to
// DIFFERENT argument positions (0, 1, -1 with three arguments, or a ParamKey), small thresholds;
// entries whose arguments at those positions differ, interleaved with entries that carry NO
// arguments at all (they must occupy nothing, whatever a recycled context held before) and with
// entries on the other resource; exits in random order and a final drain in half of the cases,
// so that every unit taken under every rule has to come back.
func genPositions(r *rng.R, id int) kit.Case {
	c := kit.Case{ID: id, Adv: true}
	vals := pickVals(r, 4)
	nres := 1 + r.Intn(2)
	for ri := 0; ri < nres; ri++ {
		r0 := kit.Rule{Metric: 0, Idx: 0, Thr: r.PickI(1, 1, 2, 3)}
		r1 := kit.Rule{Metric: 0, Idx: 1, Thr: r.PickI(1, 1, 2)}
		rs := []kit.Rule{r0, r1}
		switch r.Intn(4) {
		case 0:
			rs = append(rs, kit.Rule{Metric: 0, Idx: -1, Thr: r.PickI(1, 2)})
		case 1:
			rs = append(rs, kit.Rule{Metric: 0, Key: 1, Idx: -2, Thr: r.PickI(1, 2)})
		}
		if r.Chance(1, 3) {
			rs[1].Spec = [][2]int64{{int64(vals[r.Intn(len(vals))]), r.PickI(0, 1, 2)}}
		}
		if r.Bool() {
			rs[0], rs[1] = rs[1], rs[0]
		}
		c.Rules = append(c.Rules, rs)
	}
	nops := 30 + r.Intn(30)
	var live []int
	for len(c.Ops) < nops {
		x := r.Intn(100)
		switch {
		case x < 35 && len(live) > 0:
			j := r.Intn(len(live))
			c.Ops = append(c.Ops, kit.Op{Kind: "exit", K: live[j]})
			live = append(live[:j], live[j+1:]...)
		case x < 50: // an entry without any argument (and without attachments)
			live = append(live, len(c.Ops))
			c.Ops = append(c.Ops, kit.Op{Kind: "enter", Res: r.Intn(nres), Req: &kit.Req{Batch: 1}})
		default:
			res := r.Intn(nres)
			q := &kit.Req{Batch: 1}
			nargs := int(r.PickI(1, 2, 2, 2, 3, 3))
			for i := 0; i < nargs; i++ {
				q.Args = append(q.Args, vals[r.Intn(len(vals))])
			}
			for _, rr := range c.Rules[res] {
				if rr.Key != 0 && r.Chance(6, 10) {
					q.Atts = append(q.Atts, [2]int{rr.Key, vals[r.Intn(len(vals))]})
				}
			}
			live = append(live, len(c.Ops))
			c.Ops = append(c.Ops, kit.Op{Kind: "enter", Res: res, Req: q})
		}
	}
	if r.Bool() {
		for _, j := range r.Perm(len(live)) {
			c.Ops = append(c.Ops, kit.Op{Kind: "exit", K: live[j]})
		}
		// after the drain every value must be admissible again under every rule
		for ri := 0; ri < nres; ri++ {
			c.Ops = append(c.Ops, kit.Op{Kind: "enter", Res: ri, Req: &kit.Req{Args: []int{vals[0], vals[1], vals[2]}, Batch: 1}})
		}
	}
	return c
}

// ---- monitor: the property stated on the implementation's trace ----------------------------

type ruleLedger struct {
	live     map[int]int64 // value -> entries admitted with it and not yet exited
	seen     map[int]bool
	exceeded bool // more distinct values than the parameter capacity have been seen
}

type liveEntry struct {
	res  int
	keys []int // per rule of the resource: the value the entry occupies (0 = none)
}

var (
	failSeen  = map[string]bool{}
	failCount = map[string]int{}
)

func failOnce(rep *emit.Report, c kit.Case, clause, sig, detail string) {
	key := strconv.Itoa(c.ID) + "/" + sig
	if failSeen[key] || failCount[sig] >= 12 {
		return
	}
	failSeen[key] = true
	failCount[sig]++
	rep.Fail(c.ID, clause, sig, detail, c)
}

const evictedSig = "concurrency-cell-evicted-while-value-in-flight"

type monResult struct {
	nontrivial bool
	maxLive    int
	exceeded   bool
	overlap    bool // two entries with different values alive at once
}

func monitor(c kit.Case, obs []kit.Obs, finals [][]kit.Final, corrupt []int, rep *emit.Report) (mr monResult) {
	led := make([][]*ruleLedger, len(c.Rules))
	for ri, rs := range c.Rules {
		for range rs {
			led[ri] = append(led[ri], &ruleLedger{live: map[int]int64{}, seen: map[int]bool{}})
		}
	}
	entries := map[int]*liveEntry{}
	sawPass, sawBlock := false, false
	for i, o := range c.Ops {
		switch o.Kind {
		case "enter":
			ob := obs[i]
			rules := c.Rules[o.Res]
			blocked := ob.Kind == "block"
			if blocked && ob.Type != "BlockTypeHotSpotParamFlow" {
				failOnce(rep, c, "C06_block_report", "wrong-block-type", fmt.Sprintf("op %d: block type %s", i, ob.Type))
			}
			if blocked && (ob.Idx < 0 || ob.Idx >= len(rules) || kit.Extract(rules[ob.Idx], *o.Req) == 0) {
				failOnce(rep, c, "C06_decision", "blocked-by-rule-whose-argument-is-absent", fmt.Sprintf("op %d: triggered rule %d", i, ob.Idx))
				continue
			}
			le := &liveEntry{res: o.Res, keys: make([]int, len(rules))}
			for j, ru := range rules {
				if blocked && ob.Idx < j {
					break
				}
				if ru.Metric != 0 {
					continue
				}
				k := kit.Extract(ru, *o.Req)
				if k == 0 {
					continue
				}
				L := led[o.Res][j]
				if !L.seen[k] {
					L.seen[k] = true
					if int64(len(L.seen)) > ru.CacheSize() {
						L.exceeded = true
						mr.exceeded = true
					}
				}
				admittedHere := !(blocked && ob.Idx == j)
				want := L.live[k] < ru.ThresholdFor(k)
				if admittedHere != want {
					sig := "admitted-at-or-over-threshold"
					if want {
						sig = "rejected-below-threshold"
					}
					if L.exceeded {
						sig = evictedSig
					}
					failOnce(rep, c, "C06_decision", sig, fmt.Sprintf("op %d rule %d value %d: in flight %d, threshold %d, admitted=%v", i, j, k, L.live[k], ru.ThresholdFor(k), admittedHere))
				} else if !admittedHere && (!ob.HasTV || ob.TV != L.live[k]+1) && !L.exceeded {
					failOnce(rep, c, "C06_block_report", "wrong-triggered-value", fmt.Sprintf("op %d rule %d value %d: reported %d (present=%v), in flight %d", i, j, k, ob.TV, ob.HasTV, L.live[k]))
				}
				le.keys[j] = k
			}
			if blocked {
				sawBlock = true
				continue
			}
			sawPass = true
			entries[i] = le
			for j, k := range le.keys {
				if k != 0 {
					led[o.Res][j].live[k]++
				}
			}
			if len(entries) > mr.maxLive {
				mr.maxLive = len(entries)
			}
			for _, e2 := range entries {
				if e2 != le && e2.res == le.res {
					for j := range le.keys {
						if le.keys[j] != 0 && e2.keys[j] != 0 && le.keys[j] != e2.keys[j] {
							mr.overlap = true
						}
					}
				}
			}
		case "exit":
			if le, ok := entries[o.K]; ok {
				delete(entries, o.K)
				for j, k := range le.keys {
					if k != 0 {
						led[le.res][j].live[k]--
					}
				}
			}
		}
	}
	// the per-value in-flight figure equals the true number of live entries (0 after all exits)
	for ri, rs := range c.Rules {
		for j, ru := range rs {
			if ru.Metric != 0 {
				continue
			}
			L := led[ri][j]
			inCache := map[int]bool{}
			for _, cell := range finals[ri][j].Conc {
				inCache[cell.Key] = true
				if cell.HasVal && cell.Val != L.live[cell.Key] {
					sig := "counter-differs-from-live-entries"
					if L.exceeded {
						sig = evictedSig
					}
					failOnce(rep, c, "C06_counter_exact", sig, fmt.Sprintf("res %d rule %d value %d: counter %d, live entries %d", ri, j, cell.Key, cell.Val, L.live[cell.Key]))
				}
			}
			for k, n := range L.live {
				if n != 0 && !inCache[k] {
					sig := "live-value-without-counter"
					if L.exceeded {
						sig = evictedSig
					}
					failOnce(rep, c, "C06_counter_exact", sig, fmt.Sprintf("res %d rule %d value %d: %d live entries, no counter", ri, j, k, n))
				}
			}
		}
	}
	if len(corrupt) > 0 {
		failOnce(rep, c, "C06_release_own_unit", "live-entry-arguments-overwritten", fmt.Sprintf("entries of ops %v no longer hold the arguments they were created with", corrupt))
	}
	mr.nontrivial = sawPass && sawBlock
	return
}

func main() {
	a := cli.Parse()
	env.Init(env.Options{})
	clk := vclock.New(clk0)
	clk.Install()
	root := rng.New(a.Seed)
	rep := emit.NewReport("C06", a.Seed, a.Tier)
	rep.Rule = "1-2 resources x 1-2 hotspot rules (concurrency with either control behaviour, thresholds 0-5, specific items incl. 0 and -1, ParamIndex 0/1/-1/-2/3, ParamKey, ParamsMaxCapacity 0(default 4000)/1-3; sometimes a QPS rule before or after), 25-64 operations: entries over 1-4 values of kinds int/int64/int32/uint8/string/bool/float64/float32/struct (plus nil, -0.0, NaN) kept alive together and exited in random order, exits of blocked / already exited entries, optional drain of all live entries. One case in ten guards each resource with 2-3 concurrency rules bound to different argument positions (0, 1, -1 / ParamKey) and interleaves entries whose arguments differ per position with entries carrying no arguments at all, then drains and re-enters. Plus, monitor only: 300 two-phase schedules (2-4 goroutines parked at yield 400 between the rule check and the statistic slots, exits of counted entries in between; conservation and the sequential decision asserted at quiescent points) and 4 real-thread configurations (two steady: 8-16 goroutines x 1500 Entry/Exit pairs per round on 1-3 cached values, in one of them every admitted entry is handed to a partner goroutine and exited by both at once; two first-access: up to 4000 rounds in which 16-32 goroutines are released together on 1-2 fresh values never seen before; argument by index or ParamKey; at quiescence every cell reads zero and exactly `threshold` sequential entries per value are admitted). One case in three is driven by a caller that re-uses ONE argument slice and ONE attachment map for all requests and overwrites them after every Entry; one in three has a reload of the unchanged rules in progress (LoadRules / LoadRulesOfResource with a probe rule whose controller generator runs the next 0-5 operations, and fails in a third of them): decisions, counters and controller lists must be as without it. Non-trivial = at least one admission and one rejection; distinct by full input."
	nCorr := a.Pick(a.N, 230, 6000)
	nMon := a.Pick(a.Mon, 4000, 80000)
	if a.Search {
		nCorr = 0
		nMon *= 5
	}
	var sh *emit.Shards
	if a.Only < 0 && !a.Search {
		var err error
		sh, err = emit.NewShards(a.Out, "Corr.Run_C06", a.Shards, "")
		if err != nil {
			panic(err)
		}
		sh.Add(0, fmt.Sprintf("HK %d %d %d", hotspot.ConcurrencyMaxCount, hotspot.ParamsCapacityBase, hotspot.ParamsMaxCapacity))
	}
	dist := emit.NewDistinct()
	var cur kit.Case
	kit.StartWatchdog(10*time.Second, func() {
		rep.Fail(cur.ID, "C06_decision", "entry-or-exit-does-not-return",
			"an Entry / Exit call of this case did not return within 10 s of real time", cur)
		if a.Only >= 0 {
			for _, f := range rep.MonitorFailures {
				fmt.Printf("MONITOR-FAIL clause=%s signature=%s %s\n", f.Clause, f.Signature, f.Detail)
			}
			os.Exit(0)
		}
		rep.DistinctNontrivial = dist.N()
		if sh != nil {
			rep.Shards = sh.Close()
		}
		if err := rep.Write(a.Out); err != nil {
			fmt.Fprintln(os.Stderr, err)
			os.Exit(2)
		}
		os.Exit(0)
	})
	runOne := func(id int, corr bool) {
		c := genCase(root.Fork(uint64(id)), id)
		if id >= 1 { // driving modes the model cannot see: caller-owned containers, a reload in progress
			kit.Decorate(root.Fork(uint64(id)).Fork(0xDEC0), &c)
		}
		cur = c
		kit.Beat()
		clk.SetMs(clk0)
		obs, finals, corrupt := kit.Run("c06", c, clk)
		rep.Evaluations++
		mr := monitor(c, obs, finals, corrupt, rep)
		for _, is := range kit.LastIssues {
			failOnce(rep, c, "C06_decision", is.Sig, is.Detail)
		}
		if c.Reuse {
			rep.Count("cases_caller_reuses_arg_slice_and_attachment_map", 1)
		}
		if c.Reload != nil {
			rep.Count("cases_with_reload_in_progress", 1)
			rep.Count("ops_decided_inside_a_reload", c.Reload.N)
		}
		if mr.nontrivial {
			b, _ := json.Marshal(c)
			dist.Add(string(b))
		}
		if mr.exceeded {
			rep.Count("cases_capacity_exceeded", 1)
		}
		if mr.overlap {
			rep.Count("cases_with_different_values_alive_together", 1)
		}
		rep.Count("max_live_entries_total", mr.maxLive)
		for ri := range c.Rules {
			for _, ru := range c.Rules[ri] {
				rep.Count("rule_metric_"+strconv.Itoa(ru.Metric), 1)
				if ru.Cap > 0 {
					rep.Count("rule_small_capacity", 1)
				}
				if len(ru.Spec) > 0 {
					rep.Count("rule_with_specific_items", 1)
				}
				if ru.Key != 0 {
					rep.Count("rule_with_param_key", 1)
				}
				if ru.Thr == 0 {
					rep.Count("rule_threshold_zero", 1)
				}
			}
		}
		for i, o := range c.Ops {
			rep.Count("op_"+o.Kind, 1)
			if o.Kind == "enter" {
				rep.Count("outcome_"+obs[i].Kind, 1)
				for _, x := range o.Req.Args {
					rep.Count("arg_kind_"+kit.KindOf(x), 1)
				}
			}
		}
		if corr && sh != nil {
			sh.Add(id, kit.Coq(c, clk0, obs, finals))
			rep.CorrCases++
			rep.CaseInputs[strconv.Itoa(id)] = c
			if id >= 1 {
				rep.Sample(map[string]interface{}{"input": c, "observed": obs})
			}
		}
		if a.Only >= 0 {
			out, _ := json.MarshalIndent(map[string]interface{}{"input": c, "observed": obs, "finals": finals, "corrupt_args": corrupt, "coq": kit.Coq(c, clk0, obs, finals)}, "", " ")
			fmt.Println(string(out))
		}
	}
	if a.Only >= parBase {
		cur = kit.Case{ID: a.Only}
		runPar(genPar(root.Fork(uint64(a.Only)), a.Only-parBase), rep)
		for _, f := range rep.MonitorFailures {
			fmt.Printf("MONITOR-FAIL clause=%s signature=%s %s\n", f.Clause, f.Signature, f.Detail)
		}
		return
	}
	if a.Only >= schedBase {
		cur = kit.Case{ID: a.Only}
		runSched(genSched(root.Fork(uint64(a.Only)), a.Only-schedBase), rep)
		for _, f := range rep.MonitorFailures {
			fmt.Printf("MONITOR-FAIL clause=%s signature=%s %s\n", f.Clause, f.Signature, f.Detail)
		}
		return
	}
	if a.Only >= 0 {
		runOne(a.Only, false)
		for _, f := range rep.MonitorFailures {
			fmt.Printf("MONITOR-FAIL clause=%s signature=%s %s\n", f.Clause, f.Signature, f.Detail)
		}
		return
	}
	for id := 0; id < nMon; id++ {
		runOne(id, id < nCorr)
	}
	// monitor-only leg: goroutines parked between rule check and statistic slots (yield 400)
	nSched := a.Pick(0, 300, 6000)
	if a.Search {
		nSched *= 5
	}
	for i := 0; i < nSched; i++ {
		cur = kit.Case{ID: schedBase + i}
		kit.Beat()
		runSched(genSched(root.Fork(uint64(schedBase+i)), i), rep)
		rep.Evaluations++
		rep.Count("extra_two_phase_schedules", 1)
	}
	// monitor-only search leg: real goroutines, facts that hold under every schedule (par.go)
	nPar := a.Pick(0, 4, 16)
	for i := 0; i < nPar; i++ {
		cur = kit.Case{ID: parBase + i}
		kit.Beat()
		runPar(genPar(root.Fork(uint64(parBase+i)), i), rep)
		rep.Evaluations++
		rep.Count("extra_real_thread_configurations", 1)
	}
	rep.DistinctNontrivial = dist.N()
	rep.Consts["hotspot.ConcurrencyMaxCount"] = hotspot.ConcurrencyMaxCount
	rep.Consts["hotspot.StatSlotOrder"] = hotspot.StatSlotOrder
	rep.Consts["hotspot.RuleCheckSlotOrder"] = hotspot.RuleCheckSlotOrder
	if sh != nil {
		rep.Shards = sh.Close()
	}
	if err := rep.Write(a.Out); err != nil {
		fmt.Fprintln(os.Stderr, err)
		os.Exit(2)
	}
}
