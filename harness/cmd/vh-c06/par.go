//go:build verif

package main

// Real-thread search leg of vh-c06 (monitor only, pseudo ids parBase+i): many goroutines call Entry /
// Exit on a resource guarded by one hotspot concurrency rule, on a handful of values, with nothing
// scheduling them but the Go runtime. What is asserted holds under EVERY schedule:
//   - at quiescence (all goroutines joined, every admitted entry exited) the cell of every value
//     reads zero - each admitted entry took one unit and gave back exactly that unit;
//   - a sequential probe made at that point admits exactly `threshold` entries per value and refuses
//     the next one (the figure is neither above nor below the true number of live entries);
//   - no Entry / Exit panics.
// Nothing is asserted while the goroutines run (the check-to-increment window is the k-bound of
// C02/C04). The leg is bounded by iteration counts; real time is consulted only to stop EARLY (a
// deadline ends the search, it never decides the verdict), so a run on a correct tree cannot fail.
// It finds lost updates on the per-value cell that need two accesses of different goroutines to
// interleave where the instrumented code has no yield point.
//
// Shared entries (DoubleExit): the goroutines work in pairs; one of a pair enters and hands the admitted
// entry to its partner through an unbuffered channel, then BOTH call Exit on it at once (a handler and a
// timeout watchdog finishing the same call). An entry releases its unit once, whoever exits it and however
// often: at quiescence no cell may read anything but zero - in particular never a negative figure.
//
// Two kinds of rounds. Steady rounds: the goroutines loop over a few values that stay cached.
// First-access rounds (Burst > 0): every round takes FRESH values that the rule has never seen (ints
// counting up from FreshBase, the rule's parameter capacity is far above their number), all goroutines
// are released together on the same fresh value, hold their entry for a moment and exit; then the
// round's cells are read. This is where the creation of a cell races with its first increments.

import (
	"fmt"
	"sync"
	"time"

	sentinel "github.com/alibaba/sentinel-golang/api"
	"github.com/alibaba/sentinel-golang/core/base"
	"github.com/alibaba/sentinel-golang/core/hotspot"

	"vh/internal/emit"
	kit "vh/internal/hotspotkit"
	"vh/internal/rng"
)

const parBase = 5000000

type parCase struct {
	ID         int    `json:"id"`
	Kind       string `json:"kind"`
	Thr        int64  `json:"threshold"`
	Values     []int  `json:"values"`
	Key        int    `json:"param_key"` // 0: the rule selects argument 0, else the attachment key id
	Goroutines int    `json:"goroutines"`
	Iters      int    `json:"entries_per_goroutine_and_round"`
	Rounds     int    `json:"rounds"`
	BudgetMs   int    `json:"stop_early_after_ms"`
	DoubleExit bool   `json:"every_entry_exited_by_two_goroutines_at_once,omitempty"`
	Burst      int    `json:"first_access_rounds"` // > 0: this many rounds on fresh values instead of the steady rounds
	FreshPer   int    `json:"fresh_values_per_round"`
	FreshBase  int    `json:"first_fresh_value"`
}

func genPar(r *rng.R, i int) parCase {
	pc := parCase{ID: parBase + i, Kind: "real-thread-entry-exit", Goroutines: 8 + 4*r.Intn(3), Iters: 1500, Rounds: 8, BudgetMs: 1200}
	pc.Values = pickVals(r, 1+i%3) // the first configuration hammers a single value
	pc.Thr = int64(pc.Goroutines) / r.PickI(1, 2, 4)
	if i%3 == 2 {
		pc.Key = 1
	}
	if i%4 == 2 {
		pc.Kind, pc.DoubleExit = "real-thread-concurrent-double-exit", true
		pc.Goroutines = 8 + 4*r.Intn(3) // pairs: this many enterers, as many partners
	}
	if i%2 == 1 { // first-access rounds
		pc.Kind = "real-thread-first-access-of-fresh-values"
		pc.Burst, pc.FreshPer, pc.FreshBase = 4000, 1+r.Intn(2), 1000000*(i+1)
		pc.Goroutines = 16 + 8*r.Intn(3)
		pc.Thr = int64(pc.Goroutines) / r.PickI(1, 2)
		pc.Values, pc.Iters, pc.Rounds = nil, 0, 0
	}
	return pc
}

func freshOpts(pc parCase, v int) []sentinel.EntryOption {
	if pc.Key != 0 {
		return []sentinel.EntryOption{sentinel.WithAttachments(map[interface{}]interface{}{kit.KeyStrings[pc.Key-1]: v})}
	}
	return []sentinel.EntryOption{sentinel.WithArgs(v)}
}

// runBurst: the first-access rounds of pc (see the file comment)
func runBurst(pc parCase, res string, fail func(sig, detail string), rep *emit.Report) {
	deadline := time.Now().Add(time.Duration(pc.BudgetMs) * time.Millisecond)
	tcs := hotspot.VerifTrafficControllersFor(res)
	if len(tcs) != 1 {
		fail("rule-not-in-force", fmt.Sprintf("%d controllers", len(tcs)))
		return
	}
	cells := tcs[0].BoundMetric().ConcurrencyCounter
	rounds := 0
	var admitted int64
	for round := 0; round < pc.Burst; round++ {
		rounds++
		vals := make([]int, pc.FreshPer)
		for j := range vals {
			vals[j] = pc.FreshBase + round*pc.FreshPer + j
		}
		var wg sync.WaitGroup
		var mu sync.Mutex
		var panics []string
		start := make(chan struct{})
		adm := make([]int64, pc.Goroutines)
		for g := 0; g < pc.Goroutines; g++ {
			wg.Add(1)
			go func(g int) {
				defer wg.Done()
				defer func() {
					if p := recover(); p != nil {
						mu.Lock()
						panics = append(panics, fmt.Sprint(p))
						mu.Unlock()
					}
				}()
				<-start
				var live []*base.SentinelEntry
				for _, v := range vals { // everybody starts on vals[0]
					if e, b := sentinel.Entry(res, freshOpts(pc, v)...); b == nil {
						live = append(live, e)
						adm[g]++
					}
				}
				for _, e := range live {
					e.Exit()
				}
			}(g)
		}
		close(start)
		wg.Wait()
		if round%64 == 0 {
			kit.Beat()
		}
		for g := range adm {
			admitted += adm[g]
		}
		if len(panics) > 0 {
			fail("entry-or-exit-panics", fmt.Sprintf("first-access round %d: %d goroutines panicked, first: %s", round, len(panics), panics[0]))
			break
		}
		bad := false
		for _, v := range vals {
			if p, ok := cells.Get(v); ok && p != nil && *p != 0 {
				bad = true
				fail("counter-not-zero-after-all-entries-exited", fmt.Sprintf(
					"first-access round %d: %d goroutines entered together with the fresh values %v (threshold %d) and have all exited; the cell of value %d reads %d",
					round, pc.Goroutines, vals, pc.Thr, v, *p))
			}
		}
		if !bad && round%256 == 0 { // sequential probe on this round's first value
			v := vals[0]
			var live []*base.SentinelEntry
			for k := int64(0); k <= pc.Thr; k++ {
				if e, b := sentinel.Entry(res, freshOpts(pc, v)...); b == nil {
					live = append(live, e)
				}
			}
			for _, e := range live {
				e.Exit()
			}
			if int64(len(live)) != pc.Thr {
				bad = true
				fail("quiescent-admissions-differ-from-threshold", fmt.Sprintf(
					"first-access round %d: with no entry in flight %d of %d sequential entries for value %d were admitted, threshold %d",
					round, len(live), pc.Thr+1, v, pc.Thr))
			}
		}
		if bad || time.Now().After(deadline) {
			break
		}
	}
	rep.Count("real_thread_first_access_rounds", rounds)
	rep.Count("real_thread_entries_admitted", int(admitted))
}

func parOpts(pc parCase, v int) []sentinel.EntryOption {
	if pc.Key != 0 {
		return kit.Options(kit.Req{Atts: [][2]int{{pc.Key, v}}, Batch: 1})
	}
	return kit.Options(kit.Req{Args: []int{v}, Batch: 1})
}

func runPar(pc parCase, rep *emit.Report) {
	res := fmt.Sprintf("c06par-%d", pc.ID)
	ru := kit.Rule{Metric: 0, Thr: pc.Thr, Key: pc.Key}
	if pc.Burst > 0 {
		ru.Cap = int64(pc.Burst*pc.FreshPer) + 1000 // every fresh value keeps its cell: the capacity is never exceeded
	}
	rule := kit.GoRule(ru, res, 0)
	if _, err := hotspot.LoadRulesOfResource(res, []*hotspot.Rule{rule}); err != nil {
		panic(err)
	}
	defer hotspot.ClearRulesOfResource(res)
	fail := func(sig, detail string) {
		if failCount[sig] >= 3 {
			return
		}
		failCount[sig]++
		rep.Fail(pc.ID, "C06_counter_exact", sig, detail, pc)
	}
	if pc.Burst > 0 {
		runBurst(pc, res, fail, rep)
		return
	}
	deadline := time.Now().Add(time.Duration(pc.BudgetMs) * time.Millisecond)
	var admitted, refused int64
	for round := 0; round < pc.Rounds; round++ {
		var wg sync.WaitGroup
		var mu sync.Mutex
		var panics []string
		adm := make([]int64, pc.Goroutines)
		ref := make([]int64, pc.Goroutines)
		for g := 0; g < pc.Goroutines; g++ {
			var hand chan *base.SentinelEntry
			if pc.DoubleExit { // the partner: exits every entry it is handed, at the same time as the enterer
				hand = make(chan *base.SentinelEntry)
				wg.Add(1)
				go func() {
					defer wg.Done()
					defer func() {
						if p := recover(); p != nil {
							mu.Lock()
							panics = append(panics, fmt.Sprint(p))
							mu.Unlock()
							for range hand { // keep the enterer going
							}
						}
					}()
					for e := range hand {
						e.Exit()
					}
				}()
			}
			wg.Add(1)
			go func(g int) {
				defer wg.Done()
				if hand != nil {
					defer close(hand)
				}
				defer func() {
					if p := recover(); p != nil {
						mu.Lock()
						panics = append(panics, fmt.Sprint(p))
						mu.Unlock()
					}
				}()
				for it := 0; it < pc.Iters; it++ {
					v := pc.Values[(g+it)%len(pc.Values)]
					e, b := sentinel.Entry(res, parOpts(pc, v)...)
					if b != nil {
						ref[g]++
						continue
					}
					adm[g]++
					if hand != nil {
						hand <- e
					}
					e.Exit()
				}
			}(g)
		}
		wg.Wait()
		kit.Beat()
		for g := range adm {
			admitted += adm[g]
			refused += ref[g]
		}
		if len(panics) > 0 {
			fail("entry-or-exit-panics", fmt.Sprintf("round %d: %d goroutines panicked, first: %s", round, len(panics), panics[0]))
			break
		}
		// quiescence: every admitted entry has been exited
		bad := false
		tcs := hotspot.VerifTrafficControllersFor(res)
		if len(tcs) != 1 {
			fail("rule-not-in-force", fmt.Sprintf("%d controllers", len(tcs)))
			break
		}
		for _, v := range pc.Values {
			p, ok := tcs[0].BoundMetric().ConcurrencyCounter.Get(kit.GoValue(v))
			if ok && p != nil && *p != 0 {
				bad = true
				sig := "counter-not-zero-after-all-entries-exited"
				if *p < 0 {
					sig = "counter-negative-after-all-entries-exited"
				}
				fail(sig, fmt.Sprintf(
					"round %d (%d goroutines x %d Entry/Exit pairs on values %v, threshold %d): all entries exited, the cell of value %d reads %d",
					round, pc.Goroutines, pc.Iters, pc.Values, pc.Thr, v, *p))
			}
		}
		// a sequential probe: exactly `threshold` entries per value are admitted
		for _, v := range pc.Values {
			var live []*base.SentinelEntry
			n := int64(0)
			for k := int64(0); k <= pc.Thr; k++ {
				e, b := sentinel.Entry(res, parOpts(pc, v)...)
				if b == nil {
					n++
					live = append(live, e)
				}
			}
			for _, e := range live {
				e.Exit()
			}
			if n != pc.Thr {
				bad = true
				fail("quiescent-admissions-differ-from-threshold", fmt.Sprintf(
					"round %d: with no entry in flight %d of %d sequential entries for value %d were admitted, threshold %d",
					round, n, pc.Thr+1, v, pc.Thr))
			}
		}
		if bad || time.Now().After(deadline) {
			break
		}
	}
	rep.Count("real_thread_entries_admitted", int(admitted))
	rep.Count("real_thread_entries_refused", int(refused))
}
