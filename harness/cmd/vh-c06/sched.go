//go:build verif

package main

// Two-phase Entry leg of vh-c06 (monitor only, pseudo ids schedBase+i): several goroutines call
// Entry on a resource guarded by one hotspot concurrency rule; each is parked at the slot chain's
// yield point 400 - between the rule check (Slot.Check: the cell is created, the count compared)
// and the statistic slots (ConcurrencyStatSlot.OnEntryPassed: the count incremented). The main
// goroutine steps them in a generated order and exits live entries in between, so an Exit can fall
// between another Entry's check and its increment. What the property promises whatever the
// schedule: at every quiescent point (no goroutine between check and increment) the per-value
// counter equals the number of live entries admitted with the value, and a check made at a
// quiescent point admits iff that number is below the threshold; after all have exited every
// counter is 0. (While goroutines are parked between check and increment the count may lag - that
// window is the k-bound of C02/C04 and is not asserted here.)

import (
	"fmt"
	"strconv"

	sentinel "github.com/alibaba/sentinel-golang/api"
	"github.com/alibaba/sentinel-golang/core/base"
	"github.com/alibaba/sentinel-golang/core/hotspot"

	"vh/internal/emit"
	kit "vh/internal/hotspotkit"
	"vh/internal/rng"
	"vh/internal/sched"
)

const schedBase = 3000000

type schedCase struct {
	ID      int    `json:"id"`
	Kind    string `json:"kind"`
	Thr     int64  `json:"threshold"`
	Prefill []int  `json:"prefill_values"` // entries opened (and counted) before the goroutines start
	Threads []int  `json:"thread_values"`  // value each goroutine enters with
	// schedule: t >= 0: step goroutine t (first step = rule check up to yield 400, second = the
	// statistic slots up to return); -(j+1): exit live entry j (prefill entries first, then
	// goroutine entries in thread order), no-op if not live
	Sched []int `json:"schedule"`
}

func genSched(r *rng.R, i int) schedCase {
	sc := schedCase{ID: schedBase + i, Kind: "two-phase-entry-schedule", Thr: r.PickI(1, 2, 2, 3)}
	vals := pickVals(r, 2)
	val := func() int { return vals[r.Intn(len(vals))] }
	if i%3 == 0 {
		// directed: the last counted entry of a value exits while another Entry for the value is
		// between its check and its increment; then the value is filled up again
		v := vals[0]
		sc.Thr = r.PickI(2, 3)
		for j := int64(0); j < sc.Thr-1; j++ {
			sc.Prefill = append(sc.Prefill, v)
		}
		k := int(sc.Thr) + 1
		for t := 0; t < k; t++ {
			sc.Threads = append(sc.Threads, v)
		}
		sc.Sched = append(sc.Sched, 0) // goroutine 0 checks
		for j := range sc.Prefill {
			sc.Sched = append(sc.Sched, -(j + 1)) // all counted entries exit
		}
		sc.Sched = append(sc.Sched, 0) // goroutine 0 increments
		for t := 1; t < k; t++ {
			sc.Sched = append(sc.Sched, t, t)
		}
		return sc
	}
	np := r.Intn(3)
	for j := 0; j < np; j++ {
		sc.Prefill = append(sc.Prefill, val())
	}
	k := 2 + r.Intn(3)
	for t := 0; t < k; t++ {
		sc.Threads = append(sc.Threads, val())
	}
	left := make([]int, k)
	for t := range left {
		left[t] = 2
	}
	remaining := 2 * k
	for remaining > 0 {
		if r.Chance(1, 3) {
			sc.Sched = append(sc.Sched, -(1 + r.Intn(np+k)))
			continue
		}
		t := r.Intn(k)
		if left[t] == 0 {
			continue
		}
		left[t]--
		remaining--
		sc.Sched = append(sc.Sched, t)
	}
	return sc
}

func runSched(sc schedCase, rep *emit.Report) {
	res := "c06s-" + strconv.Itoa(sc.ID)
	ru := kit.Rule{Metric: 0, Thr: sc.Thr, Idx: 0}
	if _, err := hotspot.LoadRulesOfResource(res, []*hotspot.Rule{kit.GoRule(ru, res, 0)}); err != nil {
		panic(err)
	}
	defer hotspot.ClearRulesOfResource(res)
	failed := false
	fail := func(clause, sig, detail string) {
		if !failed {
			failed = true
			rep.Fail(sc.ID, clause, sig, detail, sc)
		}
	}
	opts := func(v int) []sentinel.EntryOption { return kit.Options(kit.Req{Args: []int{v}, Batch: 1}) }
	np, k := len(sc.Prefill), len(sc.Threads)
	ents := make([]*base.SentinelEntry, np+k) // live entries by index
	live := map[int]int64{}                   // monitor's ledger: value -> live entries admitted with it
	counter := func(v int) int64 {
		for _, tc := range hotspot.VerifTrafficControllersFor(res) {
			if p, ok := tc.BoundMetric().ConcurrencyCounter.Get(kit.GoValue(v)); ok && p != nil {
				return *p
			}
		}
		return 0
	}
	conserved := func(when string) {
		seen := map[int]bool{}
		for _, v := range append(append([]int{}, sc.Prefill...), sc.Threads...) {
			if seen[v] {
				continue
			}
			seen[v] = true
			if c := counter(v); c != live[v] {
				fail("C06_counter_exact", "counter-differs-from-live-entries-at-quiescent-point",
					fmt.Sprintf("%s: value %d: counter %d, live entries %d", when, v, c, live[v]))
			}
		}
	}
	for j, v := range sc.Prefill {
		kit.Beat()
		e, b := sentinel.Entry(res, opts(v)...)
		want := live[v] < sc.Thr
		if (b == nil) != want {
			fail("C06_decision", "sequential-decision-differs-from-ledger", fmt.Sprintf("prefill %d value %d: live %d, threshold %d, admitted=%v", j, v, live[v], sc.Thr, b == nil))
		}
		if b == nil {
			ents[j] = e
			live[v]++
		}
	}
	s := sched.New(func(id int) bool { return id == 400 })
	passed := make([]bool, k)
	got := make([]*base.SentinelEntry, k)
	for t := 0; t < k; t++ {
		t := t
		s.Spawn(func() {
			e, b := sentinel.Entry(res, opts(sc.Threads[t])...)
			passed[t] = b == nil
			got[t] = e
		})
	}
	pending := 0
	phase := make([]int, k) // 0 not started, 1 parked at 400, 2 done
	checkedQuiescent := make([]bool, k)
	liveAtCheck := make([]int64, k)
	finish := func(t int) {
		phase[t] = 2
		v := sc.Threads[t]
		// a check made at a quiescent point sees the exact count: the decision is the sequential one
		if checkedQuiescent[t] && passed[t] != (liveAtCheck[t] < sc.Thr) {
			fail("C06_decision", "sequential-decision-differs-from-ledger", fmt.Sprintf("goroutine %d value %d: live entries at its check %d, threshold %d, admitted=%v", t, v, liveAtCheck[t], sc.Thr, passed[t]))
		}
		if passed[t] {
			ents[np+t] = got[t]
			live[v]++
		}
	}
	for step, x := range sc.Sched {
		kit.Beat()
		if x < 0 {
			j := -x - 1
			if j < len(ents) && ents[j] != nil {
				v := sc.Threads0(np, j)
				ents[j].Exit()
				ents[j] = nil
				live[v]--
			}
		} else if phase[x] < 2 {
			t := x
			v := sc.Threads[t]
			if phase[t] == 0 {
				checkedQuiescent[t], liveAtCheck[t] = pending == 0, live[v]
			}
			l := s.Step(t)
			switch {
			case l == -2:
				fail("C06_decision", "entry-blocked-on-something-other-than-a-yield", fmt.Sprintf("step %d: goroutine %d did not park or return", step, t))
				s.Close()
				return
			case phase[t] == 0 && l == 400:
				phase[t] = 1
				pending++
			case phase[t] == 0 && l == sched.Done: // returned without reaching the statistic phase
				finish(t)
			case phase[t] == 1 && l == sched.Done:
				pending--
				finish(t)
			default:
				panic(fmt.Sprintf("case %d: goroutine %d parked at unexpected label %d", sc.ID, t, l))
			}
		}
		if pending == 0 {
			conserved(fmt.Sprintf("after step %d", step))
		}
	}
	for t := 0; t < k; t++ { // schedules always complete every goroutine; be safe
		for phase[t] < 2 {
			if l := s.Step(t); l == sched.Done {
				if phase[t] == 1 {
					pending--
				}
				finish(t)
			} else if l == 400 {
				phase[t] = 1
				pending++
			} else {
				break
			}
		}
	}
	s.Close()
	conserved("after all goroutines returned")
	// fill-up probe at the quiescent end: one more request per value must follow the ledger
	for _, v := range uniq(append(append([]int{}, sc.Prefill...), sc.Threads...)) {
		e, b := sentinel.Entry(res, opts(v)...)
		if (b == nil) != (live[v] < sc.Thr) {
			fail("C06_decision", "admission-differs-from-live-entries-after-schedule", fmt.Sprintf("value %d: live entries %d, threshold %d, admitted=%v", v, live[v], sc.Thr, b == nil))
		}
		if e != nil {
			e.Exit()
		}
	}
	for j, e := range ents {
		if e != nil {
			e.Exit()
			live[sc.Threads0(np, j)]--
		}
	}
	conserved("after all entries exited")
}

// Threads0: value of live-entry index j (prefill entries first, then goroutine entries).
func (sc schedCase) Threads0(np, j int) int {
	if j < np {
		return sc.Prefill[j]
	}
	return sc.Threads[j-np]
}

func uniq(xs []int) []int {
	seen := map[int]bool{}
	var out []int
	for _, x := range xs {
		if !seen[x] {
			seen[x] = true
			out = append(out, x)
		}
	}
	return out
}
