//go:build verif

// vh-c07: correspondence + monitor harness for property C07 (system protection gates inbound
// traffic only, by the configured predicate).
//
// Everything goes through the public API: api.Entry(WithTrafficType, WithBatchCount) / Exit /
// TraceError, system.LoadRules, system_metric.SetSystemLoad / SetSystemCpuUsage, under the
// virtual clock. The process-global inbound node is replaced by a fresh one at the start of every
// case (core/stat verif export), so each case is a complete history from node creation.
package main

import (
	"encoding/json"
	"errors"
	"fmt"
	"math"
	"os"
	"strconv"
	"sync"
	"sync/atomic"

	sentinel "github.com/alibaba/sentinel-golang/api"
	"github.com/alibaba/sentinel-golang/core/base"
	"github.com/alibaba/sentinel-golang/core/config"
	"github.com/alibaba/sentinel-golang/core/stat"
	"github.com/alibaba/sentinel-golang/core/system"
	"github.com/alibaba/sentinel-golang/core/system_metric"

	"vh/internal/cli"
	"vh/internal/emit"
	"vh/internal/env"
	"vh/internal/rng"
	"vh/internal/vclock"
)

// F is a float64 that survives JSON (NaN / Inf as strings).
type F float64

func (f F) MarshalJSON() ([]byte, error) {
	v := float64(f)
	if math.IsNaN(v) || math.IsInf(v, 0) {
		return json.Marshal(strconv.FormatFloat(v, 'g', -1, 64))
	}
	return json.Marshal(v)
}

type ruleT struct {
	Nil      bool   `json:"nil,omitempty"`
	Tag      int    `json:"tag"`
	Metric   uint32 `json:"metric"`
	Trigger  F      `json:"trigger"`
	Strategy int32  `json:"strategy"`
}

type opT struct {
	Kind    string  `json:"kind"` // load | setload | setcpu | entry | exit | probe
	Dt      uint64  `json:"dt"`   // clock advance (ms) before the operation
	Rules   []ruleT `json:"rules,omitempty"`
	NilList bool    `json:"nil_list,omitempty"`
	Val     F       `json:"val,omitempty"`
	Inbound bool    `json:"inbound,omitempty"`
	Res     int     `json:"res,omitempty"`
	Batch   uint32  `json:"batch,omitempty"`
	K       int     `json:"k,omitempty"` // exit: sequence number of the Entry call
	Err     bool    `json:"err,omitempty"`
}

type caseT struct {
	ID  int       `json:"id"`
	Geo [4]uint32 `json:"geometry"` // global sample count, global interval, metric sample count, metric interval
	T0  uint64    `json:"t0"`
	Ops []opT     `json:"ops"`
}

type obsT struct {
	Kind    string `json:"kind"` // none | changed | pass | block | readings
	Changed bool   `json:"changed,omitempty"`
	BType   int    `json:"btype,omitempty"`
	Tag     int    `json:"tag,omitempty"`
	Snap    F      `json:"snap,omitempty"`
	Qps     F      `json:"qps,omitempty"`
	Conc    int64  `json:"conc,omitempty"`
	Avg     F      `json:"avg_rt,omitempty"`
	Min     F      `json:"min_rt,omitempty"`
	MaxC    F      `json:"max_complete,omitempty"`
	T       uint64 `json:"t"`
}

var geos = [][4]uint32{
	{20, 10000, 2, 1000}, // default
	{2, 1000, 2, 1000},   // the view is the whole array
	{4, 2000, 1, 1000},   // one view bucket = two array buckets
	{20, 10000, 5, 5000}, // long view
	{10, 1000, 10, 1000}, // 100 ms buckets
	{1, 1000, 1, 1000},   // single bucket
}

var curGeo [4]uint32

func setGeo(g [4]uint32) {
	if g == curGeo {
		return
	}
	env.Init(env.Options{GlobalSampleCount: g[0], GlobalIntervalMs: g[1], MetricSampleCount: g[2], MetricIntervalMs: g[3]})
	if config.GlobalStatisticSampleCountTotal() != g[0] || config.GlobalStatisticIntervalMsTotal() != g[1] ||
		config.MetricStatisticSampleCount() != g[2] || config.MetricStatisticIntervalMs() != g[3] {
		panic("statistic geometry not applied")
	}
	curGeo = g
}

// ---- generators ----

func pickDt(r *rng.R) uint64 {
	switch x := r.Intn(20); {
	case x < 5:
		return 0
	case x < 9:
		return uint64(r.Range(1, 40))
	case x < 13:
		return uint64(r.Range(40, 260))
	case x < 16:
		return uint64(r.PickI(499, 500, 501, 250, 100, 99, 101))
	case x < 18:
		return uint64(r.PickI(999, 1000, 1001, 1500, 2000))
	case x < 19:
		return uint64(r.PickI(4999, 5000, 9999, 10000, 10001, 12000))
	default:
		return uint64(r.Range(0, 3000))
	}
}

func genRule(r *rng.R, tag int) ruleT {
	if r.Chance(1, 20) {
		return ruleT{Nil: true, Tag: tag}
	}
	ru := ruleT{Tag: tag}
	switch x := r.Intn(40); {
	case x < 36:
		ru.Metric = uint32(r.Intn(5))
	case x < 38:
		ru.Metric = 5
	case x < 39:
		ru.Metric = 7
	default:
		ru.Metric = 4294967295
	}
	switch ru.Metric {
	case 0: // load
		ru.Trigger = F(r.PickF(0, 0.5, 1, 1.5, 2, 3, 8))
	case 1: // avg rt
		ru.Trigger = F(r.PickF(0, 1, 5, 20, 50, 100, 101, 250, 1000))
	case 2: // concurrency
		ru.Trigger = F(r.PickF(0, 1, 2, 2, 3, 3, 4, 6, 2.5))
	case 3: // qps
		ru.Trigger = F(r.PickF(0, 1, 2, 3, 4, 5, 6, 8, 2.5, 0.4, 12))
	case 4: // cpu
		ru.Trigger = F(r.PickF(0, 0.25, 0.5, 0.75, 1, 1.0000001, 1.5))
	default:
		ru.Trigger = F(r.PickF(0, 1, 2))
	}
	switch x := r.Intn(60); {
	case x < 2:
		ru.Trigger = F(-1)
	case x < 3:
		ru.Trigger = F(math.NaN())
	case x < 4:
		ru.Trigger = F(math.Inf(1))
	case x < 5:
		ru.Trigger = F(math.Copysign(0, -1))
	}
	switch x := r.Intn(20); {
	case x < 9:
		ru.Strategy = -1
	case x < 18:
		ru.Strategy = 1
	case x < 19:
		ru.Strategy = 0
	default:
		ru.Strategy = 2
	}
	return ru
}

func genCase(r *rng.R, id int) caseT {
	c := caseT{ID: id}
	if r.Chance(6, 10) {
		c.Geo = geos[0]
	} else {
		c.Geo = geos[r.Intn(len(geos))]
	}
	if r.Chance(1, 12) {
		c.T0 = uint64(r.Range(1, 3000)) // near time zero: the window start saturates at 0
	} else {
		c.T0 = 1700000000000 + uint64(r.Range(0, 20000))
	}
	nops := 12 + r.Intn(34)
	tag := 0
	nEntries := 0
	var live []int
	var lastRules []ruleT
	loadOp := func() opT {
		o := opT{Kind: "load"}
		switch x := r.Intn(30); {
		case x < 1:
			o.NilList = true
		case x < 4 && lastRules != nil:
			o.Rules = append([]ruleT{}, lastRules...) // identical reload
		case x < 8 && len(lastRules) > 0:
			// the previous rules again with exactly one field of one rule changed
			o.Rules = append([]ruleT{}, lastRules...)
			varyRule(r, &o.Rules[r.Intn(len(o.Rules))], &tag)
		default:
			n := r.Intn(6)
			o.Rules = []ruleT{}
			for j := 0; j < n; j++ {
				tag++
				o.Rules = append(o.Rules, genRule(r, tag))
			}
		}
		lastRules = o.Rules
		return o
	}
	for i := 0; i < nops; i++ {
		var o opT
		x := r.Intn(100)
		switch {
		case (i == 0 && r.Chance(8, 10)) || x < 8:
			o = loadOp()
		case x < 14:
			o = opT{Kind: "setload", Val: F(r.PickF(-1, 0, 0.2, 0.5, 0.5000001, 1, 1.5, 2, 3, 9))}
			if r.Chance(1, 40) {
				o.Val = F(math.NaN())
			}
		case x < 20:
			o = opT{Kind: "setcpu", Val: F(r.PickF(-1, 0, 0.1, 0.25, 0.5, 0.6, 0.75, 0.9, 1, 1.0000001, 1.2, 2))}
		case x < 62:
			o = opT{Kind: "entry", Inbound: r.Chance(4, 5), Res: r.Intn(2), Batch: 1}
			switch y := r.Intn(20); {
			case y < 2:
				o.Batch = 2
			case y < 3:
				o.Batch = 3
			case y < 4:
				o.Batch = 0
			case y < 5:
				o.Batch = uint32(r.PickI(10, 1000, 4294967295))
			}
			nEntries++
			live = append(live, nEntries-1)
		case x < 86:
			o = opT{Kind: "exit", Err: r.Chance(1, 5)}
			if len(live) > 0 && r.Chance(17, 20) {
				j := r.Intn(len(live))
				o.K = live[j]
				live = append(live[:j], live[j+1:]...)
			} else {
				o.K = r.Intn(nEntries + 2) // exited, blocked or not yet existing entry
			}
		case x < 93:
			o = opT{Kind: "probe"}
		default:
			o = opT{Kind: "entry", Inbound: false, Res: r.Intn(2), Batch: uint32(r.PickI(1, 1, 5))}
			nEntries++
			live = append(live, nEntries-1)
		}
		o.Dt = pickDt(r)
		c.Ops = append(c.Ops, o)
	}
	c.Ops = append(c.Ops, opT{Kind: "probe", Dt: uint64(r.PickI(0, 1, 300))})
	return c
}

// varyRule changes exactly one field of the rule: ID, metric type, trigger count or strategy.
func varyRule(r *rng.R, ru *ruleT, tag *int) {
	if ru.Nil {
		*tag++
		*ru = genRule(r, *tag)
		return
	}
	switch r.Intn(5) {
	case 0:
		*tag++
		ru.Tag = *tag
	case 1:
		ru.Metric = (ru.Metric + 1 + uint32(r.Intn(4))) % 5
	case 2:
		if t := float64(ru.Trigger); t >= 1 {
			ru.Trigger = F(t / 2)
		} else {
			ru.Trigger = F(t + 0.25)
		}
	default:
		if ru.Strategy == 1 {
			ru.Strategy = -1
		} else {
			ru.Strategy = 1
		}
	}
}

// single-field variation reloads (ids varyBase+): a short fixed history leaves one request in flight,
// inbound QPS 3 and an average RT of 175 ms, load 2 and CPU usage 0.7; rules A are loaded and an
// inbound request is decided; then A again as fresh objects with exactly ONE field of ONE rule changed,
// chosen so that the decision depends on that field (strategy BBR <-> none on a load / cpu rule whose
// trigger is exceeded while the in-flight count is within the estimated capacity; a trigger moved
// across the current value; the metric type; the ID, seen in the reported rule), a second request, the
// first list again, a third request. The rule in force must be the last one loaded.
const varyBase = 200000

func genVary(r *rng.R, id int) caseT {
	c := caseT{ID: id, Geo: geos[0], T0: 1700000000137 + uint64(r.Intn(100))}
	in := func(dt uint64) opT { return opT{Kind: "entry", Dt: dt, Inbound: true, Batch: 1} }
	c.Ops = []opT{in(0), in(50), {Kind: "exit", Dt: 100, K: 1}, in(50), {Kind: "exit", Dt: 50, K: 0},
		{Kind: "setload", Val: 2}, {Kind: "setcpu", Val: 0.7}}
	var a, b ruleT
	switch (id - varyBase) % 9 {
	case 0: // load rule, BBR -> none
		a = ruleT{Metric: 0, Trigger: F(r.PickF(0.5, 1, 1.5)), Strategy: 1}
		b = a
		b.Strategy = int32(r.PickI(-1, -1, 0))
	case 1: // load rule, none -> BBR
		a = ruleT{Metric: 0, Trigger: F(r.PickF(0.5, 1, 1.5)), Strategy: -1}
		b = a
		b.Strategy = 1
	case 2: // cpu rule, BBR -> none
		a = ruleT{Metric: 4, Trigger: F(r.PickF(0.25, 0.5)), Strategy: 1}
		b = a
		b.Strategy = -1
	case 3: // cpu rule, none -> BBR
		a = ruleT{Metric: 4, Trigger: F(r.PickF(0.25, 0.5)), Strategy: int32(r.PickI(-1, 2))}
		b = a
		b.Strategy = 1
	case 4: // inbound QPS trigger moved below the current value
		a = ruleT{Metric: 3, Trigger: F(r.PickF(50, 100)), Strategy: int32(r.PickI(-1, 1))}
		b = a
		b.Trigger = F(r.PickF(1, 2, 3))
	case 5: // concurrency trigger moved above the current value
		a = ruleT{Metric: 2, Trigger: 1, Strategy: int32(r.PickI(-1, 1))}
		b = a
		b.Trigger = F(r.PickF(5, 6))
	case 6: // average RT trigger, within 1e-8 and beyond
		a = ruleT{Metric: 1, Trigger: 200, Strategy: -1}
		b = a
		b.Trigger = F(r.PickF(100, 175, 200.000000001))
	case 7: // metric type: concurrency 1 < 2, QPS 3 >= 2
		a = ruleT{Metric: 2, Trigger: 2, Strategy: int32(r.PickI(-1, 1))}
		b = a
		b.Metric = 3
	default: // the ID only: a violated rule must be reported under its new ID
		a = ruleT{Metric: 3, Trigger: 1, Strategy: int32(r.PickI(-1, 1))}
		b = a
	}
	// other rules of the list: never violated here, unchanged by the variation
	others := []ruleT{{Metric: 1, Trigger: 5000, Strategy: -1}, {Metric: 3, Trigger: 1000, Strategy: 1}, {Metric: 0, Trigger: 50, Strategy: -1}, {Nil: true}}
	mk := func(subject ruleT, tag0 int) []ruleT {
		l := []ruleT{}
		pos := r.Intn(3)
		for i := 0; i < 3; i++ {
			if i == pos {
				subject.Tag = tag0
				l = append(l, subject)
			} else if r.Bool() {
				o := others[r.Intn(len(others))]
				o.Tag = tag0 + 1 + i
				l = append(l, o)
			}
		}
		return l
	}
	// the same positions and other rules in all three lists: only the subject rule's field differs
	la := mk(a, 10)
	lb := append([]ruleT{}, la...)
	for i := range lb {
		if lb[i].Tag == 10 {
			b.Tag = 10
			if (id-varyBase)%9 == 8 {
				b.Tag = 77
			}
			lb[i] = b
		}
	}
	dt := func() uint64 { return uint64(r.PickI(0, 1, 5)) }
	for k, l := range [][]ruleT{la, lb, la} {
		c.Ops = append(c.Ops, opT{Kind: "load", Rules: append([]ruleT{}, l...), Dt: dt()},
			opT{Kind: "entry", Inbound: true, Batch: 1, Res: k % 2, Dt: dt()},
			opT{Kind: "exit", K: 3 + k, Dt: dt()})
	}
	c.Ops = append(c.Ops, opT{Kind: "probe"})
	return c
}

// enumeration: every subset of the five metric types x both strategies, at fixed readings
const enumBase = 100000
const enumVariants = 12

func genEnum(idx int) caseT {
	subset := idx & 31
	strat := int32(-1)
	if idx&32 != 0 {
		strat = 1
	}
	variant := (idx >> 6) % enumVariants
	prelude, thr := variant/4, variant%4
	c := caseT{ID: enumBase + idx, Geo: geos[0], T0: 1700000000137}
	in := func(dt uint64) opT { return opT{Kind: "entry", Dt: dt, Inbound: true, Batch: 1} }
	var qps, conc, avg float64
	switch prelude {
	case 0: // two in flight, one completion of 100 ms: capacity 0.2 < 2
		c.Ops = []opT{in(0), in(50), {Kind: "exit", Dt: 100, K: 1}, in(50)}
		qps, conc, avg = 3, 2, 100
	case 1: // one in flight
		c.Ops = []opT{in(0), in(50), {Kind: "exit", Dt: 100, K: 1}, in(50), {Kind: "exit", Dt: 50, K: 0}}
		qps, conc, avg = 3, 1, 175
	default: // two in flight, four completions of 300 ms in one bucket: capacity 2.4 >= 2
		c.Ops = []opT{in(0), in(0), in(0), in(0), {Kind: "exit", Dt: 300, K: 0}, {Kind: "exit", K: 1}, {Kind: "exit", K: 2}, {Kind: "exit", K: 3}, in(10), in(0)}
		qps, conc, avg = 6, 2, 300
	}
	load, cpu := 2.0, 0.7
	values := [5]float64{load, avg, conc, qps, cpu}
	var rules []ruleT
	for mt := 0; mt < 5; mt++ {
		if subset&(1<<mt) == 0 {
			continue
		}
		v := values[mt]
		var t float64
		switch thr {
		case 0:
			t = v / 2 // below the value
		case 1:
			t = v*2 + 1 // above the value
			if mt == 4 {
				t = 1
			}
		case 2:
			t = v // exactly the value
		default:
			if mt%2 == 0 {
				t = v / 2
			} else {
				t = v*2 + 1
			}
			if mt == 4 && t > 1 {
				t = 1
			}
		}
		rules = append(rules, ruleT{Tag: 10 + mt, Metric: uint32(mt), Trigger: F(t), Strategy: strat})
	}
	if rules == nil {
		rules = []ruleT{}
	}
	c.Ops = append(c.Ops,
		opT{Kind: "setload", Val: F(load)}, opT{Kind: "setcpu", Val: F(cpu)}, opT{Kind: "load", Rules: rules},
		opT{Kind: "probe", Dt: 20},
		opT{Kind: "entry", Inbound: true, Batch: 1, Res: 1},
		opT{Kind: "entry", Inbound: false, Batch: 1},
		opT{Kind: "probe"})
	return c
}

// ---- running a case on the implementation ----

// resName: the resources of a case are entered with BOTH traffic types (and several resource types):
// "gates inbound traffic only" is a statement about the call, not about the resource name.
func resName(id int, inbound bool, res int) string {
	return "c07-" + strconv.Itoa(id) + "-r" + strconv.Itoa(res)
}

// resTypeOf: the resource type of the i-th operation's call (no random draw: the cases stay what they were)
func resTypeOf(i, res int) base.ResourceType {
	if i%3 != 0 {
		return base.ResTypeCommon
	}
	return base.ResourceType((i/3 + res) % 7)
}

func goRules(l []ruleT) []*system.Rule {
	out := make([]*system.Rule, 0, len(l))
	for _, r := range l {
		if r.Nil {
			out = append(out, nil)
			continue
		}
		out = append(out, &system.Rule{ID: strconv.Itoa(r.Tag), MetricType: system.MetricType(r.Metric),
			TriggerCount: float64(r.Trigger), Strategy: system.AdaptiveStrategy(r.Strategy)})
	}
	return out
}

func runCase(c caseT, clk *vclock.Clock) []obsT {
	setGeo(c.Geo)
	clk.SetMs(c.T0)
	stat.ResetResourceNodeMap()
	stat.VerifResetInboundNode()
	if _, err := system.LoadRules([]*system.Rule{}); err != nil {
		panic(err)
	}
	system_metric.SetSystemLoad(-1)
	system_metric.SetSystemCpuUsage(-1)
	var entries []*base.SentinelEntry
	var obs []obsT
	t := c.T0
	for opi, o := range c.Ops {
		t += o.Dt
		clk.SetMs(t)
		switch o.Kind {
		case "load":
			var ch bool
			var err error
			if o.NilList {
				ch, err = system.LoadRules(nil)
			} else {
				ch, err = system.LoadRules(goRules(o.Rules))
			}
			if err != nil {
				panic(err)
			}
			obs = append(obs, obsT{Kind: "changed", Changed: ch, T: t})
		case "setload":
			system_metric.SetSystemLoad(float64(o.Val))
			obs = append(obs, obsT{Kind: "none", T: t})
		case "setcpu":
			system_metric.SetSystemCpuUsage(float64(o.Val))
			obs = append(obs, obsT{Kind: "none", T: t})
		case "entry":
			tt := base.Outbound
			if o.Inbound {
				tt = base.Inbound
			}
			// calls that rely on DEFAULT option values (the options object is pooled and was last used with other
			// values): an outbound call states no traffic type, a batch of 1 no batch count, a common resource no type
			var opts []sentinel.EntryOption
			if o.Inbound || opi%2 == 1 {
				opts = append(opts, sentinel.WithTrafficType(tt))
			}
			if o.Batch != 1 || opi%4 >= 2 {
				opts = append(opts, sentinel.WithBatchCount(o.Batch))
			}
			if rt := resTypeOf(opi, o.Res); rt != base.ResTypeCommon || opi%5 == 0 {
				opts = append(opts, sentinel.WithResourceType(rt))
			}
			e, b := sentinel.Entry(resName(c.ID, o.Inbound, o.Res), opts...)
			if b != nil {
				entries = append(entries, nil)
				ob := obsT{Kind: "block", BType: int(b.BlockType()), Tag: -1, Snap: F(math.NaN()), T: t}
				if sr, ok := b.TriggeredRule().(*system.Rule); ok && sr != nil {
					if v, err := strconv.Atoi(sr.ID); err == nil {
						ob.Tag = v
					}
				}
				if v, ok := b.TriggeredValue().(float64); ok {
					ob.Snap = F(v)
				}
				obs = append(obs, ob)
			} else {
				entries = append(entries, e)
				obs = append(obs, obsT{Kind: "pass", T: t})
			}
		case "exit":
			if o.K >= 0 && o.K < len(entries) && entries[o.K] != nil {
				if o.Err {
					sentinel.TraceError(entries[o.K], errors.New("c07"))
				}
				entries[o.K].Exit()
			}
			obs = append(obs, obsT{Kind: "none", T: t})
		case "probe":
			n := stat.InboundNode()
			obs = append(obs, obsT{Kind: "readings", T: t, Qps: F(n.GetQPS(base.MetricEventPass)), Conc: int64(n.CurrentConcurrency()),
				Avg: F(n.AvgRT()), Min: F(n.MinRT()), MaxC: F(n.GetMaxAvg(base.MetricEventComplete))})
		default:
			panic("unknown op " + o.Kind)
		}
	}
	for _, e := range entries {
		if e != nil {
			e.Exit()
		}
	}
	return obs
}

// ---- monitor: the property recomputed from an own ledger of the trace ----

type ledEv struct {
	t     uint64
	kind  int // 0 pass, 1 complete
	batch int64
	rt    int64
}

type liveT struct {
	inbound bool
	batch   uint32
	start   uint64
}

type stats struct {
	qps, avg, min, maxc float64
	conc                int64
}

func ledgerStats(led []ledEv, geo [4]uint32, live map[int]liveT, now uint64) stats {
	bl := uint64(geo[1] / geo[0])
	vn, vitv := uint64(geo[2]), uint64(geo[3])
	hi := now - now%bl + bl
	var lo int64 = int64(hi) - int64(vitv) // may be negative near time zero
	inWin := func(t uint64, a int64, b int64) bool { return int64(t) >= a && int64(t) < b }
	var pass, complete, rtsum int64
	minrt := int64(base.DefaultStatisticMaxRt)
	for _, e := range led {
		if !inWin(e.t, lo, int64(hi)) {
			continue
		}
		if e.kind == 0 {
			pass += e.batch
		} else {
			complete += e.batch
			rtsum += e.rt
			if e.rt < minrt {
				minrt = e.rt
			}
		}
	}
	if minrt < 1 {
		minrt = 1
	}
	var maxb int64
	for b := lo; b < int64(hi); b += int64(bl) {
		var s int64
		for _, e := range led {
			if e.kind == 1 && inWin(e.t, b, b+int64(bl)) {
				s += e.batch
			}
		}
		if s > maxb {
			maxb = s
		}
	}
	st := stats{}
	st.qps = float64(pass) / (float64(vitv) / 1000.0)
	if complete > 0 {
		st.avg = float64(rtsum / complete)
	}
	st.min = float64(minrt)
	st.maxc = float64(maxb) * float64(vn) / float64(vitv) * 1000.0
	for _, l := range live {
		if l.inbound {
			st.conc++
		}
	}
	return st
}

func ruleValid(r ruleT) bool {
	if r.Nil {
		return false
	}
	t := float64(r.Trigger)
	if math.IsNaN(t) || t < 0 || r.Metric >= 5 {
		return false
	}
	if r.Metric == 4 && t > 1 {
		return false
	}
	return true
}

// violated says whether the rule's trigger condition holds; value is the metric it looks at.
func violated(r ruleT, st stats, load, cpu float64) (bool, float64) {
	t := float64(r.Trigger)
	overCapacity := st.conc > 1 && float64(st.conc) > st.maxc*st.min/1000.0
	switch r.Metric {
	case 3:
		return !(st.qps < t), st.qps
	case 2:
		return !(float64(st.conc) < t), float64(st.conc)
	case 1:
		return !(st.avg < t), st.avg
	case 0:
		return load > t && (r.Strategy != 1 || overCapacity), load
	case 4:
		return cpu > t && (r.Strategy != 1 || overCapacity), cpu
	}
	return false, 0
}

// sameArgs: the two loads carry field-for-field the same rules (a NaN trigger equals nothing).
func sameArgs(a, b opT) bool {
	if a.NilList != b.NilList || len(a.Rules) != len(b.Rules) {
		return false
	}
	for i := range a.Rules {
		x, y := a.Rules[i], b.Rules[i]
		if x.Nil != y.Nil {
			return false
		}
		if !x.Nil && (x.Tag != y.Tag || x.Metric != y.Metric || x.Strategy != y.Strategy || !(float64(x.Trigger) == float64(y.Trigger))) {
			return false
		}
	}
	return true
}

func sameF(a, b float64) bool {
	return math.Float64bits(a) == math.Float64bits(b) || (math.IsNaN(a) && math.IsNaN(b))
}

func monitor(c caseT, obs []obsT, rep *emit.Report) (nontrivial bool) {
	var led []ledEv
	live := map[int]liveT{}
	var cur []ruleT
	lastLoad := opT{Kind: "load", Rules: []ruleT{}} // runCase starts every case with LoadRules of an empty list
	load, cpu := -1.0, -1.0
	nEntry := 0
	t := c.T0
	sawPass, sawBlock := false, false
	for i, o := range c.Ops {
		t += o.Dt
		ob := obs[i]
		switch o.Kind {
		case "load":
			// the rules in force are the valid rules of the last load, whatever LoadRules reported: it may
			// report 'unchanged' only for arguments that are field for field those of the load before
			// (and then following the arguments changes nothing)
			if !ob.Changed && !sameArgs(lastLoad, o) {
				rep.Fail(c.ID, "C07_loaded_rules", "load-of-different-rules-reported-unchanged",
					fmt.Sprintf("op %d (t=%d): LoadRules(%+v) returned 'unchanged' although the previous load was %+v: the rules enforced from here on are not the last ones loaded", i, t, o.Rules, lastLoad.Rules), c)
				return
			}
			lastLoad = o
			cur = nil
			if !o.NilList {
				for _, r := range o.Rules {
					if ruleValid(r) {
						cur = append(cur, r)
					}
				}
			}
		case "setload":
			load = float64(o.Val)
		case "setcpu":
			cpu = float64(o.Val)
		case "entry":
			k := nEntry
			nEntry++
			if !o.Inbound {
				if ob.Kind != "pass" {
					rep.Fail(c.ID, "C07_outbound_never", "outbound-blocked-by-system", fmt.Sprintf("op %d (t=%d): outbound entry rejected, block type %d, rule tag %d", i, t, ob.BType, ob.Tag), c)
					return
				}
				live[k] = liveT{inbound: false, batch: o.Batch, start: t}
				continue
			}
			st := ledgerStats(led, c.Geo, live, t)
			var vio []ruleT
			for _, r := range cur {
				if v, _ := violated(r, st, load, cpu); v {
					vio = append(vio, r)
				}
			}
			desc := func() string {
				return fmt.Sprintf("op %d (t=%d): qps=%v in_flight=%d avg_rt=%v min_rt=%v peak_complete=%v load=%v cpu=%v rules=%+v violated=%+v", i, t, st.qps, st.conc, st.avg, st.min, st.maxc, load, cpu, cur, vio)
			}
			if ob.Kind == "pass" {
				if len(vio) > 0 {
					rep.Fail(c.ID, "C07_inbound_iff", "admitted-with-violated-rule", desc(), c)
					return
				}
				if len(cur) > 0 {
					sawPass = true
				}
				live[k] = liveT{inbound: true, batch: o.Batch, start: t}
				led = append(led, ledEv{t: t, kind: 0, batch: int64(o.Batch)})
			} else {
				if len(vio) == 0 {
					rep.Fail(c.ID, "C07_inbound_iff", "blocked-without-violated-rule", desc()+fmt.Sprintf(" reported tag=%d snapshot=%v", ob.Tag, float64(ob.Snap)), c)
					return
				}
				if ob.BType != int(base.BlockTypeSystemFlow) {
					rep.Fail(c.ID, "C07_block_type", "wrong-block-type", fmt.Sprintf("op %d: block type %d", i, ob.BType), c)
					return
				}
				found, snapOK := false, false
				for _, r := range vio {
					if r.Tag == ob.Tag {
						found = true
						if _, v := violated(r, st, load, cpu); sameF(v, float64(ob.Snap)) {
							snapOK = true
						}
					}
				}
				if !found {
					rep.Fail(c.ID, "C07_reported_rule_violated", "reported-rule-not-violated", desc()+fmt.Sprintf(" reported tag=%d", ob.Tag), c)
					return
				}
				if !snapOK {
					rep.Fail(c.ID, "C07_reported_rule_violated", "snapshot-not-metric-value", desc()+fmt.Sprintf(" reported tag=%d snapshot=%v", ob.Tag, float64(ob.Snap)), c)
					return
				}
				sawBlock = true
			}
		case "exit":
			if l, ok := live[o.K]; ok {
				delete(live, o.K)
				if l.inbound {
					led = append(led, ledEv{t: t, kind: 1, batch: int64(l.batch), rt: int64(t - l.start)})
				}
			}
		case "probe":
			st := ledgerStats(led, c.Geo, live, t)
			if !sameF(st.qps, float64(ob.Qps)) || st.conc != ob.Conc || !sameF(st.avg, float64(ob.Avg)) || !sameF(st.min, float64(ob.Min)) || !sameF(st.maxc, float64(ob.MaxC)) {
				rep.Fail(c.ID, "C07_inbound_statistics", "inbound-node-differs-from-ledger",
					fmt.Sprintf("op %d (t=%d): node qps=%v in_flight=%d avg_rt=%v min_rt=%v peak_complete=%v; ledger qps=%v in_flight=%d avg_rt=%v min_rt=%v peak_complete=%v",
						i, t, float64(ob.Qps), ob.Conc, float64(ob.Avg), float64(ob.Min), float64(ob.MaxC), st.qps, st.conc, st.avg, st.min, st.maxc), c)
				return
			}
		}
	}
	return sawPass && sawBlock
}

// ---- real-thread search leg ----
//
// Many goroutines enter and exit (inbound and outbound, shared resource names) at a frozen virtual clock
// with no rule loaded; after they have all finished the following hold under EVERY schedule, so the leg
// can only fail on a defect: the inbound in-flight gauge is 0, the inbound pass / complete readings are
// exactly the admitted inbound calls, and with a Concurrency rule of trigger 1 loaded now the next inbound
// request is admitted (0 in flight) while a second one, with the first still open, is rejected.
const stressBase = 300000

func stressRound(round int, clk *vclock.Clock, rep *emit.Report) bool {
	const G, N = 16, 400
	id := stressBase + round
	input := map[string]interface{}{"id": id, "family": "real-thread search", "goroutines": G, "entry_exit_pairs_per_goroutine": N,
		"traffic": "3 of 4 calls inbound, 3 shared resource names, frozen clock, no rules; then LoadRules([concurrency trigger 1]) and two inbound requests"}
	fail := func(clause, sig, detail string) { rep.Fail(id, clause, sig, detail, input) }
	setGeo(geos[0])
	clk.SetMs(1700000000000 + uint64(round)*100000 + 137)
	stat.ResetResourceNodeMap()
	stat.VerifResetInboundNode()
	system.LoadRules([]*system.Rule{})
	system_metric.SetSystemLoad(-1)
	system_metric.SetSystemCpuUsage(-1)
	var admitted, blocked int64
	var panicked atomic.Value
	var wg sync.WaitGroup
	for g := 0; g < G; g++ {
		wg.Add(1)
		go func(g int) {
			defer wg.Done()
			defer func() {
				if x := recover(); x != nil {
					panicked.Store(fmt.Sprint(x))
				}
			}()
			for i := 0; i < N; i++ {
				tt := base.Inbound
				if (g+i)%4 == 0 {
					tt = base.Outbound
				}
				var e *base.SentinelEntry
				var b *base.BlockError
				if tt == base.Outbound && i%2 == 0 {
					e, b = sentinel.Entry("c07-" + strconv.Itoa(id) + "-r" + strconv.Itoa(i%3)) // outbound by default
				} else {
					e, b = sentinel.Entry("c07-"+strconv.Itoa(id)+"-r"+strconv.Itoa(i%3), sentinel.WithTrafficType(tt))
				}
				if b != nil {
					atomic.AddInt64(&blocked, 1)
					continue
				}
				if tt == base.Inbound {
					atomic.AddInt64(&admitted, 1)
				}
				e.Exit()
			}
		}(g)
	}
	wg.Wait()
	rep.Evaluations++
	rep.Count("real_thread_rounds", 1)
	rep.Count("real_thread_entry_exit_pairs", G*N)
	if x := panicked.Load(); x != nil {
		fail("C07_no_panic", "load-or-request-panicked", fmt.Sprint("a request panicked: ", x))
		return false
	}
	if blocked != 0 {
		fail("C07_no_rule_pass", "blocked-without-violated-rule", fmt.Sprintf("%d requests were rejected although no rule is loaded", blocked))
		return false
	}
	n := stat.InboundNode()
	if c := n.CurrentConcurrency(); c != 0 {
		fail("C07_inflight_is_live", "inflight-gauge-nonzero-at-quiescence", fmt.Sprintf("all %d entries have exited, the inbound in-flight gauge reads %d", G*N, c))
		return false
	}
	want := float64(admitted) / (float64(geos[0][3]) / 1000)
	if p, cm := n.GetQPS(base.MetricEventPass), n.GetQPS(base.MetricEventComplete); p != want || cm != want {
		fail("C07_inbound_statistics", "inbound-node-differs-from-ledger", fmt.Sprintf("%d inbound calls admitted and completed at one instant: pass QPS %v, complete QPS %v, expected %v", admitted, p, cm, want))
		return false
	}
	system.LoadRules([]*system.Rule{{ID: "1", MetricType: system.Concurrency, TriggerCount: 1, Strategy: system.NoAdaptive}})
	ok := true
	e1, b1 := sentinel.Entry("c07-"+strconv.Itoa(id)+"-r0", sentinel.WithTrafficType(base.Inbound))
	if b1 != nil {
		fail("C07_inbound_iff", "blocked-without-violated-rule", "nothing is in flight, yet an inbound request is rejected by the rule {concurrency, trigger 1}")
		ok = false
	} else {
		e2, b2 := sentinel.Entry("c07-"+strconv.Itoa(id)+"-r1", sentinel.WithTrafficType(base.Inbound))
		if b2 == nil {
			fail("C07_inbound_iff", "admitted-with-violated-rule", "one inbound request is in flight, a second one is admitted by the rule {concurrency, trigger 1}")
			ok = false
			e2.Exit()
		}
		e1.Exit()
	}
	system.LoadRules([]*system.Rule{})
	return ok
}

// ---- Coq case printer ----

func coqRules(o opT) string {
	if o.NilList {
		return "None"
	}
	var rs []string
	for _, r := range o.Rules {
		if r.Nil {
			rs = append(rs, "None")
		} else {
			rs = append(rs, fmt.Sprintf("mkR %d %d %s %s", r.Tag, r.Metric, emit.F(float64(r.Trigger)), emit.Z(int64(r.Strategy))))
		}
	}
	return "(Some " + emit.List(rs) + ")"
}

func coqCase(c caseT, obs []obsT) string {
	var ops, os_ []string
	for i, o := range c.Ops {
		t := obs[i].T
		switch o.Kind {
		case "load":
			ops = append(ops, "OLoad "+coqRules(o))
		case "setload":
			ops = append(ops, "OSetLoad "+emit.F(float64(o.Val)))
		case "setcpu":
			ops = append(ops, "OSetCpu "+emit.F(float64(o.Val)))
		case "entry":
			ops = append(ops, fmt.Sprintf("OEntry %d %s %d [0;1;2;3;4]", t, emit.B(o.Inbound), o.Batch))
		case "exit":
			ops = append(ops, fmt.Sprintf("OExit %d %s %s", t, emit.Z(int64(o.K)), emit.B(o.Err)))
		case "probe":
			ops = append(ops, fmt.Sprintf("OProbe %d", t))
		}
		ob := obs[i]
		switch ob.Kind {
		case "none":
			os_ = append(os_, "ONone")
		case "changed":
			os_ = append(os_, "OChanged "+emit.B(ob.Changed))
		case "pass":
			os_ = append(os_, "OPassed")
		case "block":
			os_ = append(os_, fmt.Sprintf("OBlocked %d %s %s", ob.BType, emit.Z(int64(ob.Tag)), emit.F(float64(ob.Snap))))
		case "readings":
			os_ = append(os_, fmt.Sprintf("OReadings %s %s %s %s %s", emit.F(float64(ob.Qps)), emit.Z(ob.Conc), emit.F(float64(ob.Avg)), emit.F(float64(ob.Min)), emit.F(float64(ob.MaxC))))
		}
	}
	return fmt.Sprintf("Case %d %d %d %d %d %d %s %s", c.ID, c.Geo[0], c.Geo[1], c.Geo[2], c.Geo[3], c.T0, emit.List(ops), emit.List(os_))
}

const constsID = 999999

func coqConsts() string {
	vals := []int64{int64(system.Load), int64(system.AvgRT), int64(system.Concurrency), int64(system.InboundQPS), int64(system.CpuUsage),
		int64(system.MetricTypeSize), int64(system.NoAdaptive), int64(system.BBR), int64(base.BlockTypeSystemFlow),
		int64(base.MetricEventPass), int64(base.MetricEventComplete), int64(base.MetricEventRt), int64(base.DefaultStatisticMaxRt), int64(base.Inbound)}
	return fmt.Sprintf("Consts %d %s", constsID, emit.ListZ(vals))
}

func main() {
	a := cli.Parse()
	setGeo(geos[0])
	clk := vclock.New(1700000000000)
	clk.Install()
	root := rng.New(a.Seed)
	rep := emit.NewReport("C07", a.Seed, a.Tier)
	rep.Rule = "random: a fresh inbound node per case over 6 statistic geometries, creation clock near 1.7e12 ms or near zero, 13-46 operations (LoadRules with 0-5 rules over metric types 0-4 and invalid ones, strategies -1/1/0/2, nil rules, nil list, identical reloads, thresholds around the reachable values, negative/NaN/Inf/-0 triggers; SetSystemLoad / SetSystemCpuUsage; inbound and outbound Entry over several resources with batch 0,1,2,3,10,1000,2^32-1; Exit of live / exited / blocked / non-existent entries with and without error; probes; clock steps 0 ms - 12 s incl. bucket and window edges). enumerated: all 2^5 metric-type subsets x {NoAdaptive,BBR} x 12 variants (3 fixed histories x thresholds below / above / equal / mixed). Non-trivial = with at least one valid rule loaded the history contains both an inbound admission and an inbound system block; distinct by full input."
	nCorr := a.Pick(a.N, 330, 5000)
	nMon := a.Pick(a.Mon, 4000, 60000)
	if a.Search {
		nCorr = 0
		nMon *= 5
	}
	var sh *emit.Shards
	if a.Only < 0 && !a.Search {
		var err error
		sh, err = emit.NewShards(a.Out, "Corr.Run_C07", a.Shards, "#[local] Open Scope Z_scope.")
		if err != nil {
			panic(err)
		}
	}
	dist := emit.NewDistinct()
	runOne := func(c caseT, corr bool) {
		var obs []obsT
		func() {
			// the harness never crashes on a mutant: a panic of the code under test is a monitor failure
			defer func() {
				if x := recover(); x != nil {
					rep.Fail(c.ID, "C07_no_panic", "load-or-request-panicked", fmt.Sprint("the case panicked inside the code under test: ", x), c)
					obs = nil
				}
			}()
			obs = runCase(c, clk)
		}()
		if obs == nil {
			return
		}
		rep.Evaluations++
		nt := monitor(c, obs, rep)
		if nt {
			b, _ := json.Marshal(c)
			dist.Add(string(b))
		}
		if c.ID >= varyBase && c.ID < constsID {
			// the three decisions after the loads A, A' (one field varied), A
			pat, seenLoad := "", false
			for i, o := range c.Ops {
				if o.Kind == "load" {
					seenLoad = true
				} else if o.Kind == "entry" && seenLoad {
					pat += obs[i].Kind[:1]
				}
			}
			rep.Count("single_field_variation_cases", 1)
			rep.Count(fmt.Sprintf("single_field_variation_kind_%d_decisions_%s", (c.ID-varyBase)%9, pat), 1)
		}
		rep.Count(fmt.Sprintf("geometry_%dx%d_%dx%d", c.Geo[0], c.Geo[1], c.Geo[2], c.Geo[3]), 1)
		if c.T0 < 1000000 {
			rep.Count("t0_near_zero", 1)
		}
		for i, o := range c.Ops {
			switch o.Kind {
			case "entry":
				d := "outbound"
				if o.Inbound {
					d = "inbound"
				}
				rep.Count("entry_"+d+"_"+obs[i].Kind, 1)
			case "load":
				rep.Count("load_changed_"+strconv.FormatBool(obs[i].Changed), 1)
				for _, r := range o.Rules {
					switch {
					case r.Nil:
						rep.Count("rule_nil", 1)
					case !ruleValid(r):
						rep.Count("rule_invalid", 1)
					default:
						rep.Count(fmt.Sprintf("rule_metric_%d_strategy_%d", r.Metric, r.Strategy), 1)
					}
				}
			default:
				rep.Count("op_"+o.Kind, 1)
			}
		}
		if corr && sh != nil {
			sh.Add(c.ID, coqCase(c, obs))
			rep.CorrCases++
			rep.CaseInputs[strconv.Itoa(c.ID)] = c
			if nt {
				rep.Sample(map[string]interface{}{"input": c, "observed": obs})
			}
		}
		if a.Only >= 0 {
			out, _ := json.MarshalIndent(map[string]interface{}{"input": c, "observed": obs, "coq": coqCase(c, obs)}, "", " ")
			fmt.Println(string(out))
		}
	}
	nEnum := 64
	if a.Tier == "thorough" {
		nEnum = 64 * enumVariants
	}
	enumIdx := func(j int) int {
		if a.Tier == "thorough" {
			return j
		}
		return j + 64*((j*7+int(a.Seed))%enumVariants)
	}
	nVary := 9 * a.Pick(0, 12, 200)
	if a.Search {
		nVary *= 5
	}
	nStress := a.Pick(0, 6, 40)
	if a.Search {
		nStress *= 3
	}
	if a.Only >= stressBase && a.Only < constsID {
		stressRound(a.Only-stressBase, clk, rep)
		for _, f := range rep.MonitorFailures {
			fmt.Printf("MONITOR-FAIL clause=%s signature=%s %s\n", f.Clause, f.Signature, f.Detail)
		}
		return
	}
	if a.Only >= varyBase && a.Only < constsID {
		runOne(genVary(root.Fork(uint64(a.Only)), a.Only), false)
		for _, f := range rep.MonitorFailures {
			fmt.Printf("MONITOR-FAIL clause=%s signature=%s %s\n", f.Clause, f.Signature, f.Detail)
		}
		return
	}
	if a.Only >= 0 {
		if a.Only >= enumBase {
			runOne(genEnum(a.Only-enumBase), false)
		} else {
			runOne(genCase(root.Fork(uint64(a.Only)), a.Only), false)
		}
		for _, f := range rep.MonitorFailures {
			fmt.Printf("MONITOR-FAIL clause=%s signature=%s %s\n", f.Clause, f.Signature, f.Detail)
		}
		return
	}
	for j := 0; j < nEnum; j++ {
		runOne(genEnum(enumIdx(j)), !a.Search)
	}
	for k := 0; k < nVary; k++ {
		runOne(genVary(root.Fork(uint64(varyBase+k)), varyBase+k), k < 18 && !a.Search)
	}
	for id := 0; id < nMon; id++ {
		runOne(genCase(root.Fork(uint64(id)), id), id < nCorr)
	}
	for k := 0; k < nStress; k++ {
		if !stressRound(k, clk, rep) {
			break
		}
	}
	if sh != nil {
		sh.Add(constsID, coqConsts())
		rep.CorrCases++
	}
	rep.DistinctNontrivial = dist.N()
	rep.Exhaustive = false
	rep.Consts["system.RuleCheckSlotOrder"] = system.RuleCheckSlotOrder
	rep.Consts["system.BBR"] = int(system.BBR)
	rep.Consts["system.NoAdaptive"] = int(system.NoAdaptive)
	rep.Consts["base.BlockTypeSystemFlow"] = int(base.BlockTypeSystemFlow)
	rep.Consts["base.DefaultStatisticMaxRt"] = int(base.DefaultStatisticMaxRt)
	rep.Notes = append(rep.Notes, fmt.Sprintf("enumerated metric-type subset x strategy cases: %d (thorough tier: all %d variants)", nEnum, 64*enumVariants))
	if sh != nil {
		rep.Shards = sh.Close()
	}
	if err := rep.Write(a.Out); err != nil {
		fmt.Fprintln(os.Stderr, err)
		os.Exit(2)
	}
}
