//go:build verif

// vh-c02: correspondence + monitor harness for property C02 (QPS reject-mode flow rule admits
// exactly up to the threshold per bucket-aligned statistic window; k-bound under concurrency).
package main

import (
	"encoding/json"
	"fmt"
	"math"
	"os"
	"strconv"
	"strings"
	"sync"
	"sync/atomic"
	"time"

	sentinel "github.com/alibaba/sentinel-golang/api"
	"github.com/alibaba/sentinel-golang/core/base"
	"github.com/alibaba/sentinel-golang/core/config"
	"github.com/alibaba/sentinel-golang/core/flow"
	"github.com/alibaba/sentinel-golang/core/stat"
	sbase "github.com/alibaba/sentinel-golang/core/stat/base"

	"vh/internal/cli"
	"vh/internal/emit"
	"vh/internal/env"
	"vh/internal/rng"
	"vh/internal/sched"
	"vh/internal/vclock"
)

// ---- inputs ----

type ruleT struct {
	Thr   float64 `json:"-"`
	ThrS  string  `json:"thr"` // printed exactly (JSON has no NaN/Inf)
	Itv   uint32  `json:"itv"`
	Assoc bool    `json:"assoc,omitempty"`
	Ref   int     `json:"ref,omitempty"`
	// Kind (prologue siblings only): 0 = Direct+Reject like the case's own rules; 1 = Direct+Throttling,
	// 2 = MemoryAdaptive+Throttling, 3 = WarmUp+Throttling - predecessors of another strategy on the
	// same resource / relation / interval, whose (empty or absent) statistics must not weaken the
	// Reject rule loaded over them. Derived from the case id: no PRNG draw.
	Kind int `json:"kind,omitempty"`
}

type opT struct {
	Kind  string `json:"k"` // enter | exit
	T     uint64 `json:"t"`
	Res   int    `json:"res"`
	Batch uint32 `json:"b"`
	Of    int    `json:"of,omitempty"` // exit: index of the enter op
}

type seqCase struct {
	ID    int       `json:"id"`
	T0    uint64    `json:"t0"`
	NRes  int       `json:"nres"`  // resources 0..NRes-1 (some may have no rule)
	Rules [][]ruleT `json:"rules"` // per resource
	// Prologue, if non-empty, is loaded at T0 immediately before Rules (no traffic in between): a
	// rule reload whose statistics (all empty, all created at T0) may be handed over to Rules
	Prologue [][]ruleT `json:"prologue,omitempty"`
	Ops      []opT     `json:"ops"`
	// LoadMode: 0 = flow.LoadRules for prologue and rules; 1 = flow.LoadRulesOfResource per resource
	// (in LoadOrder) for both; 2 = prologue through LoadRules, rules per resource
	LoadMode  int    `json:"load_mode,omitempty"`
	LoadOrder []int  `json:"load_order,omitempty"`
	TF        uint64 `json:"tf"`
	// Reloads: immediately before operation At the case's own rules are loaded again (fresh objects;
	// whole set, or the rules of the resource of operation At) together with one rule of a strategy
	// pair served by a generator the harness registered; that generator is called in the middle of the
	// rebuild and executes the next N operations from inside it (requests decided while a reload is
	// in progress), then yields no controller - or panics (the load fails). Every rule is unchanged,
	// so nothing about the case's decisions, windows or final state may differ.
	Reloads []reloadT `json:"reloads_in_progress,omitempty"`
}

type reloadT struct {
	At    int  `json:"before_op"`
	N     int  `json:"ops_inside_generator"`
	Whole bool `json:"whole_set"`
	Fail  bool `json:"generator_panics"`
}

// genAct is what the harness-registered flow generator does when the rebuild calls it (one shot).
var genAct func()

type obsT struct {
	Kind string `json:"kind"` // pass | block | none
	Idx  int    `json:"idx,omitempty"`
	Cur  int64  `json:"cur,omitempty"`
	Type string `json:"type,omitempty"`
}

type ctrlObs struct {
	Idx   int       `json:"idx"`
	Own   bool      `json:"own"`
	N     uint32    `json:"n,omitempty"`
	Itv   uint32    `json:"itv,omitempty"`
	Slots [][]int64 `json:"slots,omitempty"`
}

type finT struct {
	Res   int       `json:"res"`
	Ctrls []ctrlObs `json:"ctrls"`
	Node  bool      `json:"node"`
	Pass  int64     `json:"pass"`
	Block int64     `json:"block"`
	Conc  int64     `json:"conc"`
}

func fstr(f float64) string { return strconv.FormatFloat(f, 'g', -1, 64) }

// statistic intervals: default / the metric interval, multiples of the global bucket length (500 ms), and
// values that are NOT multiples of it - inside [500, 10000] (one bucket of that odd length: 750, 1750, 1250,
// 1001, 2750, 9999) and outside (250, 300, 1, 7, 333, 10001, 12345, 20000)
var itvChoices = []int64{0, 0, 0, 1000, 2000, 2500, 250, 300, 750, 20000, 1500, 3000, 500, 5000, 10000, 1, 7, 1750, 1250, 1001, 2750, 9999, 333, 10001, 12345}
var thrChoices = []float64{0, 0, 0.5, 0.999, 1, 1, 1.5, 2, 2, 2.999, 3, 3, 4, 5, 7.25, 10, 20, 50, 1000000, 4294967296.5, 1e15}

func genRule(r *rng.R, nres, own int) ruleT {
	var x ruleT
	x.Thr = thrChoices[r.Intn(len(thrChoices))]
	switch r.Intn(60) {
	case 0:
		x.Thr = -1 // invalid: ignored by the rule manager
	case 1:
		x.Thr = math.Inf(1)
	case 2:
		x.Thr = math.NaN()
	case 3:
		x.Thr = 5e-324
	case 4:
		x.Thr = -0.0
	}
	x.ThrS = fstr(x.Thr)
	x.Itv = uint32(itvChoices[r.Intn(len(itvChoices))])
	if r.Chance(1, 4) {
		x.Assoc = true
		x.Ref = r.Intn(nres) // may be the own resource
	}
	return x
}

func genSeq(r *rng.R, id int) seqCase {
	c := seqCase{ID: id}
	switch r.Intn(14) {
	case 0:
		c.T0 = uint64(r.PickI(1, 2, 400, 499, 500, 999, 1000, 5000, 9999))
	default:
		c.T0 = 1700000000000 + uint64(r.Range(0, 20000))
	}
	c.NRes = 1 + r.Intn(3)
	ruled := 1 + r.Intn(c.NRes) // resources 0..ruled-1 carry rules
	for i := 0; i < c.NRes; i++ {
		var rs []ruleT
		if i < ruled {
			n := 1 + r.Intn(3)
			for j := 0; j < n; j++ {
				rs = append(rs, genRule(r, c.NRes, i))
			}
		}
		c.Rules = append(c.Rules, rs)
	}
	// several rules of one resource on the same independent interval (each must get its own window)
	shared := r.Chance(1, 5)
	if shared {
		itv := uint32(r.PickI(3000, 1500, 750, 250, 300, 20000, 7))
		for len(c.Rules[0]) < 2 {
			c.Rules[0] = append(c.Rules[0], genRule(r, c.NRes, 0))
		}
		for j := range c.Rules[0] {
			c.Rules[0][j].Itv = itv
			c.Rules[0][j].Assoc, c.Rules[0][j].Ref = false, 0
			if r.Chance(2, 3) {
				c.Rules[0][j].Thr = r.PickF(2, 3, 4, 4, 5)
				c.Rules[0][j].ThrS = fstr(c.Rules[0][j].Thr)
			}
		}
	}
	// a reload: sibling rules (same resource, relation, interval; other thresholds) are in force
	// when Rules is loaded, so their statistics are reused by the rule manager
	if shared || r.Chance(1, 3) {
		for i, rs := range c.Rules {
			var ps []ruleT
			k := 0
			if len(rs) > 0 {
				k = 1 + r.Intn(len(rs))
				if shared && i == 0 && r.Chance(2, 3) {
					k = 1
				}
			}
			for j := 0; j < k; j++ {
				p := rs[j]
				if p.Thr >= 0 && !math.IsInf(p.Thr, 1) {
					p.Thr += 1000.5
				}
				p.ThrS = fstr(p.Thr)
				if (id+i+j)%2 == 1 {
					p.Kind = 1 + (id/2+j)%3
				}
				ps = append(ps, p)
			}
			c.Prologue = append(c.Prologue, ps)
		}
	}
	// the bucket lengths in play, for boundary-directed time steps
	steps := []uint64{500, 1000, 10000}
	for _, rs := range c.Rules {
		for _, x := range rs {
			if x.Itv > 0 {
				steps = append(steps, uint64(x.Itv))
			}
		}
	}
	now := c.T0
	nops := 8 + r.Intn(38)
	var live []int
	for i := 0; i < nops; i++ {
		// advance time
		switch x := r.Intn(20); {
		case x < 6: // same instant
		case x < 10:
			now += uint64(r.Range(1, 60))
		case x < 14: // to a bucket / window boundary -1, 0, +1
			s := steps[r.Intn(len(steps))]
			nb := now - now%s + s
			nb = nb - 1 + uint64(r.Intn(3))
			if nb > now {
				now = nb
			}
		case x < 16:
			now += steps[r.Intn(len(steps))]
		case x < 18:
			now += uint64(r.Range(100, 1200))
		case x < 19: // idle gap longer than the global array
			now += uint64(r.Range(10000, 26000))
		default:
			now += uint64(r.Range(400, 600))
		}
		if len(live) > 0 && r.Chance(1, 4) {
			k := r.Intn(len(live))
			of := live[k]
			live = append(live[:k], live[k+1:]...)
			c.Ops = append(c.Ops, opT{Kind: "exit", T: now, Res: c.Ops[of].Res, Batch: c.Ops[of].Batch, Of: of})
			continue
		}
		res := r.Intn(c.NRes)
		if r.Chance(1, 2) {
			res = 0
		}
		var b uint32
		switch x := r.Intn(20); {
		case x < 11:
			b = 1
		case x < 13:
			b = 2
		case x < 14:
			b = 0
		case x < 15:
			b = 3
		case x < 18: // at / just above a threshold of the resource
			if rs := c.Rules[res]; len(rs) > 0 {
				t := rs[r.Intn(len(rs))].Thr
				if t >= 0 && t < 1e6 {
					b = uint32(math.Floor(t)) + uint32(r.Intn(2))
				} else {
					b = 1
				}
			} else {
				b = 1
			}
		case x < 19:
			b = uint32(r.PickI(1000, 4294967295, 65536))
		default:
			b = uint32(r.Range(0, 6))
		}
		c.Ops = append(c.Ops, opT{Kind: "enter", T: now, Res: res, Batch: b})
		live = append(live, i) // whether it was admitted is known only at run time
	}
	c.TF = now + uint64(r.PickI(0, 0, 1, 499, 500, 1000, 9999, 10000, 30000))
	c.LoadMode = int(r.PickI(0, 0, 1, 1, 2))
	c.LoadOrder = r.Perm(c.NRes)
	// reloads in progress (drawn last: the rest of the case is what it was without them)
	if r.Chance(2, 5) {
		at := 0
		for k := 0; k < 2 && at < len(c.Ops); k++ {
			at += r.Intn(len(c.Ops) - at)
			// start at a request on a resource that has rules
			for at < len(c.Ops) && !(c.Ops[at].Kind == "enter" && len(c.Rules[c.Ops[at].Res]) > 0) {
				at++
			}
			if at >= len(c.Ops) {
				break
			}
			n := 1 + r.Intn(4)
			if at+n > len(c.Ops) {
				n = len(c.Ops) - at
			}
			c.Reloads = append(c.Reloads, reloadT{At: at, N: n, Whole: r.Bool(), Fail: r.Chance(1, 3)})
			at += n
		}
	}
	return c
}

func resName(id, res int) string { return "c02-" + strconv.Itoa(id) + "-" + strconv.Itoa(res) }

func mkRules(id int, rules [][]ruleT) []*flow.Rule {
	var out []*flow.Rule
	for ri, rs := range rules {
		for j, x := range rs {
			fr := &flow.Rule{ID: strconv.Itoa(j), Resource: resName(id, ri), TokenCalculateStrategy: flow.Direct,
				ControlBehavior: flow.Reject, Threshold: x.Thr, StatIntervalInMs: x.Itv}
			if x.Assoc {
				fr.RelationStrategy = flow.AssociatedResource
				fr.RefResource = resName(id, x.Ref)
			}
			switch x.Kind {
			case 1:
				fr.ControlBehavior, fr.MaxQueueingTimeMs = flow.Throttling, 10
			case 2:
				fr.TokenCalculateStrategy, fr.ControlBehavior, fr.MaxQueueingTimeMs = flow.MemoryAdaptive, flow.Throttling, 10
				fr.LowMemUsageThreshold, fr.HighMemUsageThreshold = 1000, 100
				fr.MemLowWaterMarkBytes, fr.MemHighWaterMarkBytes = 1024, 2048
			case 3:
				fr.TokenCalculateStrategy, fr.ControlBehavior, fr.MaxQueueingTimeMs = flow.WarmUp, flow.Throttling, 10
				fr.WarmUpPeriodSec, fr.WarmUpColdFactor = 10, 3
			}
			out = append(out, fr)
		}
	}
	return out
}

func observeBlock(b *base.BlockError) obsT {
	o := obsT{Kind: "block", Idx: -1, Cur: -1, Type: b.BlockType().String()}
	if fr, ok := b.TriggeredRule().(*flow.Rule); ok && fr != nil {
		o.Idx, _ = strconv.Atoi(fr.ID)
	}
	if v, ok := b.TriggeredValue().(float64); ok && v == math.Trunc(v) && math.Abs(v) < 1e18 {
		o.Cur = int64(v)
	}
	return o
}

func finalState(id, nres int) []finT {
	var out []finT
	for ri := 0; ri < nres; ri++ {
		f := finT{Res: ri, Ctrls: []ctrlObs{}}
		for _, vc := range flow.VerifRuleControllers(resName(id, ri)) {
			co := ctrlObs{}
			co.Idx, _ = strconv.Atoi(vc.Rule.ID)
			if la, ok := vc.Stat.(*sbase.BucketLeapArray); ok && la != nil {
				co.Own = true
				co.N = la.SampleCount()
				co.Itv = la.IntervalInMs()
				co.Slots = la.VerifSlots()
			}
			f.Ctrls = append(f.Ctrls, co)
		}
		if n := stat.GetResourceNode(resName(id, ri)); n != nil {
			f.Node = true
			f.Pass = n.GetSum(base.MetricEventPass)
			f.Block = n.GetSum(base.MetricEventBlock)
			f.Conc = int64(n.CurrentConcurrency())
		}
		out = append(out, f)
	}
	return out
}

// nodePass reads the pass sum of the resource's default view through the public node API.
func nodePass(id, res int) (int64, bool) {
	if n := stat.GetResourceNode(resName(id, res)); n != nil {
		return n.GetSum(base.MetricEventPass), true
	}
	return 0, false
}

func runSeq(c seqCase, clk *vclock.Clock) (obs []obsT, nodeAfter []int64, fin []finT) {
	clk.SetMs(c.T0)
	loadAll := func(rules [][]ruleT, perRes bool) {
		if !perRes {
			if _, err := flow.LoadRules(mkRules(c.ID, rules)); err != nil {
				panic(err)
			}
			return
		}
		for _, ri := range c.LoadOrder {
			if ri >= len(rules) || len(rules[ri]) == 0 {
				continue
			}
			one := make([][]ruleT, len(rules))
			one[ri] = rules[ri]
			if _, err := flow.LoadRulesOfResource(resName(c.ID, ri), mkRules(c.ID, one)); err != nil {
				panic(err)
			}
		}
	}
	if len(c.Prologue) > 0 {
		loadAll(c.Prologue, c.LoadMode == 1)
	}
	loadAll(c.Rules, c.LoadMode != 0)
	entries := make([]*base.SentinelEntry, len(c.Ops))
	execOp := func(i int) {
		o := c.Ops[i]
		clk.SetMs(o.T)
		switch o.Kind {
		case "enter":
			e, b := sentinel.Entry(resName(c.ID, o.Res), sentinel.WithBatchCount(o.Batch))
			if b != nil {
				obs = append(obs, observeBlock(b))
			} else {
				entries[i] = e
				obs = append(obs, obsT{Kind: "pass"})
			}
		case "exit":
			if e := entries[o.Of]; e != nil {
				e.Exit()
				entries[o.Of] = nil
			}
			obs = append(obs, obsT{Kind: "none"})
		}
		v, _ := nodePass(c.ID, o.Res)
		nodeAfter = append(nodeAfter, v)
	}
	for i := 0; i < len(c.Ops); {
		var rl *reloadT
		for k := range c.Reloads {
			if c.Reloads[k].At == i {
				rl = &c.Reloads[k]
			}
		}
		if rl == nil {
			execOp(i)
			i++
			continue
		}
		// the unchanged rules again + the rule of the harness-registered generator, which runs the next
		// operations from inside the rebuild
		first, n, ran := i, rl.N, false
		genAct = func() {
			ran = true
			for j := first; j < first+n; j++ {
				execOp(j)
			}
			if rl.Fail {
				panic("generator failure injected by the harness")
			}
		}
		// every resource of the case that has no rules of its own (it may be the one an associated-resource
		// rule counts) gets a permissive rule and loses it again through the per-resource path: no effect
		for j := range c.Rules {
			if len(c.Rules[j]) == 0 {
				// (a throttling rule reads no statistic: loading it creates no resource node, which the model would have to know about)
				flow.LoadRulesOfResource(resName(c.ID, j), []*flow.Rule{{ID: "p", Resource: resName(c.ID, j), ControlBehavior: flow.Throttling, Threshold: 1e15}})
				flow.ClearRulesOfResource(resName(c.ID, j))
			}
		}
		ri := c.Ops[i].Res
		g := &flow.Rule{ID: "g" + strconv.Itoa(i), Resource: resName(c.ID, ri), TokenCalculateStrategy: 5, ControlBehavior: 4, Threshold: 1e15}
		var err error
		if rl.Whole {
			_, err = flow.LoadRules(append(mkRules(c.ID, c.Rules), g))
		} else {
			one := make([][]ruleT, len(c.Rules))
			one[ri] = c.Rules[ri]
			_, err = flow.LoadRulesOfResource(resName(c.ID, ri), append(mkRules(c.ID, one), g))
		}
		genAct = nil
		if (err != nil) != (rl.Fail && ran) {
			panic(fmt.Sprintf("case %d: reload before op %d: err=%v, generator called=%v, failing=%v", c.ID, i, err, ran, rl.Fail))
		}
		if !ran {
			for j := first; j < first+n; j++ {
				execOp(j)
			}
		}
		i += n
	}
	clk.SetMs(c.TF)
	fin = finalState(c.ID, c.NRes)
	for _, e := range entries {
		if e != nil {
			e.Exit()
		}
	}
	return
}

// ---- the monitor: the property stated on the implementation's own trace ----

type admT struct {
	t   uint64
	res int
	b   uint64
}

// geometry of the statistic a rule reads, derived from the documented behaviour of
// StatIntervalInMs: interval (0 = the default 1 s metric), and the length of the buckets its
// window is aligned to (the shared per-resource array's 500 ms buckets when the interval tiles
// the shared 10 s array in whole buckets; otherwise an independent window)
func ruleGeom(itv uint32) (interval, bucket uint64, independent bool) {
	const gItv, gBl, dItv = 10000, 500, 1000
	if itv == 0 || itv == dItv {
		return dItv, gBl, false
	}
	I := uint64(itv)
	if I <= gItv && I%gBl == 0 && gItv%I == 0 {
		return I, gBl, false
	}
	if I <= gItv && I >= gBl && I%gBl == 0 {
		return I, gBl, true // several 500 ms buckets of its own
	}
	return I, I, true // a single bucket
}

// flow.IsValidRule: a negative or NaN threshold is rejected
func ruleInForce(x ruleT) bool { return !(x.Thr < 0) && !math.IsNaN(x.Thr) }

func winSum(adm []admT, res int, lo, hi uint64) uint64 {
	var s uint64
	for _, a := range adm {
		if a.res == res && a.t >= lo && a.t < hi {
			s += a.b
		}
	}
	return s
}

// window [lo,hi) the rule reads at time t (saturating at zero like the subtraction it stands for)
func window(x ruleT, t uint64) (lo, hi uint64) {
	I, bl, _ := ruleGeom(x.Itv)
	hi = t - t%bl + bl
	if hi > I {
		lo = hi - I
	}
	return
}

func target(x ruleT, own int) int {
	if x.Assoc {
		return x.Ref
	}
	return own
}

// exceeds reports sum + b > T in exact arithmetic (sum + b < 2^53 here, so the conversion is exact)
func exceeds(sum, b uint64, thr float64) bool { return float64(sum+b) > thr }

type monStats struct {
	pass, block, bucketCross, cycleCross int
	trigIdx                              map[int]int
}

func monitorSeq(c seqCase, obs []obsT, nodeAfter []int64, fin []finT, rep *emit.Report) (nontrivial bool, st monStats) {
	st.trigIdx = map[int]int{}
	var adm []admT
	var prevT uint64 = c.T0
	for i, o := range c.Ops {
		if o.T/500 != prevT/500 {
			st.bucketCross++
		}
		if o.T-prevT >= 10000 {
			st.cycleCross++
		}
		prevT = o.T
		if o.Kind != "enter" {
			continue
		}
		// expected decision from the ledger of admitted tokens
		first, firstSum := -1, uint64(0)
		for j, x := range c.Rules[o.Res] {
			if !ruleInForce(x) || math.IsNaN(x.Thr) {
				continue
			}
			lo, hi := window(x, o.T)
			s := winSum(adm, target(x, o.Res), lo, hi)
			if exceeds(s, uint64(o.Batch), x.Thr) {
				first, firstSum = j, s
				break
			}
		}
		got := obs[i].Kind == "pass"
		if got && first >= 0 {
			rep.Fail(c.ID, "C02_no_excess", "admitted-over-threshold", fmt.Sprintf("op %d t=%d res=%d batch=%d: admitted although rule %d has %d tokens in its window (threshold %s)", i, o.T, o.Res, o.Batch, first, firstSum, c.Rules[o.Res][first].ThrS), c)
			return
		}
		if !got && first < 0 {
			rep.Fail(c.ID, "C02_no_spurious_block", "spurious-rejection", fmt.Sprintf("op %d t=%d res=%d batch=%d: rejected by rule %d (reported sum %d) although no rule's window is exhausted", i, o.T, o.Res, o.Batch, obs[i].Idx, obs[i].Cur), c)
			return
		}
		if got {
			st.pass++
			adm = append(adm, admT{o.T, o.Res, uint64(o.Batch)})
		} else {
			st.block++
			st.trigIdx[obs[i].Idx]++
			if obs[i].Type != base.BlockTypeFlow.String() {
				rep.Fail(c.ID, "C02_block_report", "wrong-block-type", fmt.Sprintf("op %d: block type %s", i, obs[i].Type), c)
				return
			}
			if obs[i].Idx != first || obs[i].Cur != int64(firstSum) {
				rep.Fail(c.ID, "C02_block_report", "wrong-rule-or-sum", fmt.Sprintf("op %d: reported rule %d sum %d, expected rule %d sum %d", i, obs[i].Idx, obs[i].Cur, first, firstSum), c)
				return
			}
		}
		// what the resource node reports as passed in its default window = admitted tokens only
		lo, hi := window(ruleT{}, o.T)
		if want := winSum(adm, o.Res, lo, hi); uint64(nodeAfter[i]) != want {
			cl, sig := "C02_stat_record", "pass-count-differs-from-admitted"
			if !got {
				cl, sig = "C02_rejected_consume_nothing", "rejected-request-changed-pass-count"
			}
			rep.Fail(c.ID, cl, sig, fmt.Sprintf("op %d t=%d res=%d: node pass sum %d, admitted in window %d", i, o.T, o.Res, nodeAfter[i], want), c)
			return
		}
	}
	// independent arrays hold exactly the admitted tokens of their target (rejected consume nothing)
	for _, f := range fin {
		for _, co := range f.Ctrls {
			if !co.Own {
				continue
			}
			x := c.Rules[f.Res][co.Idx]
			var tot int64
			for _, row := range co.Slots {
				tot += row[1]
			}
			var all uint64
			// every slot still holds what was recorded in its bucket (slots are only reset when reused)
			for _, row := range co.Slots {
				st := uint64(row[0])
				bl := uint64(co.Itv / co.N)
				all += winSum(adm, target(x, f.Res), st, st+bl)
			}
			if uint64(tot) != all {
				rep.Fail(c.ID, "C02_rejected_consume_nothing", "independent-window-differs-from-admitted", fmt.Sprintf("res %d rule %d: slots hold %d pass tokens, admitted in those buckets %d", f.Res, co.Idx, tot, all), c)
				return
			}
		}
	}
	// every aligned window of every rule on its own resource holds at most T admitted tokens
	for ri, rs := range c.Rules {
		for j, x := range rs {
			if !ruleInForce(x) || x.Assoc || math.IsNaN(x.Thr) || math.IsInf(x.Thr, 1) {
				continue
			}
			I, bl, _ := ruleGeom(x.Itv)
			for _, a := range adm {
				if a.res != ri {
					continue
				}
				top := a.t - a.t%bl
				for s := top; s+I > top; s -= bl { // window starts s with s <= a.t < s+I
					if tot := winSum(adm, ri, s, s+I); float64(tot) > x.Thr {
						// a zero batch is admitted at a full window and adds nothing: tot was already there
						rep.Fail(c.ID, "C02_no_excess", "window-total-exceeds-threshold", fmt.Sprintf("res %d rule %d: aligned window [%d,%d) holds %d admitted tokens > threshold %s", ri, j, s, s+I, tot, x.ThrS), c)
						return
					}
					if s < bl {
						break
					}
				}
			}
		}
	}
	nontrivial = st.pass > 0 && st.block > 0 && st.bucketCross > 0
	return
}

// ---- Coq printing ----

func coqRule(x ruleT) string {
	return fmt.Sprintf("{| r_thr := %s; r_itv := %d; r_assoc := %s; r_ref := %d |}", emit.F(x.Thr), x.Itv, emit.B(x.Assoc), x.Ref)
}

func coqRules(rules [][]ruleT) string {
	var rs []string
	for ri, l := range rules {
		if len(l) == 0 {
			continue
		}
		var xs []string
		for _, x := range l {
			xs = append(xs, coqRule(x))
		}
		rs = append(rs, emit.Tuple(emit.Z(int64(ri)), emit.List(xs)))
	}
	return emit.List(rs)
}

func coqObs(o obsT) string {
	switch o.Kind {
	case "pass":
		return "OPass"
	case "block":
		return fmt.Sprintf("OBlock %s %s", emit.Z(int64(o.Idx)), emit.Z(o.Cur))
	}
	return "ONone"
}

func coqFin(fin []finT) string {
	var fs []string
	for _, f := range fin {
		var cs []string
		for _, co := range f.Ctrls {
			if !co.Own {
				cs = append(cs, fmt.Sprintf("CShared %d", co.Idx))
				continue
			}
			var rows []string
			for _, row := range co.Slots {
				rows = append(rows, emit.ListZ(row))
			}
			cs = append(cs, fmt.Sprintf("COwn %d %d %d %s", co.Idx, co.N, co.Itv, emit.List(rows)))
		}
		fs = append(fs, fmt.Sprintf("{| f_res := %d; f_ctrls := %s; f_node := %s; f_pass := %s; f_block := %s; f_conc := %s |}",
			f.Res, emit.List(cs), emit.B(f.Node), emit.Z(f.Pass), emit.Z(f.Block), emit.Z(f.Conc)))
	}
	return emit.List(fs)
}

func coqCfg() string {
	return fmt.Sprintf("{| g_n := %d; g_itv := %d; m_n := %d; m_itv := %d |}", config.GlobalStatisticSampleCountTotal(),
		config.GlobalStatisticIntervalMsTotal(), config.MetricStatisticSampleCount(), config.MetricStatisticIntervalMs())
}

func coqSeq(c seqCase, obs []obsT, fin []finT) string {
	var ops, os_ []string
	for i, o := range c.Ops {
		if o.Kind == "enter" {
			ops = append(ops, fmt.Sprintf("Enter %d %d %d", o.T, o.Res, o.Batch))
		} else {
			if obs[o.Of].Kind != "pass" {
				continue // there is no entry to exit: nothing happens
			}
			ops = append(ops, fmt.Sprintf("Exit %d %d %d %d", o.T, o.Res, o.Batch, c.Ops[o.Of].T))
		}
		os_ = append(os_, coqObs(obs[i]))
	}
	return fmt.Sprintf("Seq %d %s %d %s\n %s\n %s %d\n %s", c.ID, coqCfg(), c.T0, coqRules(c.Rules), emit.List(ops), emit.List(os_), c.TF, coqFin(fin))
}

// ---- concurrent admission (k-bound): goroutines parked at yield 400 ----

type concCase struct {
	ID      int      `json:"id"`
	T0      uint64   `json:"t0"`
	Rules   []ruleT  `json:"rules"`    // of resource 0
	Prefill []uint32 `json:"prefill"`  // sequential admissions before the schedule
	Batches []uint32 `json:"batches"`  // one per goroutine
	Sched   []int    `json:"schedule"` // goroutine index per step; negative = advance the clock by -x ms
	// Reset cases: the prefill is recorded at T0, the clock then advances by Gap (whole array
	// cycles, same bucket), a first request is stepped through the yields of the bucket reset it
	// triggers (110-113, 104) and at each stop where Coins says so another request runs its rule check
	Reset bool   `json:"reset,omitempty"`
	Gap   uint64 `json:"gap,omitempty"`
	Coins []bool `json:"coins,omitempty"`
}

type concEv struct {
	Kind string `json:"k"` // chk | rec
	Tid  int    `json:"tid"`
	T    uint64 `json:"t"`
	B    uint32 `json:"b,omitempty"`
}

func genConc(r *rng.R, id int) concCase {
	c := concCase{ID: id}
	c.T0 = 1700000000000 + uint64(r.Range(0, 20000))
	n := 1 + r.Intn(2)
	for j := 0; j < n; j++ {
		x := ruleT{Thr: r.PickF(1, 2, 2.5, 3, 4, 6), Itv: uint32(r.PickI(0, 0, 1000, 2000, 750, 300, 1500))}
		x.ThrS = fstr(x.Thr)
		c.Rules = append(c.Rules, x)
	}
	for i, np := 0, r.Intn(3); i < np; i++ {
		c.Prefill = append(c.Prefill, uint32(r.PickI(1, 1, 2)))
	}
	k := 2 + r.Intn(3)
	for i := 0; i < k; i++ {
		c.Batches = append(c.Batches, uint32(r.PickI(1, 1, 1, 2, 3)))
	}
	var steps []int
	for i := 0; i < k; i++ {
		steps = append(steps, i, i)
	}
	for _, j := range r.Perm(len(steps)) {
		c.Sched = append(c.Sched, steps[j])
		if r.Chance(1, 6) {
			c.Sched = append(c.Sched, -int(r.PickI(1, 40, 250, 499, 500, 1000)))
		}
	}
	return c
}

func genReset(r *rng.R, id int) concCase {
	c := concCase{ID: id, Reset: true}
	c.T0 = 1700000000000 + uint64(r.Range(0, 20000))
	thr := r.PickF(1, 2, 2, 3, 2.5)
	x := ruleT{Thr: thr, Itv: uint32(r.PickI(0, 0, 1000, 2000, 5000))}
	x.ThrS = fstr(x.Thr)
	c.Rules = []ruleT{x}
	np := int(math.Floor(thr))
	if r.Chance(1, 4) {
		np--
	}
	for i := 0; i < np; i++ {
		c.Prefill = append(c.Prefill, 1)
	}
	// whole cycles of the shared 10 s array, staying inside the 500 ms bucket of T0
	c.Gap = uint64(r.PickI(1, 1, 1, 2, 3))*10000 + uint64(r.Range(0, int64(499-c.T0%500)))
	for i := 0; i < 12; i++ {
		c.Coins = append(c.Coins, r.Chance(2, 3))
	}
	c.Batches = []uint32{1}
	return c
}

// runReset: see concCase.Reset. Only rule checks (read-only) are interleaved with the reset: a
// statistic phase that met the slot mid-reset would spin on the update lock.
func runReset(c concCase, clk *vclock.Clock) (evs []concEv, obs []obsT, fin []finT, tf uint64, maxPending int) {
	clk.SetMs(c.T0)
	if _, err := flow.LoadRules(mkRules(c.ID, [][]ruleT{c.Rules})); err != nil {
		panic(err)
	}
	res := resName(c.ID, 0)
	var ents []*base.SentinelEntry
	tid := 1000
	for _, b := range c.Prefill {
		e, blk := sentinel.Entry(res, sentinel.WithBatchCount(b))
		evs = append(evs, concEv{Kind: "chk", Tid: tid, T: c.T0, B: b}, concEv{Kind: "rec", Tid: tid, T: c.T0})
		if blk != nil {
			obs = append(obs, observeBlock(blk), obsT{Kind: "none"})
		} else {
			ents = append(ents, e)
			obs = append(obs, obsT{Kind: "pass"}, obsT{Kind: "none"})
		}
		tid++
	}
	now := c.T0 + c.Gap
	clk.SetMs(now)
	s := sched.New(func(id int) bool { return id == 400 || (id >= 110 && id <= 113) || id == 104 })
	defer s.Close()
	var outs []*obsT
	var got []*base.SentinelEntry
	var chkPos []int
	spawn := func() int {
		o := &obsT{}
		outs = append(outs, o)
		got = append(got, nil)
		i := len(outs) - 1
		return s.Spawn(func() {
			e, blk := sentinel.Entry(res, sentinel.WithBatchCount(1))
			if blk != nil {
				*o = observeBlock(blk)
			} else {
				*o = obsT{Kind: "pass"}
				got[i] = e
			}
		})
	}
	check := func(t int) { // run thread t from Start to the chain yield
		if l := s.Step(t); l != 400 {
			panic(fmt.Sprintf("thread %d: expected to park at 400, got %d", t, l))
		}
		evs = append(evs, concEv{Kind: "chk", Tid: t, T: now, B: 1})
		chkPos = append(chkPos, len(obs))
		obs = append(obs, obsT{})
	}
	g1 := spawn()
	check(g1)
	others := []int{}
	for i := 0; !s.IsDone(g1); i++ {
		l := s.Step(g1)
		if l == -2 {
			panic("first request blocked outside a yield")
		}
		if l == sched.Done {
			break
		}
		if i < len(c.Coins) && c.Coins[i] && len(others) < 10 {
			t := spawn()
			check(t)
			others = append(others, t)
		}
	}
	maxPending = 1 + len(others)
	finish := func(t int) {
		if !s.IsDone(t) {
			if l := s.Finish(t); len(l) == 0 || l[len(l)-1] != sched.Done {
				panic(fmt.Sprintf("thread %d did not finish: %v", t, l))
			}
		}
		evs = append(evs, concEv{Kind: "rec", Tid: t, T: now})
		obs[chkPos[t]] = *outs[t]
		obs = append(obs, obsT{Kind: "none"})
	}
	finish(g1)
	for _, t := range others {
		finish(t)
	}
	tf = now
	fin = finalState(c.ID, 1)
	for _, e := range append(ents, got...) {
		if e != nil {
			e.Exit()
		}
	}
	return
}

func runConc(c concCase, clk *vclock.Clock) (evs []concEv, obs []obsT, fin []finT, tf uint64, maxPending int) {
	if c.Reset {
		return runReset(c, clk)
	}
	clk.SetMs(c.T0)
	if _, err := flow.LoadRules(mkRules(c.ID, [][]ruleT{c.Rules})); err != nil {
		panic(err)
	}
	res := resName(c.ID, 0)
	var ents []*base.SentinelEntry
	tid := 1000
	for _, b := range c.Prefill {
		e, blk := sentinel.Entry(res, sentinel.WithBatchCount(b))
		evs = append(evs, concEv{Kind: "chk", Tid: tid, T: c.T0, B: b}, concEv{Kind: "rec", Tid: tid, T: c.T0})
		if blk != nil {
			obs = append(obs, observeBlock(blk), obsT{Kind: "none"})
		} else {
			ents = append(ents, e)
			obs = append(obs, obsT{Kind: "pass"}, obsT{Kind: "none"})
		}
		tid++
	}
	s := sched.New(func(id int) bool { return id == 400 })
	defer s.Close()
	k := len(c.Batches)
	out := make([]obsT, k)
	got := make([]*base.SentinelEntry, k)
	for i := 0; i < k; i++ {
		i := i
		s.Spawn(func() {
			e, blk := sentinel.Entry(res, sentinel.WithBatchCount(c.Batches[i]))
			if blk != nil {
				out[i] = observeBlock(blk)
			} else {
				out[i] = obsT{Kind: "pass"}
				got[i] = e
			}
		})
	}
	chkPos := make([]int, k)
	pending := 0
	for _, t := range c.Sched {
		if t < 0 {
			clk.AddMs(uint64(-t))
			continue
		}
		at := s.At(t)
		l := s.Step(t)
		now := clk.CurrentTimeMillis()
		if at == sched.Start {
			if l != 400 {
				panic(fmt.Sprintf("thread %d: expected to park at 400, got %d", t, l))
			}
			evs = append(evs, concEv{Kind: "chk", Tid: t, T: now, B: c.Batches[t]})
			chkPos[t] = len(obs)
			obs = append(obs, obsT{}) // filled in when the goroutine returns
			pending++
			if pending > maxPending {
				maxPending = pending
			}
		} else {
			if l != sched.Done {
				panic(fmt.Sprintf("thread %d: expected to finish, got %d", t, l))
			}
			evs = append(evs, concEv{Kind: "rec", Tid: t, T: now})
			obs[chkPos[t]] = out[t]
			obs = append(obs, obsT{Kind: "none"})
			pending--
		}
	}
	tf = clk.CurrentTimeMillis()
	fin = finalState(c.ID, 1)
	for _, e := range append(ents, got...) {
		if e != nil {
			e.Exit()
		}
	}
	return
}

func monitorConc(c concCase, evs []concEv, obs []obsT, maxPending int, rep *emit.Report) (overT bool) {
	// ledger by record time; decisions are judged against what was recorded when they were taken
	var adm []admT
	pend := map[int]uint32{}
	var bmax uint64
	for i, e := range evs {
		switch e.Kind {
		case "chk":
			if uint64(e.B) > bmax {
				bmax = uint64(e.B)
			}
			first, firstSum := -1, uint64(0)
			for j, x := range c.Rules {
				lo, hi := window(x, e.T)
				s := winSum(adm, 0, lo, hi)
				if exceeds(s, uint64(e.B), x.Thr) {
					first, firstSum = j, s
					break
				}
			}
			got := obs[i].Kind == "pass"
			if got != (first < 0) {
				sig := "spurious-rejection"
				cl := "C02_no_spurious_block"
				if got {
					sig, cl = "admitted-over-recorded-threshold", "C02_decision"
				}
				rep.Fail(c.ID, cl, sig, fmt.Sprintf("event %d (thread %d, t=%d, batch %d): admitted=%v, first exhausted rule %d (recorded sum %d)", i, e.Tid, e.T, e.B, got, first, firstSum), c)
				return
			}
			if !got && (obs[i].Idx != first || obs[i].Cur != int64(firstSum)) {
				rep.Fail(c.ID, "C02_block_report", "wrong-rule-or-sum", fmt.Sprintf("event %d: reported rule %d sum %d, expected rule %d sum %d", i, obs[i].Idx, obs[i].Cur, first, firstSum), c)
				return
			}
			if got {
				pend[e.Tid] = e.B
			}
		case "rec":
			if b, ok := pend[e.Tid]; ok {
				adm = append(adm, admT{e.T, 0, uint64(b)})
				delete(pend, e.Tid)
			}
		}
	}
	k := uint64(maxPending)
	if k < 1 {
		k = 1
	}
	for j, x := range c.Rules {
		I, bl, _ := ruleGeom(x.Itv)
		for _, a := range adm {
			top := a.t - a.t%bl
			for s := top; s+I > top; s -= bl {
				tot := winSum(adm, 0, s, s+I)
				if float64(tot) > x.Thr {
					overT = true
				}
				if float64(tot) > math.Floor(x.Thr)+float64((k-1)*bmax) {
					rep.Fail(c.ID, "C02_k_bound", "window-total-exceeds-T-plus-(k-1)bmax", fmt.Sprintf("rule %d: aligned window [%d,%d) holds %d > %s + (%d-1)*%d", j, s, s+I, tot, x.ThrS, k, bmax), c)
					return
				}
			}
		}
	}
	return
}

func coqConc(c concCase, evs []concEv, obs []obsT, fin []finT, tf uint64) string {
	var es, os_ []string
	for i, e := range evs {
		if e.Kind == "chk" {
			es = append(es, fmt.Sprintf("EChk %d %d 0 %d", e.Tid, e.T, e.B))
		} else {
			es = append(es, fmt.Sprintf("ERec %d %d", e.Tid, e.T))
		}
		os_ = append(os_, coqObs(obs[i]))
	}
	return fmt.Sprintf("Conc %d %s %d %s\n %s\n %s %d\n %s", c.ID, coqCfg(), c.T0, coqRules([][]ruleT{c.Rules}), emit.List(es), emit.List(os_), tf, coqFin(fin))
}

// ---- real-thread search leg: start-up races on a fresh resource ----
//
// Per trial a brand-new resource: the first rule load (whole-set or per-resource; threshold T over the
// default window, an independent window, or an associated rule's referenced resource) runs in parallel with
// the first requests of that resource on real threads.  When all of them have returned and exited, the clock
// moves to a fresh aligned window and 3 + T strictly sequential single-token requests are sent: whatever the
// schedule of the start-up was, exactly floor(T) of them are admitted (k = 1: no excess, no spurious block).
const raceBase = 300000

// raceLoadNs: measured duration of the first rule load of a fresh resource (calibrates the start delays only)
var raceLoadNs time.Duration = 20 * time.Microsecond

func raceCalibrate() {
	const n = 40
	t0 := time.Now()
	for i := 0; i < n; i++ {
		res := "c02-racecal-" + strconv.Itoa(i)
		flow.LoadRulesOfResource(res, []*flow.Rule{{ID: "0", Resource: res, Threshold: 1}})
	}
	if d := time.Since(t0) / n; d > time.Microsecond && d < 5*time.Millisecond {
		raceLoadNs = d
	}
	flow.ClearRules()
}

func raceTrial(trial int, clk *vclock.Clock, rep *emit.Report) bool {
	id := raceBase + trial
	res := "c02-race-" + strconv.Itoa(trial)
	T := float64(1 + trial%3)
	itv := uint32([]int64{0, 0, 1000, 3000, 750}[trial%5])
	whole := trial%2 == 0
	const G = 3
	input := map[string]interface{}{"id": id, "family": "real-thread search: first load of a fresh resource in parallel with its first requests",
		"threshold": T, "stat_interval_ms": itv, "whole_set_load": whole, "parallel_first_requests": G,
		"then": "clock to a fresh aligned window, 3 + T sequential single-token requests"}
	fail := func(clause, sig, detail string) { rep.Fail(id, clause, sig, detail, input) }
	base0 := uint64(1700000000000) + uint64(trial)*40000
	clk.SetMs(base0 + 137)
	rule := &flow.Rule{ID: "0", Resource: res, TokenCalculateStrategy: flow.Direct, ControlBehavior: flow.Reject, Threshold: T, StatIntervalInMs: itv}
	start := make(chan struct{})
	var wg sync.WaitGroup
	var fault atomic.Value
	guarded := func(f func()) {
		defer wg.Done()
		defer func() {
			if x := recover(); x != nil {
				fault.Store(fmt.Sprint(x))
			}
		}()
		<-start
		f()
	}
	wg.Add(1 + G)
	go guarded(func() {
		var err error
		if whole {
			_, err = flow.LoadRules([]*flow.Rule{rule})
		} else {
			_, err = flow.LoadRulesOfResource(res, []*flow.Rule{rule})
		}
		if err != nil {
			fault.Store("load failed: " + err.Error())
		}
	})
	// the load reaches the node creation later than a request does: the requests start after a real-time delay
	// swept over the trials (0 .. 4/3 of the measured duration of a first load, each goroutine a little later),
	// so that some trials let both sides meet in the creation path; the delay has no influence on what is
	// checked afterwards
	for g := 0; g < G; g++ {
		delay := raceLoadNs*time.Duration(trial%64)/48 + time.Duration(g)*raceLoadNs/40
		go guarded(func() {
			for t0 := time.Now(); time.Since(t0) < delay; {
			}
			if e, b := sentinel.Entry(res); b == nil {
				e.Exit()
			}
		})
	}
	close(start)
	wg.Wait()
	rep.Evaluations++
	rep.Count("start_up_race_trials", 1)
	ok := true
	if x := fault.Load(); x != nil {
		fail("C02_no_panic", "load-or-request-panicked", fmt.Sprint("start-up phase: ", x))
		ok = false
	} else {
		clk.SetMs(base0 + 20000) // a fresh window of every geometry used here, aligned
		admitted := 0
		n := 3 + int(T)
		for i := 0; i < n; i++ {
			if e, b := sentinel.Entry(res); b == nil {
				admitted++
				e.Exit()
			}
		}
		switch {
		case admitted > int(T):
			fail("C02_no_excess", "admitted-over-threshold", fmt.Sprintf("%d of %d sequential single-token requests admitted in one fresh window, threshold %v (the rule reads a window the requests do not reach)", admitted, n, T))
			ok = false
		case admitted < int(T):
			fail("C02_no_spurious_block", "spurious-rejection", fmt.Sprintf("only %d of %d sequential single-token requests admitted in one fresh window, threshold %v", admitted, n, T))
			ok = false
		}
	}
	func() {
		defer func() { recover() }()
		flow.ClearRules()
		if trial%200 == 199 {
			stat.ResetResourceNodeMap()
		}
	}()
	return ok
}

const concBase = 100000
const resetBase = 200000

func thrClass(t float64) string {
	switch {
	case math.IsNaN(t):
		return "nan"
	case math.IsInf(t, 1):
		return "inf"
	case t < 0:
		return "negative_invalid"
	case t == 0:
		return "zero"
	case t != math.Floor(t):
		return "fractional"
	case t <= 10:
		return "small"
	}
	return "large"
}

func main() {
	a := cli.Parse()
	env.Init(env.Options{})
	clk := vclock.New(1700000000000)
	clk.Install()
	root := rng.New(a.Seed)
	rep := emit.NewReport("C02", a.Seed, a.Tier)
	rep.Rule = "sequential: 1-3 resources, 0-3 reject/direct rules each (thresholds 0, fractional, small, large, invalid, Inf, NaN; StatIntervalInMs 0,1000,2000,2500,250,300,750,20000,1500,3000,500,5000,10000,1,7; associated-resource rules), 8-45 Entry/Exit operations under the virtual clock with time steps 0, small, to bucket/window boundaries -1/0/+1, whole windows, idle gaps longer than the 10 s array; concurrent: k=2-4 goroutines parked at the chain yield between rule check and statistics, random interleavings with clock ticks; rules go in through flow.LoadRules or, per resource in a random order, flow.LoadRulesOfResource; reload: in a share of the cases sibling rules are loaded just before the case's rules (statistic reuse), incl. several rules of one resource on the same independent interval, and - every second sibling - predecessors of another strategy (Direct+Throttling, MemoryAdaptive+Throttling, WarmUp+Throttling) on the same resource / relation / interval; reset: the first request after whole idle array cycles is stepped through the yields of the bucket reset (110-113, 104) while other requests run their rule check against a slot holding up to T tokens from exactly one cycle earlier. Non-trivial = at least one admission, one rejection and one 500 ms bucket boundary crossed (sequential) / at least two requests simultaneously inside the admission path (concurrent); distinct by full input."
	nSeqCorr := a.Pick(a.N, 150, 3000)
	nConcCorr := a.Pick(a.N, 40, 800)
	nSeqMon := a.Pick(a.Mon, 3000, 60000)
	nConcMon := a.Pick(a.Mon, 400, 6000)
	nResetCorr := a.Pick(a.N, 30, 400)
	nResetMon := a.Pick(a.Mon, 150, 2000)
	if a.Search {
		nResetCorr = 0
		nResetMon *= 5
	}
	if a.Search {
		nSeqCorr, nConcCorr = 0, 0
		nSeqMon *= 5
		nConcMon *= 5
	}
	var sh *emit.Shards
	if a.Only < 0 && !a.Search {
		var err error
		sh, err = emit.NewShards(a.Out, "Corr.Run_C02", a.Shards, "Open Scope Z_scope.")
		if err != nil {
			panic(err)
		}
	}
	dist := emit.NewDistinct()
	// a user generator for the strategy pair 5/4: does what the current case says, yields no controller
	if err := flow.VerifSetGenerator(5, 4, func(*flow.Rule) error {
		if f := genAct; f != nil {
			genAct = nil
			f()
		}
		return fmt.Errorf("the harness-registered generator yields no controller")
	}); err != nil {
		panic(err)
	}
	runOneSeq := func(id int, corr bool) {
		c := genSeq(root.Fork(uint64(id)), id)
		var obs []obsT
		var nodeAfter []int64
		var fin []finT
		crashed := false
		func() {
			// the harness never crashes on a mutant: a panic of the code under test is a monitor failure
			defer func() {
				if x := recover(); x != nil {
					genAct = nil
					crashed = true
					rep.Fail(c.ID, "C02_no_panic", "load-or-request-panicked", fmt.Sprint("the case panicked: ", x), c)
					flow.ClearRules()
				}
			}()
			obs, nodeAfter, fin = runSeq(c, clk)
		}()
		if crashed {
			return
		}
		if len(c.Reloads) > 0 {
			rep.Count("cases_with_reload_in_progress", 1)
			for _, rl := range c.Reloads {
				rep.Count("requests_or_exits_inside_a_reload", rl.N)
				if rl.Fail {
					rep.Count("reloads_failing_in_the_generator", 1)
				}
			}
		}
		rep.Evaluations++
		nt, st := monitorSeq(c, obs, nodeAfter, fin, rep)
		if nt {
			b, _ := json.Marshal(c)
			dist.Add(string(b))
		}
		rep.Count("seq_cases", 1)
		rep.Count("outcome_pass", st.pass)
		rep.Count("outcome_block", st.block)
		rep.Count("bucket_boundaries_crossed", st.bucketCross)
		rep.Count("idle_gaps_ge_array_interval", st.cycleCross)
		for idx, n := range st.trigIdx {
			rep.Count("triggered_rule_"+strconv.Itoa(idx), n)
		}
		if c.T0 < 100000 {
			rep.Count("cases_near_time_zero", 1)
		}
		if len(c.Prologue) > 0 {
			rep.Count("cases_with_reload_prologue", 1)
		}
		rep.Count("load_mode_"+strconv.Itoa(c.LoadMode), 1)
		for _, rs := range c.Rules {
			seen := map[uint32]int{}
			for _, x := range rs {
				if _, _, ind := ruleGeom(x.Itv); ind && !x.Assoc && ruleInForce(x) {
					seen[x.Itv]++
				}
			}
			for _, n := range seen {
				if n >= 2 {
					rep.Count("resources_with_rules_sharing_an_independent_interval", 1)
				}
			}
		}
		for _, rs := range c.Rules {
			rep.Count("rules_per_resource_"+strconv.Itoa(len(rs)), 1)
			for _, x := range rs {
				rep.Count("threshold_"+thrClass(x.Thr), 1)
				_, _, ind := ruleGeom(x.Itv)
				switch {
				case x.Itv == 0 || x.Itv == 1000:
					rep.Count("stat_default_view", 1)
				case ind:
					rep.Count("stat_independent_window", 1)
				default:
					rep.Count("stat_derived_view", 1)
				}
				if x.Assoc {
					rep.Count("rules_associated", 1)
					if ind {
						rep.Count("rules_associated_independent", 1)
					}
				}
			}
		}
		for _, o := range c.Ops {
			rep.Count("op_"+o.Kind, 1)
			if o.Kind == "enter" {
				switch {
				case o.Batch == 0:
					rep.Count("batch_zero", 1)
				case o.Batch == 1:
					rep.Count("batch_one", 1)
				case o.Batch > 100:
					rep.Count("batch_large", 1)
				default:
					rep.Count("batch_small", 1)
				}
			}
		}
		if corr && sh != nil {
			sh.Add(id, coqSeq(c, obs, fin))
			rep.CorrCases++
			rep.CaseInputs[strconv.Itoa(id)] = c
			rep.Sample(map[string]interface{}{"input": c, "observed": obs})
		}
		if a.Only >= 0 {
			out, _ := json.MarshalIndent(map[string]interface{}{"input": c, "observed": obs, "node_pass_after_op": nodeAfter, "final": fin}, "", " ")
			fmt.Println(string(out))
			fmt.Println(strings.ReplaceAll(coqSeq(c, obs, fin), "\n", " "))
		}
	}
	runOneConc := func(id int, corr bool) {
		var c concCase
		if id >= resetBase {
			c = genReset(root.Fork(uint64(id)), id)
			rep.Count("reset_cases", 1)
		} else {
			c = genConc(root.Fork(uint64(id)), id)
		}
		evs, obs, fin, tf, maxP := runConc(c, clk)
		rep.Evaluations++
		rep.Count("conc_cases", 1)
		rep.Count("conc_events", len(evs))
		if maxP >= 2 {
			b, _ := json.Marshal(c)
			dist.Add(string(b))
			rep.Count("conc_overlapping", 1)
		}
		if monitorConc(c, evs, obs, maxP, rep) {
			rep.Count("conc_window_over_threshold_within_k_bound", 1)
		}
		if corr && sh != nil {
			sh.Add(id, coqConc(c, evs, obs, fin, tf))
			rep.CorrCases++
			rep.CaseInputs[strconv.Itoa(id)] = c
			if id == concBase || id == resetBase {
				rep.Sample(map[string]interface{}{"input": c, "events": evs, "observed": obs})
			}
		}
		if a.Only >= 0 {
			out, _ := json.MarshalIndent(map[string]interface{}{"input": c, "events": evs, "observed": obs, "final": fin, "max_pending": maxP}, "", " ")
			fmt.Println(string(out))
			fmt.Println(strings.ReplaceAll(coqConc(c, evs, obs, fin, tf), "\n", " "))
		}
	}
	nRace := a.Pick(0, 36000, 200000)
	raceCalibrate()
	if a.Search {
		nRace *= 3
	}
	if a.Only >= raceBase {
		raceTrial(a.Only-raceBase, clk, rep)
		for _, f := range rep.MonitorFailures {
			fmt.Printf("MONITOR-FAIL clause=%s signature=%s %s\n", f.Clause, f.Signature, f.Detail)
		}
		return
	}
	if a.Only >= 0 {
		if a.Only >= concBase {
			runOneConc(a.Only, false)
		} else {
			runOneSeq(a.Only, false)
		}
		for _, f := range rep.MonitorFailures {
			fmt.Printf("MONITOR-FAIL clause=%s signature=%s %s\n", f.Clause, f.Signature, f.Detail)
		}
		return
	}
	for id := 0; id < nSeqMon; id++ {
		runOneSeq(id, id < nSeqCorr)
	}
	for j := 0; j < nConcMon; j++ {
		runOneConc(concBase+j, j < nConcCorr)
	}
	for j := 0; j < nResetMon; j++ {
		runOneConc(resetBase+j, j < nResetCorr)
	}
	for k := 0; k < nRace; k++ {
		if !raceTrial(k, clk, rep) {
			break
		}
	}
	rep.DistinctNontrivial = dist.N()
	rep.Consts["config.GlobalStatisticSampleCountTotal"] = config.GlobalStatisticSampleCountTotal()
	rep.Consts["config.GlobalStatisticIntervalMsTotal"] = config.GlobalStatisticIntervalMsTotal()
	rep.Consts["config.MetricStatisticSampleCount"] = config.MetricStatisticSampleCount()
	rep.Consts["config.MetricStatisticIntervalMs"] = config.MetricStatisticIntervalMs()
	rep.Consts["flow.RuleCheckSlotOrder"] = flow.RuleCheckSlotOrder
	rep.Consts["flow.StatSlotOrder"] = flow.StatSlotOrder
	rep.Consts["stat.StatSlotOrder"] = stat.StatSlotOrder
	if sh != nil {
		rep.Shards = sh.Close()
	}
	if err := rep.Write(a.Out); err != nil {
		fmt.Fprintln(os.Stderr, err)
		os.Exit(2)
	}
}
