//go:build verif

package main

import (
	"fmt"

	sentinel "github.com/alibaba/sentinel-golang/api"
	"github.com/alibaba/sentinel-golang/core/flow"

	"vh/internal/env"
	"vh/internal/vclock"
)

func main() {
	env.Init(env.Options{})
	clk := vclock.New(1700000000000)
	clk.Install()
	_, err := flow.LoadRules([]*flow.Rule{{ID: "0", Resource: "A", Threshold: 2, StatIntervalInMs: 750, RelationStrategy: flow.AssociatedResource, RefResource: "B"}})
	fmt.Println(err)
	for i := 0; i < 4; i++ {
		e, b := sentinel.Entry("A")
		fmt.Println("A", b == nil)
		if e != nil {
			e.Exit()
		}
	}
	clk.AddMs(5000)
	for i := 0; i < 4; i++ {
		e, b := sentinel.Entry("B")
		fmt.Println("B", b == nil)
		if e != nil {
			e.Exit()
		}
	}
	e, b := sentinel.Entry("A")
	fmt.Println("A after B x4", b == nil)
	if e != nil {
		e.Exit()
	}
}
