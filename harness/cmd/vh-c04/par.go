//go:build verif

// par.go: bounded real-thread SEARCH leg of vh-c04 (no Coq shards, no scheduler).
//
// The deterministic scheduler only interleaves at yield points; a lost update between two atomic
// accesses that have no yield point between them (a load and a compare-and-swap without retry in
// the gauge's increment / decrement) needs truly parallel callers.  Each case holds `Held` entries
// of one resource open, lets `G` goroutines enter and exit the same resource in bursts under a
// threshold that admits them all, waits until every goroutine has finished (quiescence) and then
// asserts facts that hold under EVERY schedule:
//
//	gauge      at quiescence the concurrency gauge equals the number of entries still open;
//	decision   sequentially, with exactly Held in flight and threshold N: a request of batch N-Held
//	           is admitted, N-Held requests of batch 1 are admitted one after the other (capacity
//	           freed by the goroutines' exits is reusable), the next one is rejected with block type
//	           isolation and snapshot N (never more than N in flight);
//	reuse      after exiting them the gauge is Held again.
//
// Variants: `double_exit` - every admitted parallel entry is exited by two goroutines at the same time
// (an entry is exited once whatever the number of Exit calls: the gauge must not drop below the
// entries still open); `mixed_types` - the callers classify the one resource name differently
// (ResourceType, traffic type): the gauge is per resource name.
//
// Nothing depends on timing to pass; the leg is bounded by fixed counts and, as a safety net, by a
// wall-clock budget that can only cut it short.  A panic of the code under test is reported as a
// monitor failure.
package main

import (
	"fmt"
	"strconv"
	"sync"
	"time"

	sentinel "github.com/alibaba/sentinel-golang/api"
	"github.com/alibaba/sentinel-golang/core/base"
	"github.com/alibaba/sentinel-golang/core/isolation"
	"github.com/alibaba/sentinel-golang/core/stat"

	"vh/internal/emit"
	"vh/internal/rng"
)

const parBase = 200000

type parCase struct {
	ID     int    `json:"id"`
	Held   int    `json:"held"`        // entries held open throughout
	N      uint32 `json:"threshold"`   // threshold of the sequential phase (> Held)
	G      int    `json:"goroutines"`  // parallel callers per burst
	Tx     int    `json:"tx"`          // Entry+Exit pairs per goroutine and burst
	Rounds int    `json:"rounds"`      // bursts
	Batch  uint32 `json:"batch"`       // batch count used by the parallel callers
	Double bool   `json:"double_exit"` // every admitted parallel entry is exited by TWO goroutines at once (timeout goroutine + deferred Exit)
	Mixed  bool   `json:"mixed_types"` // parallel callers use differing ResourceType / traffic type on the one resource name
}

func genPar(r *rng.R, id int) parCase {
	c := parCase{ID: id}
	c.Held = r.Intn(5)
	c.N = uint32(c.Held + 1 + r.Intn(3))
	c.G = int(r.PickI(4, 8, 16))
	c.Tx = int(r.PickI(10, 30, 60))
	c.Rounds = int(r.PickI(10, 20, 30))
	c.Batch = uint32(r.PickI(1, 1, 2))
	c.Double = r.Chance(2, 3)
	c.Mixed = r.Chance(1, 2)
	return c
}

type parFail struct{ clause, sig, detail string }

func parGauge(res string) int64 {
	if n := stat.GetResourceNode(res); n != nil {
		return int64(n.CurrentConcurrency())
	}
	return 0
}

func parLoad(res string, thr uint32) error {
	_, err := isolation.LoadRulesOfResource(res, []*isolation.Rule{{Resource: res, MetricType: isolation.Concurrency, Threshold: thr}})
	return err
}

// runPar returns the first failure (nil = none), the number of bursts executed and the number of
// parallel transactions that were admitted
func runPar(c parCase, deadline time.Time) (f *parFail, bursts int, admitted int64) {
	res := "c04par-" + strconv.Itoa(c.ID)
	var held []*base.SentinelEntry
	defer func() {
		if p := recover(); p != nil {
			f = &parFail{"C04_no_panic", "panic-in-code-under-test", fmt.Sprint(p)}
		}
		for _, e := range held {
			e.Exit()
		}
	}()
	wide := uint32(c.Held) + uint32(c.G)*c.Batch + 1 // admits every parallel caller
	if err := parLoad(res, wide); err != nil {
		return &parFail{"C04_setup", "rule-not-loaded", err.Error()}, 0, 0
	}
	for i := 0; i < c.Held; i++ {
		e, b := sentinel.Entry(res)
		if b != nil {
			return &parFail{"C04_decision", "spurious-rejection", fmt.Sprintf("held entry %d: in_flight=%d batch=1 threshold=%d blocked", i, i, wide)}, 0, 0
		}
		held = append(held, e)
	}
	for round := 0; round < c.Rounds; round++ {
		if time.Now().After(deadline) {
			break
		}
		if err := parLoad(res, wide); err != nil {
			return &parFail{"C04_setup", "rule-not-loaded", err.Error()}, bursts, admitted
		}
		var wg sync.WaitGroup
		var mu sync.Mutex
		var panics []string
		start := make(chan struct{})
		for g := 0; g < c.G; g++ {
			wg.Add(1)
			g := g
			go func() {
				defer wg.Done()
				defer func() {
					if p := recover(); p != nil {
						mu.Lock()
						panics = append(panics, fmt.Sprint(p))
						mu.Unlock()
					}
				}()
				// the second exiter of this caller's entries
				var second chan *base.SentinelEntry
				var ack chan struct{}
				if c.Double {
					second, ack = make(chan *base.SentinelEntry), make(chan struct{})
					go func() {
						defer close(ack)
						for e := range second {
							func() {
								defer func() {
									if p := recover(); p != nil {
										mu.Lock()
										panics = append(panics, fmt.Sprint(p))
										mu.Unlock()
									}
								}()
								e.Exit()
							}()
							ack <- struct{}{}
						}
					}()
				}
				<-start
				n := int64(0)
				for i := 0; i < c.Tx; i++ {
					opts := []sentinel.EntryOption{sentinel.WithBatchCount(c.Batch)}
					if c.Mixed {
						opts = append(opts, sentinel.WithResourceType(base.ResourceType((g+i)%5)))
						if (g+i)%3 == 0 {
							opts = append(opts, sentinel.WithTrafficType(base.Inbound))
						}
					}
					if e, b := sentinel.Entry(res, opts...); b == nil {
						n++
						if c.Double {
							second <- e
							e.Exit()
							<-ack
						} else {
							e.Exit()
						}
					}
				}
				if c.Double {
					close(second)
					<-ack
				}
				mu.Lock()
				admitted += n
				mu.Unlock()
			}()
		}
		close(start)
		wg.Wait()
		bursts++
		if len(panics) > 0 {
			return &parFail{"C04_no_panic", "panic-in-code-under-test", panics[0]}, bursts, admitted
		}
		// quiescence: exactly the held entries are open
		if g := parGauge(res); g != int64(c.Held) {
			return &parFail{"C04_gauge", "gauge-differs-from-live-entries-after-parallel-exits",
				fmt.Sprintf("burst %d: all %d goroutines finished, %d entries open, gauge=%d", round, c.G, c.Held, g)}, bursts, admitted
		}
		// sequential decisions with exactly Held in flight
		if err := parLoad(res, c.N); err != nil {
			return &parFail{"C04_setup", "rule-not-loaded", err.Error()}, bursts, admitted
		}
		free := c.N - uint32(c.Held)
		e, b := sentinel.Entry(res, sentinel.WithBatchCount(free))
		if b != nil {
			return &parFail{"C04_decision", "spurious-rejection",
				fmt.Sprintf("burst %d: in_flight=%d batch=%d threshold=%d rejected (snapshot %v)", round, c.Held, free, c.N, b.TriggeredValue())}, bursts, admitted
		}
		e.Exit()
		var fill []*base.SentinelEntry
		exitFill := func() {
			for _, x := range fill {
				x.Exit()
			}
		}
		for i := uint32(0); i < free; i++ {
			e, b := sentinel.Entry(res)
			if b != nil {
				exitFill()
				return &parFail{"C04_reuse", "freed-capacity-not-reusable",
					fmt.Sprintf("burst %d: in_flight=%d batch=1 threshold=%d rejected (snapshot %v)", round, c.Held+int(i), c.N, b.TriggeredValue())}, bursts, admitted
			}
			fill = append(fill, e)
		}
		e, b = sentinel.Entry(res)
		if b == nil {
			e.Exit()
			exitFill()
			return &parFail{"C04_cap", "admitted-over-threshold",
				fmt.Sprintf("burst %d: in_flight=%d batch=1 threshold=%d admitted", round, c.N, c.N)}, bursts, admitted
		}
		if b.BlockType() != base.BlockTypeIsolation {
			exitFill()
			return &parFail{"C04_block_type", "wrong-block-type", fmt.Sprintf("burst %d: block type %s", round, b.BlockType().String())}, bursts, admitted
		}
		if v, ok := b.TriggeredValue().(uint32); !ok || v != c.N {
			exitFill()
			return &parFail{"C04_block_report", "wrong-rule-or-snapshot",
				fmt.Sprintf("burst %d: snapshot %v with %d in flight", round, b.TriggeredValue(), c.N)}, bursts, admitted
		}
		exitFill()
		if g := parGauge(res); g != int64(c.Held) {
			return &parFail{"C04_gauge", "gauge-differs-from-live-entries",
				fmt.Sprintf("burst %d: after the sequential phase %d entries open, gauge=%d", round, c.Held, g)}, bursts, admitted
		}
	}
	return nil, bursts, admitted
}

// parLeg runs the search leg (or one case of it for --only)
func parLeg(root *rng.R, rep *emit.Report, n int, only int, budget time.Duration) {
	deadline := time.Now().Add(budget)
	one := func(id int) {
		c := genPar(root.Fork(uint64(id)), id)
		f, bursts, adm := runPar(c, deadline)
		rep.Evaluations++
		rep.Count("par_cases", 1)
		rep.Count("par_goroutine_bursts", c.Rounds*c.G) // configured, not measured: deterministic
		if bursts < c.Rounds && f == nil {
			rep.Count("par_cut_short_by_budget", 1)
		}
		if f != nil {
			rep.Fail(c.ID, f.clause, f.sig, f.detail, c)
		}
		if only >= 0 {
			fmt.Printf("{\"input\": %+v, \"bursts\": %d, \"admitted_parallel\": %d}\n", c, bursts, adm)
		}
	}
	if only >= 0 {
		one(only)
		return
	}
	before := len(rep.MonitorFailures)
	for j := 0; j < n; j++ {
		if len(rep.MonitorFailures) > before {
			break // the first failing case is enough; keep the run short on a broken tree
		}
		one(parBase + j)
	}
}
