//go:build verif

// chain.go: a custom slot chain for isolation histories - the isolation rule check between the node
// prepare slot and the statistic slots, with one extra (quiet) statistic slot ordered BEFORE
// stat.DefaultSlot and one ordered AFTER it that panics in OnEntryPassed / OnCompleted when the entry
// asks for it (marker in the entry's arguments).  A panic of a statistic slot that runs after the
// gauge was moved must not undo or skip the move: the entry is admitted (fail open) resp. exited, and
// the capacity accounting is exactly that of the default chain.  (Panics of slots ordered BEFORE
// stat.DefaultSlot keep it from running at all - the accounting clauses for that are C01 / C16's.)
package main

import (
	"github.com/alibaba/sentinel-golang/core/base"
	"github.com/alibaba/sentinel-golang/core/isolation"
	"github.com/alibaba/sentinel-golang/core/stat"
)

type panicMark struct{ pass, done bool }

type extraStatSlot struct {
	order  uint32
	panics bool
}

func (s *extraStatSlot) Order() uint32 { return s.order }

func markOf(ctx *base.EntryContext) panicMark {
	if ctx != nil && ctx.Input != nil && len(ctx.Input.Args) > 0 {
		if m, ok := ctx.Input.Args[0].(panicMark); ok {
			return m
		}
	}
	return panicMark{}
}

func (s *extraStatSlot) OnEntryPassed(ctx *base.EntryContext) {
	if s.panics && markOf(ctx).pass {
		panic("user statistic slot panicked in OnEntryPassed")
	}
}
func (s *extraStatSlot) OnEntryBlocked(*base.EntryContext, *base.BlockError) {}
func (s *extraStatSlot) OnCompleted(ctx *base.EntryContext) {
	if s.panics && markOf(ctx).done {
		panic("user statistic slot panicked in OnCompleted")
	}
}

var customChain = func() *base.SlotChain {
	sc := base.NewSlotChain()
	sc.AddStatPrepareSlot(stat.DefaultResourceNodePrepareSlot)
	sc.AddRuleCheckSlot(isolation.DefaultSlot)
	sc.AddStatSlot(&extraStatSlot{order: 500})
	sc.AddStatSlot(stat.DefaultSlot)
	sc.AddStatSlot(&extraStatSlot{order: 2000, panics: true})
	return sc
}()
