//go:build verif

// vh-c04: correspondence + monitor harness for property C04 (isolation rule).
package main

import (
	"encoding/json"
	"errors"
	"fmt"
	"os"
	"strconv"
	"time"

	sentinel "github.com/alibaba/sentinel-golang/api"
	"github.com/alibaba/sentinel-golang/core/base"
	"github.com/alibaba/sentinel-golang/core/isolation"
	"github.com/alibaba/sentinel-golang/core/stat"

	"vh/internal/cli"
	"vh/internal/emit"
	"vh/internal/env"
	"vh/internal/rng"
	"vh/internal/sched"
	"vh/internal/vclock"
)

type opT struct {
	Kind  string `json:"kind"` // enter | exit
	Res   int    `json:"res,omitempty"`
	Batch uint32 `json:"batch,omitempty"`
	K     int    `json:"k,omitempty"`
	// how the caller classifies the request; the isolation gauge is per resource NAME, so none of
	// these may matter (the model ignores them)
	RT   int  `json:"res_type,omitempty"` // base.ResourceType passed with WithResourceType (0 = common ... 4)
	In   bool `json:"inbound,omitempty"`  // WithTrafficType(base.Inbound) instead of the default outbound
	Args bool `json:"args,omitempty"`     // WithArgs(...) given
	// exit handlers registered with WhenExit on the admitted entry, in order: 1 returns nil, 2 returns an
	// error, 3 panics.  Whatever they do, Exit frees the capacity (the model ignores them)
	Hdl []int `json:"exit_handlers,omitempty"`
	// on a custom chain (seqCase.Chain): the user statistic slot ordered after stat.DefaultSlot panics in
	// OnEntryPassed / OnCompleted for this entry
	PanicPass bool `json:"stat_panic_on_pass,omitempty"`
	PanicDone bool `json:"stat_panic_on_completed,omitempty"`
}

type seqCase struct {
	ID    int        `json:"id"`
	Rules [][]uint32 `json:"rules"` // per resource: thresholds
	Ops   []opT      `json:"ops"`
	Chain bool       `json:"custom_chain,omitempty"`   // chain.go: extra statistic slots before and after stat.DefaultSlot
	Late  bool       `json:"late_resources,omitempty"` // the resources are first seen after DefaultMaxResourceAmount other names
}

type obsT struct {
	Kind string // pass | block | none
	Idx  int
	Snap int64
	Type string
}

func genSeq(r *rng.R, id int) seqCase {
	c := seqCase{ID: id}
	nres := 1 + r.Intn(3)
	for i := 0; i < nres; i++ {
		nr := 1 + r.Intn(3)
		var th []uint32
		for j := 0; j < nr; j++ {
			th = append(th, uint32(r.PickI(1, 1, 2, 2, 3, 3, 4, 5, 8, 4294967295, 2147483648)))
		}
		c.Rules = append(c.Rules, th)
	}
	c.Chain = r.Chance(1, 5)
	nops := 8 + r.Intn(40)
	var enters []int
	for i := 0; i < nops; i++ {
		if len(enters) > 0 && r.Chance(4, 10) {
			var k int
			if r.Chance(8, 10) {
				k = enters[r.Intn(len(enters))]
			} else {
				k = r.Intn(i) // may hit a non-enter op or an exited one
			}
			c.Ops = append(c.Ops, opT{Kind: "exit", K: k})
			continue
		}
		res := r.Intn(nres)
		var b uint32
		switch x := r.Intn(20); {
		case x < 12:
			b = 1
		case x < 14:
			b = 2
		case x < 15:
			b = 0
		case x < 16:
			b = c.Rules[res][0]
		case x < 17:
			b = c.Rules[res][0] + 1
		case x < 18:
			b = 4294967295
		case x < 19:
			b = 4294967294
		default:
			b = uint32(r.Range(0, 6))
		}
		o := opT{Kind: "enter", Res: res, Batch: b}
		// one resource name entered under different classifications / traffic types / option sets
		// while entries are in flight (3 of 10 requests deviate from the defaults)
		if r.Chance(3, 10) {
			o.RT = r.Intn(5)
			o.In = r.Chance(1, 3)
			o.Args = r.Chance(1, 4)
		}
		if r.Chance(1, 4) {
			for n := 1 + r.Intn(2); n > 0; n-- {
				o.Hdl = append(o.Hdl, int(r.PickI(1, 2, 2, hdlPanic)))
			}
		}
		if c.Chain && r.Chance(1, 3) {
			o.PanicPass = r.Chance(1, 3)
			o.PanicDone = r.Chance(2, 3)
		}
		c.Ops = append(c.Ops, o)
		enters = append(enters, i)
	}
	return c
}

func resName(id, res int) string { return "c04-" + strconv.Itoa(id) + "-" + strconv.Itoa(res) }

var gclk *vclock.Clock

// stepClock moves the virtual clock before operation i of case id: mostly forwards (0..2 s),
// occasionally backwards by up to 50 ms (a wall clock stepped by NTP).  Isolation decisions and
// the gauge do not depend on time, so the model ignores these moves; the observations must not change.
func stepClock(id, i int) {
	if gclk == nil {
		return
	}
	h := uint64(id)*2654435761 + uint64(i)*40503 + 12345
	h ^= h >> 13
	h *= 0x9E3779B97F4A7C15
	h ^= h >> 29
	now := gclk.CurrentTimeMillis()
	switch h % 8 {
	case 0, 1, 2:
	case 3, 4:
		gclk.SetMs(now + (h>>8)%7)
	case 5:
		gclk.SetMs(now + 400 + (h>>8)%1700)
	case 6:
		gclk.SetMs(now + 12000)
	case 7:
		gclk.SetMs(now - 1 - (h>>8)%50)
	}
}

// runSeq executes the case on the implementation.
func runSeq(c seqCase) (obs []obsT, gauges []int64) {
	var rules []*isolation.Rule
	for ri, th := range c.Rules {
		for j, t := range th {
			rules = append(rules, &isolation.Rule{ID: strconv.Itoa(j), Resource: resName(c.ID, ri), MetricType: isolation.Concurrency, Threshold: t})
		}
	}
	if _, err := isolation.LoadRules(rules); err != nil {
		panic(err)
	}
	entries := make([]*base.SentinelEntry, len(c.Ops))
	for i, o := range c.Ops {
		stepClock(c.ID, i)
		switch o.Kind {
		case "enter":
			opts := []sentinel.EntryOption{sentinel.WithBatchCount(o.Batch)}
			if o.RT != 0 {
				opts = append(opts, sentinel.WithResourceType(base.ResourceType(o.RT)))
			}
			if o.In {
				opts = append(opts, sentinel.WithTrafficType(base.Inbound))
			}
			if o.Args {
				opts = append(opts, sentinel.WithArgs(i, "x"))
			}
			if c.Chain {
				opts = append(opts, sentinel.WithSlotChain(customChain))
				if o.PanicPass || o.PanicDone {
					opts = append(opts, sentinel.WithArgs(panicMark{o.PanicPass, o.PanicDone}))
				}
			}
			e, b := sentinel.Entry(resName(c.ID, o.Res), opts...)
			if b != nil {
				idx := -1
				if tr := b.TriggeredRule(); tr != nil {
					if ir, ok := tr.(*isolation.Rule); ok {
						idx, _ = strconv.Atoi(ir.ID)
					}
				}
				snap := int64(-1)
				switch v := b.TriggeredValue().(type) {
				case uint32:
					snap = int64(v)
				}
				obs = append(obs, obsT{Kind: "block", Idx: idx, Snap: snap, Type: b.BlockType().String()})
			} else {
				entries[i] = e
				for _, h := range o.Hdl {
					h := h
					e.WhenExit(func(*base.SentinelEntry, *base.EntryContext) error {
						switch h {
						case 2:
							return errors.New("exit handler failed")
						case 3:
							panic("exit handler panicked")
						}
						return nil
					})
				}
				obs = append(obs, obsT{Kind: "pass"})
			}
		case "exit":
			if o.K >= 0 && o.K < len(entries) && entries[o.K] != nil {
				entries[o.K].Exit()
			}
			obs = append(obs, obsT{Kind: "none"})
		}
	}
	for ri := range c.Rules {
		n := stat.GetResourceNode(resName(c.ID, ri))
		if n == nil {
			gauges = append(gauges, 0)
		} else {
			gauges = append(gauges, int64(n.CurrentConcurrency()))
		}
	}
	// clean up: exit everything still live so later cases start from quiescence
	for _, e := range entries {
		if e != nil {
			e.Exit()
		}
	}
	return
}

// monitorSeq states the property directly over the implementation's trace.
func monitorSeq(c seqCase, obs []obsT, gauges []int64, rep *emit.Report) (nontrivial bool) {
	live := map[int]int{} // op index -> res
	inflight := make([]uint64, len(c.Rules))
	zeroBatchAdmitted := make([]bool, len(c.Rules))
	sawPass, sawBlock := false, false
	for i, o := range c.Ops {
		switch o.Kind {
		case "enter":
			want := true
			first := -1
			for j, t := range c.Rules[o.Res] {
				if inflight[o.Res]+uint64(o.Batch) > uint64(t) {
					want = false
					first = j
					break
				}
			}
			got := obs[i].Kind == "pass"
			if got != want {
				sig := "decision"
				if got && !want {
					sig = "admitted-over-threshold"
				} else {
					sig = "spurious-rejection"
				}
				rep.Fail(c.ID, "C04_decision", sig, fmt.Sprintf("op %d: in_flight=%d batch=%d rules=%v admitted=%v", i, inflight[o.Res], o.Batch, c.Rules[o.Res], got), c)
				return
			}
			if got {
				sawPass = true
				live[i] = o.Res
				inflight[o.Res]++
				if o.Batch == 0 {
					zeroBatchAdmitted[o.Res] = true
				}
				if !zeroBatchAdmitted[o.Res] {
					for _, t := range c.Rules[o.Res] {
						if inflight[o.Res] > uint64(t) {
							rep.Fail(c.ID, "C04_cap", "in-flight-exceeds-threshold", fmt.Sprintf("op %d: in_flight=%d > %d", i, inflight[o.Res], t), c)
							return
						}
					}
				}
			} else {
				sawBlock = true
				if obs[i].Type != "BlockTypeIsolation" {
					rep.Fail(c.ID, "C04_block_type", "wrong-block-type", fmt.Sprintf("op %d: block type %s", i, obs[i].Type), c)
					return
				}
				if obs[i].Idx != first || obs[i].Snap != int64(inflight[o.Res]) {
					rep.Fail(c.ID, "C04_block_report", "wrong-rule-or-snapshot", fmt.Sprintf("op %d: reported rule %d snapshot %d, expected rule %d snapshot %d", i, obs[i].Idx, obs[i].Snap, first, inflight[o.Res]), c)
					return
				}
			}
		case "exit":
			if res, ok := live[o.K]; ok {
				delete(live, o.K)
				inflight[res]--
			}
		}
	}
	for ri := range c.Rules {
		if gauges[ri] != int64(inflight[ri]) {
			rep.Fail(c.ID, "C04_gauge", "gauge-differs-from-live-entries", fmt.Sprintf("res %d: gauge=%d live=%d", ri, gauges[ri], inflight[ri]), c)
			return
		}
	}
	return sawPass && sawBlock
}

func coqSeq(c seqCase, obs []obsT, gauges []int64) string {
	var rules []string
	for ri, th := range c.Rules {
		var ts []string
		for _, t := range th {
			ts = append(ts, emit.U(uint64(t)))
		}
		rules = append(rules, emit.Tuple(emit.Z(int64(ri)), emit.List(ts)))
	}
	var ops, os_ []string
	for i, o := range c.Ops {
		if o.Kind == "enter" {
			ops = append(ops, fmt.Sprintf("Enter %d %d", o.Res, o.Batch))
		} else {
			ops = append(ops, fmt.Sprintf("Exit %s", emit.Z(int64(o.K))))
		}
		switch obs[i].Kind {
		case "pass":
			os_ = append(os_, "OPass")
		case "block":
			os_ = append(os_, fmt.Sprintf("OBlock %s %s", emit.Z(int64(obs[i].Idx)), emit.Z(obs[i].Snap)))
		default:
			os_ = append(os_, "ONone")
		}
	}
	var gs []string
	for ri, g := range gauges {
		gs = append(gs, emit.Tuple(emit.Z(int64(ri)), emit.Z(g)))
	}
	return fmt.Sprintf("Seq %d %s %s %s %s", c.ID, emit.List(rules), emit.List(ops), emit.List(os_), emit.List(gs))
}

// ---- concurrent admission (k-bound) ----

type concCase struct {
	ID      int      `json:"id"`
	N       uint32   `json:"threshold"`
	Prefill int      `json:"prefill"`
	Batches []uint32 `json:"batches"`  // one per goroutine
	Sched   []int    `json:"schedule"` // thread index per step; -1 = exit one prefilled entry
}

type concEv struct {
	Kind string // check | record | release
	Tid  int
	B    uint32
}

func genConc(r *rng.R, id int) concCase {
	c := concCase{ID: id}
	c.N = uint32(r.Range(1, 4))
	c.Prefill = r.Intn(int(c.N) + 1)
	k := 2 + r.Intn(3)
	for i := 0; i < k; i++ {
		c.Batches = append(c.Batches, uint32(r.PickI(1, 1, 1, 2, int64(c.N))))
	}
	// each thread takes exactly two steps; interleave randomly, with some releases
	var steps []int
	for i := 0; i < k; i++ {
		steps = append(steps, i, i)
	}
	p := r.Perm(len(steps))
	for _, j := range p {
		c.Sched = append(c.Sched, steps[j])
		if r.Chance(1, 5) {
			c.Sched = append(c.Sched, -1)
		}
	}
	return c
}

func runConc(c concCase) (evs []concEv, passed []bool, finalGauge int64, maxPending int, maxGauge int64, prefillBlockedAt int) {
	prefillBlockedAt = -1
	res := "c04k-" + strconv.Itoa(c.ID)
	if _, err := isolation.LoadRulesOfResource(res, []*isolation.Rule{{Resource: res, MetricType: isolation.Concurrency, Threshold: c.N}}); err != nil {
		panic(err)
	}
	var pre []*base.SentinelEntry
	for i := 0; i < c.Prefill; i++ {
		e, b := sentinel.Entry(res)
		if b != nil {
			// i entries in flight, i+1 <= Prefill <= N: the property demands admission.  Reported by
			// the caller as a monitor failure (not a harness crash); the concurrent part is skipped.
			for _, pe := range pre {
				pe.Exit()
			}
			prefillBlockedAt = i
			return
		}
		pre = append(pre, e)
	}
	for i := 0; i < c.Prefill; i++ {
		evs = append(evs, concEv{Kind: "check", Tid: 1000 + i, B: 1}, concEv{Kind: "record", Tid: 1000 + i})
	}
	s := sched.New(func(id int) bool { return id == 400 })
	defer s.Close()
	k := len(c.Batches)
	passed = make([]bool, k)
	ents := make([]*base.SentinelEntry, k)
	for i := 0; i < k; i++ {
		i := i
		s.Spawn(func() {
			e, b := sentinel.Entry(res, sentinel.WithBatchCount(c.Batches[i]))
			passed[i] = b == nil
			ents[i] = e
		})
	}
	node := func() int64 {
		if n := stat.GetResourceNode(res); n != nil {
			return int64(n.CurrentConcurrency())
		}
		return 0
	}
	pending := 0
	inPath := make([]bool, k)
	for _, t := range c.Sched {
		if t < 0 {
			if len(pre) > 0 {
				pre[0].Exit()
				pre = pre[1:]
				evs = append(evs, concEv{Kind: "release"})
			}
			continue
		}
		at := s.At(t)
		l := s.Step(t)
		if at == sched.Start {
			if l != 400 {
				panic(fmt.Sprintf("thread %d: expected to park at 400, got %d", t, l))
			}
			evs = append(evs, concEv{Kind: "check", Tid: t, B: c.Batches[t]})
			inPath[t] = true
			pending++
			if pending > maxPending {
				maxPending = pending
			}
		} else {
			if l != sched.Done {
				panic(fmt.Sprintf("thread %d: expected to finish, got %d", t, l))
			}
			evs = append(evs, concEv{Kind: "record", Tid: t})
			inPath[t] = false
			pending--
		}
		if g := node(); g > maxGauge {
			maxGauge = g
		}
	}
	finalGauge = node()
	for _, e := range ents {
		if e != nil {
			e.Exit()
		}
	}
	for _, e := range pre {
		e.Exit()
	}
	return
}

func coqConc(c concCase, evs []concEv, passed []bool, fg int64) string {
	var es []string
	for _, e := range evs {
		switch e.Kind {
		case "check":
			es = append(es, fmt.Sprintf("Check %d %d", e.Tid, e.B))
		case "record":
			es = append(es, fmt.Sprintf("Record %d", e.Tid))
		default:
			es = append(es, "Release 1")
		}
	}
	var ps []string
	for i := 0; i < c.Prefill; i++ {
		ps = append(ps, emit.Tuple(emit.Z(int64(1000+i)), "true"))
	}
	for i, p := range passed {
		ps = append(ps, emit.Tuple(emit.Z(int64(i)), emit.B(p)))
	}
	return fmt.Sprintf("Conc %d %d %s %s %s", c.ID, c.N, emit.List(es), emit.Z(fg), emit.List(ps))
}

const concBase = 100000

// lateBase: sequential cases run after the process holds DefaultMaxResourceAmount resource nodes
const lateBase = 300000

var nodesFilled bool

func fillResourceNodes() {
	if nodesFilled {
		return
	}
	nodesFilled = true
	for i := 0; i <= int(base.DefaultMaxResourceAmount); i++ {
		stat.GetOrCreateResourceNode("c04-fill-"+strconv.Itoa(i), base.ResTypeCommon)
	}
}

// hdlPanic: the handler kind drawn for "panics".  3 = really panic.
const hdlPanic = 3

func main() {
	a := cli.Parse()
	env.Init(env.Options{})
	clk := vclock.New(1700000000000)
	clk.Install()
	gclk = clk
	root := rng.New(a.Seed)
	rep := emit.NewReport("C04", a.Seed, a.Tier)
	rep.Rule = "sequential: 1-3 resources x 1-3 isolation rules, 8-47 Entry/Exit ops (batches 0,1,2,N,N+1,2^32-1,2^32-2; exits out of order, repeated, of blocked ops; 3 in 10 requests enter the same resource name under another ResourceType / as inbound traffic / with arguments; 1 in 4 admitted entries carry 1-2 WhenExit handlers returning nil / an error / panicking; 1 in 5 cases run on a custom chain with user statistic slots before and after stat.DefaultSlot, the later one panicking in OnEntryPassed / OnCompleted for a third of the entries; the last 24 cases run on resources first seen after 10001 other resource nodes exist); concurrent: k=2-4 goroutines parked at the chain yield between rule check and statistics, random interleavings with releases. Non-trivial = the history contains at least one admission and one rejection (sequential) / at least two requests simultaneously inside the admission path (concurrent); distinct by full input. parallel (search only): 0-4 entries held open, 4-16 real goroutines entering/exiting the same resource in 10-30 bursts; at quiescence gauge = held entries, then sequential decisions with exactly that many in flight (batch N-held admitted, N-held single admissions, next rejected with snapshot N)."
	nSeqCorr := a.Pick(a.N, 240, 4000)
	nConcCorr := a.Pick(a.N, 80, 1500)
	nSeqMon := a.Pick(a.Mon, 4000, 60000)
	nConcMon := a.Pick(a.Mon, 600, 8000)
	if a.Search {
		nSeqCorr, nConcCorr = 0, 0
		nSeqMon *= 5
		nConcMon *= 5
	}
	var sh *emit.Shards
	if a.Only < 0 && !a.Search {
		var err error
		sh, err = emit.NewShards(a.Out, "Corr.Run_C04", a.Shards, "")
		if err != nil {
			panic(err)
		}
	}
	dist := emit.NewDistinct()
	runOneSeq := func(id int, corr bool) {
		c := genSeq(root.Fork(uint64(id)), id)
		if id >= lateBase && id < lateBase+100000 {
			// the case's resources are first seen after DefaultMaxResourceAmount other resource names
			// exist in the process: the gauge of a late resource counts its in-flight entries all the same
			fillResourceNodes()
			c.Late = true
		}
		obs, gauges := runSeq(c)
		rep.Evaluations++
		nt := monitorSeq(c, obs, gauges, rep)
		b, _ := json.Marshal(c)
		if nt {
			dist.Add(string(b))
		}
		for i, o := range c.Ops {
			rep.Count("op_"+o.Kind, 1)
			if o.Kind == "enter" {
				rep.Count("outcome_"+obs[i].Kind, 1)
				if o.RT != 0 || o.In || o.Args {
					rep.Count("enter_with_other_classification", 1)
				}
				if o.Batch == 0 {
					rep.Count("batch_zero", 1)
				} else if o.Batch > 1<<31 {
					rep.Count("batch_huge", 1)
				}
			}
		}
		if corr && sh != nil {
			sh.Add(id, coqSeq(c, obs, gauges))
			rep.CorrCases++
			rep.CaseInputs[strconv.Itoa(id)] = c
			rep.Sample(map[string]interface{}{"input": c, "observed": obs})
		}
		if a.Only >= 0 {
			out, _ := json.MarshalIndent(map[string]interface{}{"input": c, "observed": obs, "gauges": gauges, "coq": coqSeq(c, obs, gauges)}, "", " ")
			fmt.Println(string(out))
		}
	}
	runOneConc := func(id int, corr bool) {
		c := genConc(root.Fork(uint64(id)), id)
		evs, passed, fg, maxP, maxG, pb := runConc(c)
		rep.Evaluations++
		if pb >= 0 {
			rep.Fail(c.ID, "C04_decision", "spurious-rejection", fmt.Sprintf("prefill entry %d: in_flight=%d batch=1 threshold=%d blocked", pb, pb, c.N), c)
			if a.Only >= 0 {
				out, _ := json.MarshalIndent(map[string]interface{}{"input": c, "prefill_blocked_at": pb}, "", " ")
				fmt.Println(string(out))
			}
			return
		}
		rep.Count("conc_cases", 1)
		rep.Count("conc_steps", len(evs))
		if maxP >= 2 {
			b, _ := json.Marshal(c)
			dist.Add(string(b))
			rep.Count("conc_overlapping", 1)
		}
		k := int64(maxP)
		if k < 1 {
			k = 1
		}
		if maxG > int64(c.N)+k-1 {
			rep.Fail(c.ID, "C04_k_bound", "gauge-exceeds-N-plus-k-minus-1", fmt.Sprintf("max gauge %d > N=%d + k=%d - 1", maxG, c.N, k), c)
		}
		if maxG > int64(c.N) {
			rep.Count("conc_over_threshold_within_bound", 1)
		}
		if corr && sh != nil {
			sh.Add(id, coqConc(c, evs, passed, fg))
			rep.CorrCases++
			rep.CaseInputs[strconv.Itoa(id)] = c
			if id == concBase {
				rep.Sample(map[string]interface{}{"input": c, "events": evs, "passed": passed, "final_gauge": fg})
			}
		}
		if a.Only >= 0 {
			out, _ := json.MarshalIndent(map[string]interface{}{"input": c, "events": evs, "passed": passed, "final_gauge": fg, "max_gauge": maxG, "coq": coqConc(c, evs, passed, fg)}, "", " ")
			fmt.Println(string(out))
		}
	}
	if a.Only >= 0 {
		if a.Only >= lateBase {
			runOneSeq(a.Only, false)
		} else if a.Only >= parBase {
			parLeg(root, rep, 0, a.Only, 10*time.Second)
		} else if a.Only >= concBase {
			runOneConc(a.Only, false)
		} else {
			runOneSeq(a.Only, false)
		}
		for _, f := range rep.MonitorFailures {
			fmt.Printf("MONITOR-FAIL clause=%s signature=%s %s\n", f.Clause, f.Signature, f.Detail)
		}
		return
	}
	for id := 0; id < nSeqMon; id++ {
		runOneSeq(id, id < nSeqCorr)
	}
	for j := 0; j < nConcMon; j++ {
		runOneConc(concBase+j, j < nConcCorr)
	}
	// real-thread search leg (par.go): bounded by counts, at most 4 s (quick) / 60 s (thorough)
	parLeg(root, rep, a.Pick(0, 12, 200), -1, time.Duration(a.Pick(0, 4, 60))*time.Second)
	// last: sequential cases on resources first seen after DefaultMaxResourceAmount other names
	for j := 0; j < a.Pick(0, 24, 400); j++ {
		runOneSeq(lateBase+j, j < 12 && !a.Search)
	}
	rep.DistinctNontrivial = dist.N()
	rep.Consts["isolation.RuleCheckSlotOrder"] = isolation.RuleCheckSlotOrder
	if sh != nil {
		rep.Shards = sh.Close()
	}
	if err := rep.Write(a.Out); err != nil {
		fmt.Fprintln(os.Stderr, err)
		os.Exit(2)
	}
}
