//go:build verif

// vh-c13: correspondence + monitor harness for property C13 (only valid, latest-loaded rules are
// in force; getters equal enforced; no panic; identical reload unchanged) over the six rule
// managers. The per-module drivers, the independent monitor and the Coq case printer live in
// harness/internal/rulesh; this file sizes the run, counts the input distribution and reports.
package main

import (
	"encoding/json"
	"fmt"
	"os"
	"strconv"

	"vh/internal/cli"
	"vh/internal/emit"
	"vh/internal/env"
	"vh/internal/rng"
	"vh/internal/rulesh"
	"vh/internal/vclock"
)

const (
	flowBase = 0
	isoBase  = 100000
	hotBase  = 200000
	brkBase  = 300000
	sysBase  = 400000
	outBase  = 500000
	modSpan  = 100000
)

type runner struct {
	a    cli.Args
	root *rng.R
	rep  *emit.Report
	sh   *emit.Shards
	dist *emit.Distinct
}

func (x *runner) finish(id int, corr bool, nontrivial bool, input interface{}, observed interface{}, coq string) {
	x.rep.Evaluations++
	if nontrivial {
		b, _ := json.Marshal(input)
		x.dist.Add(string(b))
	}
	if corr && x.sh != nil {
		x.sh.Add(id, coq)
		x.rep.CorrCases++
		x.rep.CaseInputs[strconv.Itoa(id)] = input
		if id%modSpan == 0 {
			x.rep.Samples = append(x.rep.Samples, map[string]interface{}{"input": input, "observed": observed})
		}
	}
	if x.a.Only >= 0 {
		out, _ := json.MarshalIndent(map[string]interface{}{"input": input, "observed": observed, "coq": coq}, "", " ")
		fmt.Println(string(out))
	}
}

func runGeneric[T any](x *runner, m *rulesh.Mod[T], prefix string, id int, corr bool) {
	c := rulesh.GenCase(m, x.root.Fork(uint64(id)), prefix, id, false)
	obs := rulesh.Run(m, c, true)
	nt := rulesh.Monitor(m, c, obs, x.rep)
	if m.Ctrls != nil {
		rulesh.MonitorReuse(m, c, obs, x.rep)
	}
	rulesh.CountGeneric(m, c, obs, x.rep)
	x.finish(id, corr, nt, rulesh.InputOf(m, c), rulesh.ObservedOf(m, c, obs), rulesh.CoqCase(m, c, obs))
}

func main() {
	a := cli.Parse()
	env.Init(env.Options{})
	clk := vclock.New(1700000000000)
	clk.Install()
	rulesh.Clk = clk
	x := &runner{a: a, root: rng.New(a.Seed), rep: emit.NewReport("C13", a.Seed, a.Tier), dist: emit.NewDistinct()}
	x.rep.Rule = "per module (flow, isolation, hotspot, circuit breaker: 1-3 resources, 3-7 operations LoadRules / LoadRulesOfResource / clear-all / clear-resource / empty resource name, lists of 0-4 elements drawn from a per-case alphabet of valid rules, statistic-reusable variants, rules invalid in exactly one field, rules without generator, rules addressed to another resource, nil elements, duplicates, freshly allocated identical repeats; system: whole-set loads incl. nil vs empty slice; outlier: whole-set and single-rule loads) followed by one probe request per resource. Non-trivial = the history contains at least one invalid or nil element and (an identical reload, or a reload in which a controller was kept for an equal rule); distinct by full input."
	nCorr := a.Pick(a.N, 45, 1000)
	nMon := a.Pick(a.Mon, 500, 12000)
	if a.Search {
		nCorr = 0
		nMon *= 5
	}
	if a.Only < 0 && !a.Search {
		var err error
		x.sh, err = emit.NewShards(a.Out, "Corr.Run_C13", a.Shards, "Open Scope Z_scope.")
		if err != nil {
			panic(err)
		}
		x.sh.Add(0, rulesh.CoqConsts(9999999))
		x.rep.CorrCases++
	}
	fm, im, hm, bm := rulesh.FlowMod(), rulesh.IsoMod(), rulesh.HotMod(), rulesh.BrkMod()
	rulesh.RegisterGenerators(fm, hm, bm)
	one := func(id int, corr bool) {
		switch {
		case id >= outBase:
			c := rulesh.GenOut(x.root.Fork(uint64(id)), id)
			obs := rulesh.RunOut(c)
			nt := rulesh.MonitorOut(c, obs, x.rep)
			rulesh.CountOut(c, obs, x.rep)
			x.finish(id, corr, nt, rulesh.OutInput(c), rulesh.OutObserved(c, obs), rulesh.CoqOut(c, obs))
		case id >= sysBase:
			c := rulesh.GenSys(x.root.Fork(uint64(id)), id)
			obs := rulesh.RunSys(c)
			nt := rulesh.MonitorSys(c, obs, x.rep)
			rulesh.CountSys(c, obs, x.rep)
			x.finish(id, corr, nt, rulesh.SysInput(c), rulesh.SysObserved(obs), rulesh.CoqSys(c, obs))
		case id >= brkBase:
			runGeneric(x, bm, "c13b", id, corr)
		case id >= hotBase:
			runGeneric(x, hm, "c13h", id, corr)
		case id >= isoBase:
			runGeneric(x, im, "c13i", id, corr)
		default:
			runGeneric(x, fm, "c13f", id, corr)
		}
	}
	if a.Only >= 0 {
		one(a.Only, false)
		for _, f := range x.rep.MonitorFailures {
			fmt.Printf("MONITOR-FAIL clause=%s signature=%s %s\n", f.Clause, f.Signature, f.Detail)
		}
		return
	}
	for _, base := range []int{flowBase, isoBase, hotBase, brkBase, sysBase, outBase} {
		for k := 0; k < nMon; k++ {
			one(base+k, k < nCorr)
		}
	}
	x.rep.DistinctNontrivial = x.dist.N()
	rulesh.Consts(x.rep)
	if x.sh != nil {
		x.rep.Shards = x.sh.Close()
	}
	if err := x.rep.Write(a.Out); err != nil {
		fmt.Fprintln(os.Stderr, err)
		os.Exit(2)
	}
}
