#!/bin/bash
# Offline setup: full Coq build, grep gate, warm Go build cache for every harness binary.
set -e
cd "$(dirname "$0")"
export GOFLAGS=-mod=mod GOPROXY=off GOSUMDB=off GOTOOLCHAIN=local CGO_ENABLED=0
# grep gate: nothing forbidden anywhere in the development
if grep -rnE '\bAdmitted\b|\badmit\b|^\s*(Axiom|Parameter|Conjecture|Hypothesis|Variable)\b.*' coq translator --include='*.v' | grep -vE 'Section|^[^:]+:[0-9]+:\s*\(\*' | python3 tools/gate_filter.py; then
  echo "grep gate failed" >&2; exit 1
fi
# full .vo build of the whole development; -k so that one broken file cannot take down the checks of
# properties that do not depend on it (each check's proof leg rebuilds and verifies its own targets)
tools/build_coq.sh -k || echo "WARN: some Coq files do not build (see above); the checks that depend on them will report it" >&2
mkdir -p build/bin
cp /repo/go.sum harness/go.sum 2>/dev/null || true
# warm the Go build cache; every check rebuilds its own harness against /repo anyway, so a harness
# that does not build is reported by its check, not here
for d in harness/cmd/*/; do
  n=$(basename "$d")
  ls "$d"*.go >/dev/null 2>&1 || continue
  (cd harness && go build -tags verif -o ../build/bin/$n ./cmd/$n) || echo "WARN: harness $n does not build" >&2
done
if [ -d translator ]; then (cd translator && go build -o ../build/bin/ ./... ) || echo "WARN: translators do not build" >&2; fi
echo "setup ok"
